"""C13 - policy heads: sampling, log-probability and entropy describe one distribution; greedy / epsilon-greedy selection."""
from __future__ import annotations

import ast

from ..cfg import CFG
from ..loops import dotted, find_env_loop
from ..nf import NF, Scope, Poly, parse_expr
from ..repo import Repo, loc, short, AnalysisError, positional_params, param_names
from ..resolve import Resolver

EXPLANATION = (
    "Sibling agreement: within each stochastic head the distribution parameters used by sample, log_probability and entropy (and "
    "__call__ where it returns them) are reduced to normal forms and must coincide: same network call on the observation, "
    "std == exp(clip(0.5*log_var, -20, 2)), same loc/scale handed to the tfp distribution (or the same logits to Categorical). "
    "Tuple-unpack arity is checked against the return arity of the callee (a head that unpacks the mean into (mean, log_var) is a "
    "violation). Hand-written densities / entropies are accepted only if they normalise to the documented closed form (log-space "
    "for the softmax head). Greedy policies are argmax of the row / network output; the tabular epsilon-greedy branch orientation "
    "(roll < epsilon -> random) and the DQN-family selection branch (random iff [step < learning_starts or] roll < epsilon_t, else "
    "greedy_policy(<online net>, <current obs>)) with the 1.0 -> 0.1 linear schedule are structural."
)
TRUSTED = ["tfp MultivariateNormalDiag / Normal / Categorical closed forms for the parameters they are given", "jax.random.uniform draws from [0, 1)", "jnp.argmax returns a maximiser"]
RULES = {
    "R1-sibling-agreement": "sample / log_probability / entropy of one head obtain (mean, std) resp. logits by the same normal form; std == exp(clip(0.5*log_var, -20, 2))",
    "R2-unpack-arity": "a tuple-unpack of a repo callable has as many targets as the callee returns",
    "R3-distribution-call": "log_probability == MultivariateNormalDiag(mean, std).log_prob(action) (or the documented closed form); entropy == Normal(mean, std).entropy(); "
                            "softmax head: Categorical(logits=...) for sample / log_prob / entropy, probabilities == softmax(logits)",
    "R4-greedy": "greedy == argmax of the Q row / network output on the observation; epsilon-greedy: roll < epsilon -> uniformly random action over the row, else greedy; "
                 "DQN family: random iff [step < learning_starts or] roll[step] < epsilon[step], else greedy on the online network and the current observation; epsilon = linear_schedule(total_timesteps)",
}

PH = "rl_blox.blox.function_approximator.policy_head."
STD_SPEC = "jnp.exp(jnp.clip(0.5 * LV, -20.0, 2.0))"


def _method(repo, cq, name):
    """The method as the class has it: its own, or inherited from a repository base class (a shared base of sibling heads)."""
    m = repo.method(cq, name)
    if m is None:
        raise AnalysisError(f"{cq}.{name} not found (anchor vanished)")
    m[1]._module = repo.cls(m[0])._module
    return m[1]


def _dist_call(fn):
    """The tfp distribution construction in a method: (ctor name, kwargs dict of ast, method called on it, its args)."""
    POS = {"Normal": ["loc", "scale"], "MultivariateNormalDiag": ["loc", "scale_diag"], "Categorical": ["logits", "probs"]}
    # the distribution object may be held in a local (`pi = dist.Categorical(...); pi.sample(...)`)
    local_dists = {}
    for n in ast.walk(fn):
        if isinstance(n, ast.Assign) and len(n.targets) == 1 and isinstance(n.targets[0], ast.Name) and isinstance(n.value, ast.Call) and (dotted(n.value.func) or "").startswith("dist."):
            local_dists[n.targets[0].id] = n.value
    for n in ast.walk(fn):
        if not (isinstance(n, ast.Call) and isinstance(n.func, ast.Attribute)):
            continue
        ctor = None
        if isinstance(n.func.value, ast.Call) and (dotted(n.func.value.func) or "").startswith("dist."):
            ctor = n.func.value
        elif isinstance(n.func.value, ast.Name) and n.func.value.id in local_dists and n.func.attr in ("sample", "log_prob", "entropy", "mode", "mean"):
            ctor = local_dists[n.func.value.id]
        if ctor is None:
            continue
        name = dotted(ctor.func)[5:]
        kws = {k.arg: k.value for k in ctor.keywords}
        for pn, a in zip(POS.get(name, []), ctor.args):     # positional parameters of the tfp constructors
            kws.setdefault(pn, a)
        return name, kws, n.func.attr, n
    return None


def _return_arity(fn):
    ar = set()
    for n in ast.walk(fn):
        if isinstance(n, ast.Return) and n.value is not None:
            ar.add(len(n.value.elts) if isinstance(n.value, ast.Tuple) else 1)
    return ar


def gaussian_head(ck, repo, nf, cq, has_tanh):
    cls = repo.cls(cq)
    mi = cls._module
    call_fn = _method(repo, cq, "__call__")
    call_arity = _return_arity(call_fn)
    forms = {}
    for meth in ("sample", "log_probability", "entropy"):
        fn = _method(repo, cq, meth)
        fn._module = mi
        cfg = nf.cfg_of(fn)
        obs = positional_params(fn)[1]
        env = {p: Poly.atom(p, {p}, {p}) for p in positional_params(fn)}
        env[obs] = Poly.atom("OBS", {"OBS"}, {"OBS"})
        sc = Scope(cfg, mi, env, f"{cq}.{meth}", self_class=cq)
        where = loc(mi, fn)
        # R2: unpack arity of self(...) / self.net(...)
        for n in ast.walk(fn):
            if isinstance(n, ast.Assign) and isinstance(n.targets[0], ast.Tuple) and isinstance(n.value, ast.Call):
                f = n.value.func
                if isinstance(f, ast.Name) and f.id == "self":
                    ok = call_arity == {len(n.targets[0].elts)}
                    ck.ob("R2-unpack-arity", f"{cq}.{meth}", "unpack-of-self-call", ok, f"`{short(n)}`; __call__ returns {sorted(call_arity)} value(s)",
                          "" if ok else f"`self(...)` returns {sorted(call_arity)} value(s) ({short(next(x.value for x in ast.walk(call_fn) if isinstance(x, ast.Return)), 40)}) but is unpacked into "
                                        f"{len(n.targets[0].elts)}: the batch axis is iterated instead (raises for batch sizes != 2, garbage for batch size 2)", loc(mi, n))
        d = _dist_call(fn)
        if d is None:
            # hand-written form: sample == normal(key, shape)*std + mean is accepted for `sample`
            rets = [x for x in ast.walk(fn) if isinstance(x, ast.Return)]
            rp = nf.poly(rets[0].value, sc, cfg.node_of(rets[0]).id)
            forms[meth] = ("manual", rp)
            continue
        ctor, kws, op, node = d
        at = cfg.node_of(node).id
        loc_p = nf.poly(kws.get("loc"), sc, at) if "loc" in kws else None
        scale_p = nf.poly(kws.get("scale_diag", kws.get("scale")), sc, at) if ("scale_diag" in kws or "scale" in kws) else None
        forms[meth] = (ctor, loc_p, scale_p, op, node)
    # expected parameter forms
    net = "self.net(OBS)"
    m0 = _method(repo, cq, "__call__")
    senv = {"OBS": Poly.atom("OBS", {"OBS"}, {"OBS"})}
    ssc = Scope(None, mi, senv, cq, self_class=cq)
    if has_tanh:
        want_mean = nf.poly(parse_expr("nnx.tanh(self.net(OBS)[0]) * jnp.broadcast_to(self.action_scale.value, self.net(OBS)[0].shape) + jnp.broadcast_to(self.action_bias.value, self.net(OBS)[0].shape)"), ssc, None)
    else:
        want_mean = nf.poly(parse_expr("self.net(OBS)[0]"), ssc, None)
    want_std = nf.poly(parse_expr(STD_SPEC.replace("LV", "self.net(OBS)[1]")), ssc, None)
    expect = {"sample": ("MultivariateNormalDiag", "sample"), "log_probability": ("MultivariateNormalDiag", "log_prob"), "entropy": ("Normal", "entropy")}
    for meth, f in forms.items():
        fn = _method(repo, cq, meth)
        where = loc(mi, fn)
        site = f"{cq}.{meth}"
        if f[0] == "manual":
            rp = f[1]
            if meth == "sample":
                want = nf.poly(parse_expr("jax.random.normal(key, MEAN.shape) * STD + MEAN"), Scope(None, mi, {"MEAN": want_mean, "STD": want_std, "key": Poly.atom("key")}, cq), None)
                ok = rp == want
                ck.ob("R1-sibling-agreement", site, "sample-form", ok, f"sample = {rp.canon()[:140]}", "" if ok else "a hand-written sample must be normal(key, mean.shape) * std + mean with the head's own (mean, std)", where)
            elif meth == "log_probability":
                A = Poly.atom("action", {"action"}, {"action"})
                e2 = {"MEAN": want_mean, "STD": want_std, "action": A}
                alts = ["jnp.sum(-jnp.log(STD) - 0.5 * jnp.log(2.0 * jnp.pi) - 0.5 * ((action - MEAN) / STD) ** 2, axis=-1)"]
                ok = any(rp == nf.poly(parse_expr(a), Scope(None, mi, e2, cq), None) for a in alts)
                ck.ob("R3-distribution-call", site, "closed-form-density", ok, f"log_prob = {rp.canon()[:150]}",
                      "" if ok else "hand-written log-density is not sum_d(-log std - 0.5*log(2*pi) - 0.5*((a-mean)/std)^2) of the head's (mean, std)", where)
            else:
                ck.ob("R3-distribution-call", site, "entropy-form", False, f"entropy = {rp.canon()[:120]}", "entropy is not computed from Normal(mean, std) of the head's parameters (unrecognised closed form)", where)
            continue
        ctor, loc_p, scale_p, op, node = f
        okc = (ctor, op) == expect[meth]
        ck.ob("R3-distribution-call", site, "distribution", okc, f"dist.{ctor}(...).{op}(...)", "" if okc else f"documented: dist.{expect[meth][0]}(mean, std).{expect[meth][1]}", loc(mi, node))
        okm = loc_p is not None and loc_p == want_mean
        from ..sem import same_ingredients as _same
        for got_, want_, what_ in ((loc_p, want_mean, "mean"), (scale_p, want_std, "scale")):
            if got_ is not None and got_ != want_ and ("φ(" in got_.canon() or not _same(got_, want_mean + want_std, ("OBS",))):
                raise AnalysisError(f"{site}: the {what_} handed to the distribution `{got_.canon()[:80]}` is not read back to the head's network output (unrecognised form)")
        ck.ob("R1-sibling-agreement", site, "mean", okm, f"loc = {loc_p.canon()[:120] if loc_p is not None else None}", "" if okm else f"the mean handed to the distribution is not the head's mean `{want_mean.canon()[:80]}`", loc(mi, node))
        oks = scale_p is not None and scale_p == want_std
        ck.ob("R1-sibling-agreement", site, "std", oks, f"scale = {scale_p.canon()[:120] if scale_p is not None else None}",
              "" if oks else f"the scale handed to the distribution is not exp(clip(0.5*log_var, -20, 2)) of the head's log-variance `{want_std.canon()[:80]}`", loc(mi, node))
        if meth == "log_probability":
            arg = node.args[0] if node.args else None
            ok = isinstance(arg, ast.Name) and arg.id == "action"
            ck.ob("R3-distribution-call", site, "density-of-action", ok, f"log_prob({short(arg) if arg is not None else None})", "" if ok else "the density must be evaluated at the given action", loc(mi, node))
        if meth == "sample":
            kw = {k.arg: k.value for k in node.keywords}
            ok = isinstance(kw.get("seed"), ast.Name) and kw["seed"].id == "key"
            ck.ob("R3-distribution-call", site, "key-determined", ok, f"sample(seed={short(kw['seed']) if 'seed' in kw else None})", "" if ok else "the sample must be determined by the key argument", loc(mi, node))
    # __call__ of the tanh head returns (mean, std) by the same forms
    if has_tanh:
        cfg = nf.cfg_of(call_fn)
        call_fn._module = mi
        obs = positional_params(call_fn)[1]
        sc = Scope(cfg, mi, {obs: Poly.atom("OBS", {"OBS"}, {"OBS"})}, f"{cq}.__call__", self_class=cq)
        rets = [n for n in ast.walk(call_fn) if isinstance(n, ast.Return)]
        rp = nf.poly(rets[0].value, sc, cfg.node_of(rets[0]).id)
        ok = rp.elems is not None and len(rp.elems) == 2 and rp.elems[0] == want_mean and rp.elems[1] == want_std
        ck.ob("R1-sibling-agreement", f"{cq}.__call__", "mean-std", ok, f"return {rp.canon()[:150]}", "" if ok else "__call__ must return (tanh-scaled mean, exp(clip(0.5*log_var, -20, 2)))", loc(mi, call_fn))


def softmax_head(ck, repo, nf):
    cq = PH + "SoftmaxPolicy"
    cls = repo.cls(cq)
    mi = cls._module
    lg = _method(repo, cq, "logits")
    lg._module = mi
    rets = [n for n in ast.walk(lg) if isinstance(n, ast.Return)]
    lgc = nf.cfg_of(lg)
    lobs = positional_params(lg)[1]
    ok = len(rets) == 1 and nf.poly(rets[0].value, Scope(lgc, mi, {lobs: Poly.atom("OBS")}, cq), lgc.node_of(rets[0]).id).canon() == "self.net(OBS)"
    ck.ob("R3-distribution-call", f"{cq}.logits", "logits", ok, f"return {ast.unparse(rets[0].value) if rets else None}", "" if ok else "logits must be the raw network output", loc(mi, lg))
    c = _method(repo, cq, "__call__")
    rets = [n for n in ast.walk(c) if isinstance(n, ast.Return)]
    txt = ast.unparse(rets[0].value) if rets else ""
    c._module = mi
    cc = nf.cfg_of(c)
    cobs = positional_params(c)[1]
    nfo = NF(repo, inline_depth=1, inline_calls=False)
    got = nfo.poly(rets[0].value, Scope(cc, mi, {cobs: Poly.atom("OBS")}, cq), cc.node_of(rets[0]).id).canon() if rets else ""
    ok = got in ("softmax(self.logits(OBS))", "softmax(self.logits(OBS), axis=-1)")
    ck.ob("R3-distribution-call", f"{cq}.__call__", "softmax", ok, f"return {txt}", "" if ok else "probabilities must be softmax(logits) over the last axis (non-negative, summing to one)", loc(mi, c))
    for meth, op in (("sample", "sample"), ("log_probability", "log_prob"), ("entropy", "entropy")):
        fn = _method(repo, cq, meth)
        fn._module = mi
        d = _dist_call(fn)
        site = f"{cq}.{meth}"
        if d is None:
            ck.ob("R3-distribution-call", site, "categorical-on-logits", False, f"{short(next((n.value for n in ast.walk(fn) if isinstance(n, ast.Return)), None), 90)}",
                  f"{meth} is not computed by Categorical(logits=self.logits(obs)).{op}: a probability-space formula is not defined for extreme logits (p underflows to 0 -> log p = -inf, 0*inf = NaN)", loc(mi, fn))
            continue
        ctor, kws, gop, node = d
        cfg = nf.cfg_of(fn)
        obs = positional_params(fn)[1]
        sc = Scope(cfg, mi, {obs: Poly.atom("OBS", {"OBS"}, {"OBS"})}, site, self_class=cq)
        lp = nf.poly(kws["logits"], sc, cfg.node_of(node).id).canon() if "logits" in kws else None
        ok = ctor == "Categorical" and gop == op and lp == "self.net(OBS)"
        ck.ob("R3-distribution-call", site, "categorical-on-logits", ok, f"dist.{ctor}(logits={lp}).{gop}", "" if ok else f"must be Categorical(logits=self.logits(obs)).{op} on the head's own logits", loc(mi, node))
        if meth == "log_probability":
            arg = node.args[0] if node.args else None
            ok = isinstance(arg, ast.Name) and arg.id == "action"
            ck.ob("R3-distribution-call", site, "density-of-action", ok, f"log_prob({short(arg) if arg is not None else None})", "" if ok else "log-probability of the selected entry", loc(mi, node))


def greedy_rules(ck, repo, nf):
    # tabular
    q = "rl_blox.blox.value_policy.greedy_policy"
    fn = repo.func(q)
    got = nf.return_poly(q, {p: Poly.atom(p, {p}, {p}) for p in param_names(fn)}).canon()
    ck.ob("R4-greedy", q, "argmax-row", got == "argmax(q_table[observation])", f"return {got}", "" if got == "argmax(q_table[observation])" else "greedy action must be argmax over the observation's row", loc(fn._module, fn))
    q = "rl_blox.blox.q_policy.greedy_policy"
    fn = repo.func(q)
    gotp = nf.return_poly(q, {p: Poly.atom(p, {p}, {p}) for p in param_names(fn)})
    got = gotp.canon()
    ok = got in ("argmax(q_net((obs)))", "argmax(q_net([obs]))", "argmax(q_net(obs))", "argmax(q_net((obs)), axis=-1)")
    if not ok:
        m_ = nf.meta.get(gotp.single_atom() or "", {})
        f_ = m_.get("fn", "").split(".")[-1]
        if f_ == "argmax" or f_ not in ("argmin", "max", "min", "argsort", "sum", "mean"):
            raise AnalysisError(f"{q}: returns `{got[:100]}` (an arg-max written in a way this rule does not read)")
    ck.ob("R4-greedy", q, "argmax-network", ok, f"return {got}", "" if ok else "greedy action must be argmax of the network output on the observation", loc(fn._module, fn))
    # epsilon-greedy: per path to a return, the returned action is either the uniform draw (iff roll < epsilon) or the greedy action
    from ..sympath import enumerate_paths, PathEval
    from ..sem import selector_table
    q = "rl_blox.blox.value_policy.epsilon_greedy_policy"
    fn = repo.func(q)
    mi = fn._module
    cfg = nf.cfg_of(fn)
    env = {p: Poly.atom(p, {p}, {p}) for p in param_names(fn)}
    rets = [n for n in cfg.nodes if n.kind == "stmt" and isinstance(n.ast, ast.Return)]
    ck.need(rets, f"{q}: no return")
    nfp = NF(repo, inline_depth=1, inline_calls=False)
    items, kinds, roll_src = [], {}, None
    for pth in enumerate_paths(cfg, cfg.entry, {r.id for r in rets}):
        pe = PathEval(nfp, cfg, mi, q, env).run(pth[:-1])
        rv = pe.ev(cfg.nodes[pth[-1][0]].ast.value).canon()
        if rv.startswith("choice(") or "randint(" in rv or rv.startswith("rl_blox") and "random" in rv:
            kind = "random"
            okr = "arange(len(q_table[observation]))" in rv and "q_table[observation]" not in rv.replace("len(q_table[observation])", "") or ("randint(" in rv and "q_table" in rv and "argmax" not in rv)
            kinds.setdefault("random", []).append((rv, okr))
        elif rv == "argmax(q_table[observation])" or rv.endswith("greedy_policy(q_table, observation)"):
            kind = "greedy"
            kinds.setdefault("greedy", []).append((rv, True))
        else:
            raise AnalysisError(f"{q}: returned action `{rv[:80]}` is neither the uniform draw nor the greedy action (unrecognised idiom)")
        conds = [(cfg.nodes[nid].ast.test, nid, lab) for nid, lab in pth[:-1] if cfg.nodes[nid].kind == "test" and lab in (True, False) and isinstance(cfg.nodes[nid].ast, ast.If)]
        items.append((conds, kind))
    # the roll: the value compared with epsilon
    rolls = [n for n in ast.walk(fn) if isinstance(n, ast.Call) and isinstance(n.func, ast.Attribute) and n.func.attr == "uniform"]
    ck.need(len(rolls) >= 1, f"{q}: no uniform roll found (unrecognised idiom)")
    roll_txt = nfp.poly(rolls[0], Scope(None, mi, env, q), None).canon()
    # predicate in terms of the roll's defining call (locals are inlined by the normal form on both sides)
    pred = ast.Compare(left=rolls[0], ops=[ast.Lt()], comparators=[ast.Name(id="epsilon", ctx=ast.Load())])
    first_test = next((nid for conds_, _ in items for _, nid, _ in conds_), None)
    ck.need(first_test is not None, f"{q}: the action does not depend on any test (unrecognised idiom)")
    verdict, info = selector_table(nfp, mi, cfg, items, pred, "random", "greedy", opaque=set(param_names(fn)), pred_at=first_test)
    if verdict is None:
        raise AnalysisError(f"{q}: exploration test not comparable with `roll < epsilon`: {info}")
    ck.ob("R4-greedy", q, "roll<epsilon", verdict, f"random iff {roll_txt[:60]} < epsilon (truth table over the branch conditions)", "" if verdict else f"exploration must happen exactly when roll < epsilon with roll ~ U[0,1) (epsilon 0 always greedy, epsilon 1 never greedy); differs in the world {info}", loc(mi, fn))
    okr = "random" in kinds and all(ok_ for _, ok_ in kinds["random"])
    ck.ob("R4-greedy", q, "random-arm", okr, f"explore -> {[r_[:70] for r_, _ in kinds.get('random', [])][:1]}", "" if okr else "the exploring arm must draw uniformly among the row's actions without reading the values", loc(mi, fn))
    okg = "greedy" in kinds
    ck.ob("R4-greedy", q, "greedy-arm", okg, f"exploit -> {[r_[:70] for r_, _ in kinds.get('greedy', [])][:1]}", "" if okg else "the non-exploring arm must be the greedy action of the same table and observation", loc(mi, fn))
    # DQN family loops: per path through the action selection, the executed action is the space sample iff (step < learning_starts or
    # roll[step] < epsilon[step]) and the greedy action of the online network on the current observation otherwise
    fam = {"rl_blox.algorithm.dqn.train_dqn": False, "rl_blox.algorithm.nature_dqn.train_nature_dqn": True, "rl_blox.algorithm.ddqn.train_ddqn": True, "rl_blox.algorithm.per.train_ddqn_per": True}
    for lq, has_ls in fam.items():
        L = find_env_loop(repo, lq)
        cfg, mi = L.cfg, L.mi
        hdr = cfg.nodes[L.outer_header].ast
        cvar = hdr.target.id if isinstance(hdr, ast.For) else next(x.id for x in (hdr.test.left, hdr.test.comparators[0]) if isinstance(x, ast.Name) and x.id != "total_timesteps")
        act = L.step_call.args[0]
        while isinstance(act, ast.Call):
            act = act.args[0]
        ck.need(isinstance(act, ast.Name), f"{lq}: env.step argument is not a variable")
        envl = {p: Poly.atom(p, {p}, {p}) for p in param_names(L.fn)}
        envl[cvar] = Poly.atom(cvar, {cvar}, {cvar})
        stored = None
        for n in cfg.nodes:
            if n.ast is not None and n.kind == "stmt":
                for c in ast.walk(n.ast):
                    if isinstance(c, ast.Call) and isinstance(c.func, ast.Attribute) and c.func.attr == "add_sample":
                        for k in c.keywords:
                            if k.arg == "observation":
                                stored = dotted(k.value)
        items, seen_kinds = [], {}
        try:
            paths = enumerate_paths(cfg, L.outer_header, {L.step_node}, first_label=True, max_paths=3000)
        except RuntimeError:
            raise AnalysisError(f"{lq}: too many paths from the loop header to env.step")
        for pth in paths:
            pe = PathEval(nfp, cfg, mi, lq, envl).run(pth[:-1])
            av = pe.env.get(act.id)
            if av is None:
                raise AnalysisError(f"{lq}: the action has no value on a path to env.step")
            a = av.canon()
            for w_ in ("int(", "asarray(", "array("):
                pass
            if a.endswith("action_space.sample()"):
                kind = "random"
                seen_kinds.setdefault(kind, set()).add((a, a == f"{L.env}.action_space.sample()"))
            elif "greedy_policy(" in a:
                kind = "greedy"
                m_ = nfp.meta.get(a, {})
                args_ = [x.canon() for x in m_.get("args", [])]
                okg = len(args_) == 2 and args_[0] == "q_net" and (stored is None or args_[1] in (stored, pe.env.get(stored, Poly.atom(stored)).canon()))
                seen_kinds.setdefault(kind, set()).add((a, okg))
            else:
                raise AnalysisError(f"{lq}: executed action `{a[:80]}` is neither the space sample nor greedy_policy(...) (unrecognised idiom)")
            conds = [(cfg.nodes[nid].ast.test, nid, lab) for nid, lab in pth[:-1] if cfg.nodes[nid].kind == "test" and lab in (True, False) and isinstance(cfg.nodes[nid].ast, ast.If)]
            # only conditions that involve the exploration quantities take part (logging / episode bookkeeping do not select the action)
            conds = [c_ for c_ in conds if any(w in ast.unparse(c_[0]) for w in ("epsilon", "learning_starts", "explor", "random", "warm")) or any(isinstance(x, ast.Name) and cfg._expand_name(x, c_[1]) is not None for x in ast.walk(c_[0]))]
            items.append((conds, kind))
        pred = parse_expr(f"({cvar} < learning_starts) or (epsilon_rolls[{cvar}] < epsilon[{cvar}])" if has_ls else f"epsilon_rolls[{cvar}] < epsilon[{cvar}]")
        first_test = next((nid for conds_, _ in items for _, nid, _ in conds_), None)
        ck.need(first_test is not None, f"{lq}: the executed action does not depend on any exploration test (unrecognised idiom)")
        verdict, info = selector_table(nfp, mi, cfg, items, pred, "random", "greedy", opaque=set(param_names(L.fn)) | {cvar}, pred_at=first_test)
        if verdict is None:
            raise AnalysisError(f"{lq}: action selection not comparable with the documented exploration test: {info}")
        ck.ob("R4-greedy", lq, "exploration-test", verdict, f"random iff {ast.unparse(pred)} (truth table over {len(items)} path(s))", "" if verdict else f"documented: random action iff {ast.unparse(pred)}; differs in the world {info}", loc(mi, L.fn))
        okr = "random" in seen_kinds and all(o for _, o in seen_kinds["random"])
        ck.ob("R4-greedy", lq, "random-arm", okr, f"explore -> {sorted(a_ for a_, _ in seen_kinds.get('random', []))[:1]}", "" if okr else "exploring arm must sample the seeded action space of the environment", loc(mi, L.fn))
        okg = "greedy" in seen_kinds and all(o for _, o in seen_kinds["greedy"])
        ck.ob("R4-greedy", lq, "greedy-arm", okg, f"exploit -> {sorted(a_[:70] for a_, _ in seen_kinds.get('greedy', []))[:1]}", "" if okg else "the non-exploring arm must be greedy_policy(<online q_net>, <current observation>): acting on the target copy or another observation is not acting on the current estimates", loc(mi, L.fn))
        # schedule
        eps = [n for n in cfg.nodes if n.kind == "stmt" and isinstance(n.ast, ast.Assign) and dotted(n.ast.targets[0]) == "epsilon"]
        ok = len(eps) == 1 and nfp.poly(eps[0].ast.value, Scope(None, mi, {}, lq), None).canon() in ("rl_blox.blox.schedules.linear_schedule(total_timesteps)", "linear_schedule(total_timesteps)")
        ck.ob("R4-greedy", lq, "epsilon-schedule", ok, f"epsilon = {ast.unparse(eps[0].ast.value) if eps else None}", "" if ok else "epsilon must be the documented linear schedule (1.0 -> 0.1 over the first 10%) over total_timesteps", loc(mi, eps[0].ast if eps else L.fn))
        rolls = [n for n in cfg.nodes if n.kind == "stmt" and isinstance(n.ast, ast.Assign) and dotted(n.ast.targets[0]) == "epsilon_rolls"]
        if len(rolls) != 1:
            raise AnalysisError(f"{lq}: the exploration rolls are not a single assignment (unrecognised form)")
        rp_ = nfp.poly(rolls[0].ast.value, Scope(None, mi, {}, lq), None)       # value-transparent wrappers (asarray, ...) are stripped
        rm_ = nfp.meta.get(rp_.single_atom() or "", {})
        rfn_ = rm_.get("fn", "").split(".")[-1]
        rshape_ = rm_.get("args", [None, None])[1].canon() if len(rm_.get("args", [])) >= 2 else (rm_.get("kws", {}).get("shape").canon() if rm_.get("kws", {}).get("shape") is not None else None)
        ok = rfn_ == "uniform" and rshape_ in ("(total_timesteps)", "total_timesteps") and not (set(rm_.get("kws", {})) - {"shape", "dtype"})
        if not ok and rfn_ not in ("uniform", "normal", "randint", "bernoulli", "truncated_normal", "exponential", "laplace", "integers", "random", "rand"):
            raise AnalysisError(f"{lq}: exploration rolls `{rp_.canon()[:80]}` are not a recognised random draw (unrecognised form)")
        ck.ob("R4-greedy", lq, "rolls-uniform", ok, f"epsilon_rolls = {ast.unparse(rolls[0].ast.value) if rolls else None}", "" if ok else "rolls must be U[0,1) draws, one per step", loc(mi, rolls[0].ast if rolls else L.fn))
    # defaults of the schedule
    fn = repo.func("rl_blox.blox.schedules.linear_schedule")
    dflt = {}
    for a, d in list(zip(fn.args.args[-len(fn.args.defaults):], fn.args.defaults)) + [(a_, d_) for a_, d_ in zip(fn.args.kwonlyargs, fn.args.kw_defaults) if d_ is not None]:
        try:
            dflt[a.arg] = ast.literal_eval(d)
        except Exception:
            dflt[a.arg] = ast.unparse(d)
    documented = {"start": 1.0, "end": 0.1, "fraction": 0.1}
    if not set(documented) <= set(dflt):
        raise AnalysisError(f"rl_blox.blox.schedules.linear_schedule: parameters {sorted(set(documented) - set(dflt))} have no defaults any more (anchor vanished)")
    ok = all(dflt[k_] == v_ for k_, v_ in documented.items())
    dflt = {k_: dflt[k_] for k_ in documented}
    ck.ob("R4-greedy", "rl_blox.blox.schedules.linear_schedule", "defaults", ok, f"{dflt}", "" if ok else "documented exploration schedule is 1.0 -> 0.1 over the first 10% of the steps", loc(fn._module, fn))


def arity_scan(ck, repo):
    """R2 for the whole package: `a, b = f(x)` where f is a repo function / method with a known single-array return."""
    n = 0
    for qual, fn, mi in repo.all_functions():
        for st in ast.walk(fn):
            if isinstance(st, ast.Assign) and isinstance(st.targets[0], ast.Tuple) and isinstance(st.value, ast.Call) and isinstance(st.value.func, ast.Name):
                r = repo.resolve_name(mi, st.value.func.id)
                if r and r.startswith("rl_blox.") and repo.has(r):
                    try:
                        callee = repo.func(r)
                    except Exception:
                        continue
                    ar = _return_arity(callee)
                    n += 1
                    if ar and all(isinstance(x, int) for x in ar) and 1 not in ar:
                        k = len(st.targets[0].elts)
                        if not any(isinstance(e, ast.Starred) for e in st.targets[0].elts):
                            ok = k in ar
                            ck.ob("R2-unpack-arity", qual, f"unpack:{r.rsplit('.', 1)[1]}", ok, f"`{short(st, 70)}` ; callee returns {sorted(ar)}", "" if ok else "number of unpack targets differs from the callee's return arity", loc(mi, st))
    ck.count("unpack-sites", n)


def run(ck, repo: Repo, tier: str):
    nf = NF(repo, inline_depth=2, inline_calls=True)
    ck.guard(gaussian_head, ck, repo, nf, PH + "GaussianTanhPolicy", True)
    ck.guard(gaussian_head, ck, repo, nf, PH + "GaussianPolicy", False)
    ck.guard(softmax_head, ck, repo, nf)
    ck.guard(greedy_rules, ck, repo, nf)
    ck.guard(arity_scan, ck, repo)
    subs = repo.subclasses(PH + "StochasticPolicyBase")
    ck.floor("stochastic-heads", len(subs), 3)
    registered = {PH + "GaussianTanhPolicy", PH + "GaussianPolicy", PH + "SoftmaxPolicy"}
    for cq in subs:
        if cq not in registered:
            if set(repo.subclasses(cq)) & registered:
                continue      # an intermediate base class of registered heads: its methods are judged through the heads that inherit them
            ck.incomplete.append(f"{cq}: a stochastic policy head for which no sibling-agreement rules are recorded (not judged)")


_H = "rl_blox/blox/function_approximator/policy_head.py"
MUTANTS = [
    {"id": "c13-gauss-entropy-unpacks-mean", "file": _H, "rule": "R", "find": "        mean, log_var = self.net(observations)\n        log_std = jnp.clip(0.5 * log_var, -20.0, 2.0)\n        std = jnp.exp(log_std)\n        return dist.Normal(", "replace": "        mean, log_var = self(observations)\n        log_std = jnp.clip(0.5 * log_var, -20.0, 2.0)\n        std = jnp.exp(log_std)\n        return dist.Normal("},
    {"id": "c13-gauss-logp-no-half", "file": _H, "rule": "R1", "nth": 2, "find": "        log_std = jnp.clip(0.5 * log_var, -20.0, 2.0)", "replace": "        log_std = jnp.clip(log_var, -20.0, 2.0)"},
    {"id": "c13-gauss-sample-clip-range", "file": _H, "rule": "R1", "nth": 1, "find": "        log_std = jnp.clip(0.5 * log_var, -20.0, 2.0)", "replace": "        log_std = jnp.clip(0.5 * log_var, -10.0, 2.0)"},
    {"id": "c13-tanh-entropy-var", "file": _H, "rule": "R1", "find": "        mean, std = self(observations)\n        return dist.Normal(loc=mean, scale=std).entropy()", "replace": "        mean, std = self(observations)\n        return dist.Normal(loc=mean, scale=std**2).entropy()"},
    {"id": "c13-tanh-sample-no-mean", "file": _H, "rule": "R1", "find": "        return jax.random.normal(key, mean.shape) * std + mean", "replace": "        return jax.random.normal(key, mean.shape) * std"},
    {"id": "c13-tanh-logp-at-mean", "file": _H, "rule": "R3", "nth": 0, "find": "        return dist.MultivariateNormalDiag(loc=mean, scale_diag=std).log_prob(\n            action\n        )", "replace": "        return dist.MultivariateNormalDiag(loc=mean, scale_diag=std).log_prob(\n            mean\n        )"},
    {"id": "c13-gauss-logp-normal", "file": _H, "rule": "R3", "nth": 1, "find": "        return dist.MultivariateNormalDiag(loc=mean, scale_diag=std).log_prob(\n            action\n        )", "replace": "        return dist.Normal(loc=mean, scale=std).log_prob(\n            action\n        )"},
    {"id": "c13-softmax-sample-probs-as-logits", "file": _H, "rule": "R3", "find": "        return dist.Categorical(logits=self.logits(observation)).sample(", "replace": "        return dist.Categorical(logits=self(observation)).sample("},
    {"id": "c13-softmax-entropy-manual", "file": _H, "rule": "R3", "find": "        logits = self.logits(observations)\n        return dist.Categorical(logits=logits).entropy()", "replace": "        p = self(observations)\n        return -jnp.sum(p * jnp.log(p), axis=-1)"},
    {"id": "c13-softmax-no-softmax", "file": _H, "rule": "R3", "find": "        return nnx.softmax(self.logits(observation))", "replace": "        return nnx.sigmoid(self.logits(observation))"},
    {"id": "c13-eps-flipped", "file": "rl_blox/blox/value_policy.py", "rule": "R4", "find": "    if roll < epsilon:", "replace": "    if roll > epsilon:"},
    {"id": "c13-eps-le", "file": "rl_blox/blox/value_policy.py", "rule": "R4", "find": "    if roll < epsilon:", "replace": "    if roll <= epsilon:"},
    {"id": "c13-greedy-argmin", "file": "rl_blox/blox/value_policy.py", "rule": "R4", "find": "    return jnp.argmax(q_table[observation])", "replace": "    return jnp.argmin(q_table[observation])"},
    {"id": "c13-qpolicy-column", "file": "rl_blox/blox/q_policy.py", "rule": "R4", "find": "    return jnp.argmax(q_vals)", "replace": "    return jnp.argmax(q_vals, axis=0)[0]", "accept_error": True},
    {"id": "c13-ddqn-greedy-target", "file": "rl_blox/algorithm/ddqn.py", "rule": "R4", "find": "            action = greedy_policy(q_net, obs)", "replace": "            action = greedy_policy(q_target_net, obs)"},
    {"id": "c13-dqn-roll-flipped", "file": "rl_blox/algorithm/dqn.py", "rule": "R4", "find": "        if epsilon_rolls[step] < epsilon[step]:", "replace": "        if epsilon_rolls[step] > epsilon[step]:"},
    {"id": "c13-nature-and", "file": "rl_blox/algorithm/nature_dqn.py", "rule": "R4", "find": "        if step < learning_starts or epsilon_rolls[step] < epsilon[step]:", "replace": "        if step < learning_starts and epsilon_rolls[step] < epsilon[step]:"},
    {"id": "c13-per-schedule-end", "file": "rl_blox/algorithm/per.py", "rule": "R4", "find": "    epsilon = linear_schedule(total_timesteps)\n", "replace": "    epsilon = linear_schedule(total_timesteps, end=0.0)\n"},
    {"id": "c13-dqn-greedy-next-obs", "file": "rl_blox/algorithm/dqn.py", "rule": "R4", "find": "            action = greedy_policy(q_net, obs)", "replace": "            action = greedy_policy(q_net, next_obs) if step > global_step else greedy_policy(q_net, obs)"},
]
_HELPER_OK = "\n\ndef _diag_gaussian_log_prob(mean, std, action):\n    z = (action - mean) / std\n    return -jnp.sum(jnp.log(std) + 0.5 * z**2 + 0.5 * jnp.log(2.0 * jnp.pi), axis=-1)\n\n\nclass GaussianTanhPolicy(StochasticPolicyBase):"
_HELPER_BAD = "\n\ndef _diag_gaussian_log_prob(mean, std, action):\n    z = (action - mean) / std\n    return -jnp.sum(jnp.log(std) + 0.5 * z**2, axis=-1) - 0.5 * jnp.log(2.0 * jnp.pi)\n\n\nclass GaussianTanhPolicy(StochasticPolicyBase):"
_LP = "        return dist.MultivariateNormalDiag(loc=mean, scale_diag=std).log_prob(\n            action\n        )"
MUTANTS += [
    {"id": "c13-manual-density-constant-outside-sum", "file": _H, "rule": "R3", "all": True, "edits": [("\n\nclass GaussianTanhPolicy(StochasticPolicyBase):", _HELPER_BAD), (_LP, "        return _diag_gaussian_log_prob(mean, std, action)")]},
]
BENIGN = [
    {"id": "c13-b-manual-density-correct", "file": _H, "all": True, "edits": [("\n\nclass GaussianTanhPolicy(StochasticPolicyBase):", _HELPER_OK), (_LP, "        return _diag_gaussian_log_prob(mean, std, action)")]},
    {"id": "c13-b-tanh-sample-tfp", "file": _H, "find": "        return jax.random.normal(key, mean.shape) * std + mean", "replace": "        return mean + std * jax.random.normal(key, mean.shape)"},
    {"id": "c13-b-gauss-std-inline", "file": _H, "nth": 1, "find": "        log_std = jnp.clip(0.5 * log_var, -20.0, 2.0)\n        std = jnp.exp(log_std)", "replace": "        std = jnp.exp(jnp.clip(log_var * 0.5, -20.0, 2.0))"},
    {"id": "c13-b-softmax-entropy-inline", "file": _H, "find": "        logits = self.logits(observations)\n        return dist.Categorical(logits=logits).entropy()", "replace": "        return dist.Categorical(logits=self.logits(observations)).entropy()"},
    {"id": "c13-b-dqn-or-order", "file": "rl_blox/algorithm/nature_dqn.py", "find": "        if step < learning_starts or epsilon_rolls[step] < epsilon[step]:", "replace": "        if epsilon_rolls[step] < epsilon[step] or step < learning_starts:"},
]
