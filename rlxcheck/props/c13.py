"""C13 - policy heads: sampling, log-probability and entropy describe one distribution; greedy / epsilon-greedy selection."""
from __future__ import annotations

import ast
import re
from fractions import Fraction

from ..loops import dotted, find_env_loop, strip_wrappers
from ..nf import NF, Scope, Poly, parse_expr, STRIP
from ..repo import Repo, loc, short, AnalysisError, param_names
from ..sem import same_ingredients, arg_of

EXPLANATION = (
    "Sibling agreement: within each stochastic head the distribution parameters used by sample, log_probability and entropy (and "
    "__call__ where it returns them) are reduced to normal forms and must coincide: same network call on the observation, "
    "std == exp(clip(0.5*log_var, -20, 2)), same loc/scale handed to the tfp distribution (or the same logits to Categorical). "
    "Tuple-unpack arity is checked against the return arity of the callee (a head that unpacks the mean into (mean, log_var) is a "
    "violation). Hand-written densities / entropies are accepted only if they normalise to the documented closed form (log-space "
    "for the softmax head). Greedy policies are argmax of the row / network output; the tabular epsilon-greedy branch orientation "
    "(roll < epsilon -> random) and the DQN-family selection branch (random iff [step < learning_starts or] roll < epsilon_t, else "
    "greedy_policy(<online net>, <current obs>)) with the 1.0 -> 0.1 linear schedule are structural.  The schedule and the rolls are the arrays whose "
    "entries the selection tests compare (bound to locals, inline, inside a helper, decided once for all steps with logical_or / arange / `|`): the "
    "schedule is linear_schedule(total_timesteps) read at the entry of the current step (the rest of it from k on read at step - k is the same entry)."
)
TRUSTED = ["tfp MultivariateNormalDiag / Normal / Categorical closed forms for the parameters they are given", "jax.random.uniform draws from [0, 1)", "jnp.argmax returns a maximiser"]
RULES = {
    "R1-sibling-agreement": "sample / log_probability / entropy of one head obtain (mean, std) resp. logits by the same normal form; std == exp(clip(0.5*log_var, -20, 2))",
    "R2-unpack-arity": "a tuple-unpack of a repo callable has as many targets as the callee returns",
    "R3-distribution-call": "log_probability == MultivariateNormalDiag(mean, std).log_prob(action) (or the documented closed form); entropy == Normal(mean, std).entropy(); "
                            "softmax head: Categorical(logits=...) for sample / log_prob / entropy, probabilities == softmax(logits)",
    "R4-greedy": "greedy == argmax of the Q row / network output on the observation; epsilon-greedy: roll < epsilon -> uniformly random action over the row, else greedy; "
                 "DQN family: random iff [step < learning_starts or] roll[step] < epsilon[step], else greedy on the online network and the current observation; epsilon = linear_schedule(total_timesteps), read at the entry of the current step",
}

PH = "rl_blox.blox.function_approximator.policy_head."
STD_SPEC = "jnp.exp(jnp.clip(0.5 * LV, -20.0, 2.0))"
TANH_MEAN_SPEC = "nnx.tanh(self.net(OBS)[0]) * self.action_scale.value + self.action_bias.value"      # broadcast_to(x, <shape of the other operand>) is read as x (see run)
TFP = "tensorflow_probability."
TFP_PARAMS = {"Normal": ["loc", "scale"], "MultivariateNormalDiag": ["loc", "scale_diag"], "Categorical": ["logits", "probs"]}      # positional parameters of the tfp constructors
TFP_OPS = {"sample": ["sample_shape", "seed"], "log_prob": ["value"], "prob": ["value"], "entropy": [], "mean": [], "mode": [], "stddev": [], "variance": [], "cdf": ["value"], "log_cdf": ["value"]}
RANDOM_DRAWS = ("uniform", "normal", "randint", "bernoulli", "truncated_normal", "exponential", "laplace", "integers", "random", "rand", "choice", "gumbel", "beta")
_TMP = re.compile(r"__i\d+\b")


def _role(name):
    return Poly.atom(name, {name}, {name})


OBS, KEY, ACTION = _role("OBS"), _role("KEY"), _role("ACTION")


def _unread(p) -> bool:
    """The normal form contains something the engine could not read: a merge of definitions, an opaque expression, an unresolved temporary of the helper expander."""
    t = p if isinstance(p, str) else p.canon()
    return "φ(" in t or "⟦" in t or "λ[" in t or bool(_TMP.search(t))


def _differs(site, what, got, want, extras=()):
    """Verdict for a value that is not the documented one.  It is a violation (returns False) only with positive evidence: the value was read
    completely and is built from the documented ingredients, so the two normal forms are different functions of the same quantities.  Anything else
    (unread parts, other ingredients: possibly another spelling of the same value) is undecided."""
    if got is None or _unread(got) or not same_ingredients(got, want, extras):
        raise AnalysisError(f"{site}: {what} `{got.canon()[:90] if got is not None else None}` is not read back to the documented `{want.canon()[:60]}` (unrecognised form)")
    return False


def _atoms(nf, p, skip=None, seen=None):
    """(atom, meta) for every atom of the value, transitively through the arguments of calls / projections (``skip(atom, meta)``: do not look inside)."""
    seen = set() if seen is None else seen
    if p.elems is not None:
        for e in p.elems:
            yield from _atoms(nf, e, skip, seen)
        return
    for a in sorted(p.atoms()):
        if a in seen:
            continue
        seen.add(a)
        m = nf.meta.get(a, {})
        yield a, m
        if skip is not None and skip(a, m):
            continue
        for x in list(m.get("args", [])) + list(m.get("kws", {}).values()):
            yield from _atoms(nf, x, skip, seen)


def _fn(m) -> str:
    return m.get("fn", "").rsplit(".", 1)[-1]


def _deref(nf, p):
    """Positional reads of a record (NamedTuple / dataclass) built in place are its constructor arguments: `mean, std = Params(mean=m, std=s)` reads m and s."""
    if p is None or p.elems is not None:
        return p
    mp = {}
    for a in p.atoms():
        m = nf.meta.get(a, {})
        k = re.search(r"\[(\d+)\]$", a)
        if m.get("fn") == "proj" and len(m.get("args", [])) == 1 and k:
            mb = nf.meta.get(m["args"][0].single_atom() or "", {})
            if "record" in mb and int(k.group(1)) < len(mb["args"]):
                mp[a] = _deref(nf, mb["args"][int(k.group(1))])
    return p.subst(mp) if mp else p


def _method(repo, cq, name):
    """The method as the class has it: its own, or inherited from a repository base class (a shared base of sibling heads); names inside it are
    resolved in the module of the class that defines it."""
    m = repo.method(cq, name)
    if m is None:
        raise AnalysisError(f"{cq}.{name} not found (anchor vanished)")
    m[1]._module = repo.cls(m[0])._module
    return m[1]


def _own(fn, kinds):
    """Nodes of the given kinds in the body of ``fn`` itself (not in nested functions / lambdas / classes)."""
    out, todo = [], list(fn.body)
    while todo:
        n = todo.pop(0)
        if isinstance(n, (ast.FunctionDef, ast.AsyncFunctionDef, ast.Lambda, ast.ClassDef)):
            continue
        if isinstance(n, kinds):
            out.append(n)
        todo.extend(ast.iter_child_nodes(n))
    return out


def _returned(nf, fn, sc, site, every=False):
    """Normal form of the value the function returns (one return statement; ``every``: [(value, statement)] of all of them, each is judged)."""
    rets = [r for r in _own(fn, ast.Return) if r.value is not None]
    if not rets or (len(rets) != 1 and not every):
        raise AnalysisError(f"{site}: {len(rets)} return statements with a value (unrecognised form)")
    vals = [(nf.poly(r.value, sc, sc.cfg.node_of(r).id), r) for r in rets]
    return vals if every else vals[0]


def _params(fn, n, site):
    pn = param_names(fn)
    if len(pn) < n:
        raise AnalysisError(f"{site}: fewer than {n} parameters (anchor vanished)")
    return pn


def _dist_read(nf, p):
    """(constructor, {parameter: Poly}, method, {method parameter: Poly}) when the value is the result of a method of a tfp distribution object, however
    the object reaches the call (inline, through a local, through an expanded helper); None otherwise.  Arguments are bound by the tfp signatures."""
    a = p.single_atom() if p.elems is None else None
    m = nf.meta.get(a or "")
    if not m or "." not in m.get("fn", ""):
        return None
    base, _, op = m["fn"].rpartition(".")
    mb = nf.meta.get(base)
    if not mb or not mb.get("fn", "").startswith(TFP):
        return None
    ctor = _fn(mb)
    if "**" in mb["kws"] or "**" in m["kws"] or any(x.canon().startswith("*") for x in list(mb["args"]) + list(m["args"])):
        raise AnalysisError(f"star arguments in `{a[:80]}` (unrecognised form)")
    if len(mb["args"]) > len(TFP_PARAMS.get(ctor, [])) or len(m["args"]) > len(TFP_OPS.get(op, [])):
        raise AnalysisError(f"positional arguments of `{ctor}(...).{op}(...)` beyond the recorded tfp signature (unrecognised form)")
    params = dict(mb["kws"])
    for n_, v in zip(TFP_PARAMS.get(ctor, []), mb["args"]):
        params.setdefault(n_, v)
    oargs = dict(m["kws"])
    for n_, v in zip(TFP_OPS.get(op, []), m["args"]):
        oargs.setdefault(n_, v)
    return ctor, params, op, oargs


def _std_triple(nf, p, lv):
    """exp(s * clip(c * LV, lo, hi)) with s > 0  ->  (s*c, s*lo, s*hi): the same function as exp(clip(s*c*LV, s*lo, s*hi)); None for any other shape."""
    m = nf.meta.get(p.single_atom() or "", {})
    if _fn(m) != "exp" or len(m.get("args", [])) != 1 or m.get("kws"):
        return None
    q = m["args"][0]
    if len(q.terms) != 1:
        return None
    (mono, s), = q.terms.items()
    if len(mono) != 1 or mono[0][1] != 1 or s <= 0:
        return None
    mc = nf.meta.get(mono[0][0], {})
    if _fn(mc) != "clip" or len(mc.get("args", [])) != 3 or mc.get("kws"):
        return None
    a0, a1, hi = mc["args"]
    x, lo = (a0, a1) if a1.is_const() else (a1, a0)
    if not (lo.is_const() and hi.is_const()) or len(x.terms) != 1 or len(lv.terms) != 1:
        return None
    (xm, c), = x.terms.items()
    if xm != next(iter(lv.terms)):
        return None
    return (s * c, s * lo.const_value(), s * hi.const_value())


def _key_ob(ck, site, got, where):
    """R3: the draw is determined by the key argument (KEY).  A seed that does not depend on the key at all is the evidence of a violation."""
    if got is None:
        raise AnalysisError(f"{site}: no seed / key handed to the random draw (unrecognised form)")
    ok = got == KEY
    if not ok and (_unread(got) or "KEY" in got.deps):
        raise AnalysisError(f"{site}: the seed `{got.canon()[:80]}` is derived from the key argument in a way this rule does not read (unrecognised form)")
    ck.ob("R3-distribution-call", site, "key-determined", ok, f"seed = {got.canon()[:100]}", "" if ok else "the sample must be determined by the key argument", where)


def _action_ob(ck, site, got, extras, detail, where):
    """R3: the density is evaluated at the action argument (ACTION)."""
    if got is None:
        raise AnalysisError(f"{site}: log_prob without a value (unrecognised form)")
    ok = got == ACTION or _differs(site, "the point the density is evaluated at", got, ACTION, extras)
    ck.ob("R3-distribution-call", site, "density-of-action", ok, f"log_prob({got.canon()[:100]})", "" if ok else detail, where)


def _value_arity(nf, p, arrays, pairs):
    """Number of values a tuple-unpack of ``p`` yields without iterating an array: length of a tuple / record, 2 for the raw output of the Gaussian
    network (mean, log_var); 1 (an array: unpacking iterates its batch axis) for the head's own mean / std; None when this cannot be told."""
    if p.elems is not None:
        return len(p.elems)
    m = nf.meta.get(p.single_atom() or "", {})
    if "record" in m:
        return len(m["record"])
    if p in pairs:
        return 2
    if p in arrays:
        return 1
    return None


def gaussian_head(ck, repo, nf, cq, has_tanh):
    cmi = repo.cls(cq)._module
    ssc = Scope(None, cmi, {"OBS": OBS}, cq, self_class=cq)
    net_out = nf.poly(parse_expr("self.net(OBS)"), ssc, None)
    net0, net1 = nf.poly(parse_expr("self.net(OBS)[0]"), ssc, None), nf.poly(parse_expr("self.net(OBS)[1]"), ssc, None)
    want_mean = nf.poly(parse_expr(TANH_MEAN_SPEC if has_tanh else "self.net(OBS)[0]"), ssc, None)
    want_std = nf.poly(parse_expr(STD_SPEC.replace("LV", "self.net(OBS)[1]")), ssc, None)
    head = want_mean + want_std      # the ingredients of the head's parameters
    expect = {"sample": {("MultivariateNormalDiag", "sample"), ("Normal", "sample")}, "log_probability": {("MultivariateNormalDiag", "log_prob")}, "entropy": {("Normal", "entropy")}}

    def mean_ob(site, got, where, what="loc"):
        got = _deref(nf, got)
        ok = got == want_mean or _differs(site, "the mean", got, want_mean, ("OBS",))
        ck.ob("R1-sibling-agreement", site, "mean", ok, f"{what} = {got.canon()[:120]}", "" if ok else f"the mean handed to the distribution is not the head's mean `{want_mean.canon()[:80]}`", where)

    def std_ok(site, got):
        got = _deref(nf, got)
        if got == want_std:
            return True
        t = _std_triple(nf, got, net1)
        if t is not None:
            return t == (Fraction(1, 2), Fraction(-20), Fraction(2))      # constants of the documented clipped standard deviation, however the factor is placed
        return _differs(site, "the scale", got, want_std, ("OBS",))

    def std_ob(site, got, where, what="scale"):
        ok = std_ok(site, got)
        ck.ob("R1-sibling-agreement", site, "std", ok, f"{what} = {got.canon()[:120]}",
              "" if ok else f"the scale handed to the distribution is not exp(clip(0.5*log_var, -20, 2)) of the head's log-variance `{want_std.canon()[:80]}`", where)

    def one(meth):
        fn = _method(repo, cq, meth)
        mi = fn._module
        site = f"{cq}.{meth}"
        pn = _params(fn, 2 if meth == "entropy" else 3, site)
        cfg = nf.cfg_of(fn)
        env = {p: _role(p) for p in pn}
        env[pn[1]] = OBS
        if meth != "entropy":
            env[pn[2]] = KEY if meth == "sample" else ACTION
        sc = Scope(cfg, mi, env, site, self_class=cq)
        # R2: a tuple-unpack of self(...) gets as many values as __call__ returns (read from the normal form of the call, not from its text)
        for n in _own(fn, ast.Assign):
            t = n.targets[0]
            if isinstance(t, ast.Tuple) and isinstance(n.value, ast.Call) and isinstance(n.value.func, ast.Name) and n.value.func.id == "self" and not any(isinstance(e, ast.Starred) for e in t.elts):
                vp = nf.poly(n.value, sc, cfg.node_of(n).id)
                ar = _value_arity(nf, vp, (want_mean, want_std, net0, net1), (net_out,))
                if ar is None:
                    raise AnalysisError(f"{site}: the number of values `{short(n.value, 40)}` returns is not read from `{vp.canon()[:80]}` (unrecognised form)")
                ok = ar == len(t.elts)
                ck.ob("R2-unpack-arity", site, "unpack-of-self-call", ok, f"`{short(n)}`; __call__ returns {ar} value(s): {vp.canon()[:80]}",
                      "" if ok else f"`self(...)` returns {ar} value(s) but is unpacked into {len(t.elts)}: the batch axis is iterated instead (raises for batch sizes != {len(t.elts)}, garbage otherwise)", loc(mi, n))
        for rp, ret in _returned(nf, fn, sc, site, every=True):
            returned(meth, site, mi, rp, ret)

    def returned(meth, site, mi, rp, ret):
        d = _dist_read(nf, rp)
        if d is None:
            return manual(meth, site, rp, loc(mi, ret))
        ctor, params, op, oargs = d
        okc = (ctor, op) in expect[meth]
        if not okc and not (ctor in ("Normal", "MultivariateNormalDiag") and op in TFP_OPS):
            raise AnalysisError(f"{site}: `{ctor}(...).{op}(...)` is not a distribution / method this rule knows (unrecognised form)")
        ck.ob("R3-distribution-call", site, "distribution", okc, f"dist.{ctor}(...).{op}(...)", "" if okc else f"documented: dist.{sorted(expect[meth])[0][0]}(mean, std).{sorted(expect[meth])[0][1]}", loc(mi, ret))
        sname = TFP_PARAMS[ctor][1]
        if "loc" not in params or sname not in params or set(params) - {"loc", sname, "validate_args", "allow_nan_stats", "name"}:
            raise AnalysisError(f"{site}: `{ctor}` is parameterised by {sorted(params)} (unrecognised form)")
        if meth != "entropy" or _deref(nf, params["loc"]) == want_mean:      # the entropy of Normal(loc, scale) does not depend on loc: another loc there is no difference in behaviour
            mean_ob(site, params["loc"], loc(mi, ret))
        std_ob(site, params[sname], loc(mi, ret))
        if meth == "log_probability":
            _action_ob(ck, site, oargs.get("value"), sorted(set(re.findall(r"[A-Za-z_]\w*", head.canon())) | {"OBS"}), "the density must be evaluated at the given action", loc(mi, ret))
        if meth == "sample":
            _key_ob(ck, site, oargs.get("seed"), loc(mi, ret))

    def manual(meth, site, rp, where):
        """Hand-written forms: accepted when they normalise to the documented closed form of the head's own (mean, std)."""
        rp = _deref(nf, rp)
        if _unread(rp):
            raise AnalysisError(f"{site}: returned value `{rp.canon()[:100]}` is not read (unrecognised form)")
        if meth == "sample":
            # mean + std * N(key): the parts are read off the polynomial in the noise atom
            noise = [a for a in rp.atoms() if _fn(nf.meta.get(a, {})) == "normal"]
            if not noise and same_ingredients(rp, head, ("OBS",)):
                ck.ob("R1-sibling-agreement", site, "mean", False, f"sample = {rp.canon()[:140]}", "a hand-written sample must be normal(key, mean.shape) * std + mean: no key-determined noise enters the returned value", where)
                return
            if len(noise) != 1:
                raise AnalysisError(f"{site}: {len(noise)} standard-normal draws in `{rp.canon()[:100]}` (unrecognised form)")
            parts = rp.degree_split(noise[0])
            if not set(parts) <= {0, 1} or 1 not in parts:
                raise AnalysisError(f"{site}: the returned value is not linear in the noise `{noise[0][:60]}` (unrecognised form)")
            mean_p, std_p = parts.get(0, Poly({})), parts[1]
            mn = nf.meta[noise[0]]
            if "**" in mn["kws"] or set(mn["kws"]) - {"key", "shape", "dtype"}:
                raise AnalysisError(f"{site}: arguments of the noise draw `{noise[0][:80]}` (unrecognised form)")
            key_p = mn["args"][0] if mn["args"] else mn["kws"].get("key")
            shape_p = mn["args"][1] if len(mn["args"]) > 1 else mn["kws"].get("shape")
            ms = nf.meta.get(shape_p.single_atom() or "", {}) if shape_p is not None else {}
            shaped_like = _deref(nf, ms["args"][0]) if ms.get("fn") == "attr" and (shape_p.single_atom() or "").endswith(".shape") and len(ms.get("args", [])) == 1 else None
            m_std = nf.meta.get(std_p.single_atom() or "", {})
            like = [want_mean, want_std, net0, net1, mean_p, std_p] + (list(m_std["args"]) if _fn(m_std) == "exp" else []) + list(nf.meta.get(want_std.single_atom(), {}).get("args", []))
            if shaped_like is None or shaped_like not in like:
                raise AnalysisError(f"{site}: the shape of the noise `{shape_p.canon()[:80] if shape_p is not None else None}` is not the shape of the head's mean / std (unrecognised form)")
            mean_ob(site, mean_p, where, "sample - std*noise")
            std_ob(site, std_p, where, "d sample / d noise")
            _key_ob(ck, site, key_p, where)
        elif meth == "log_probability":
            e2 = {"MEAN": want_mean, "STD": want_std, "ACTION": ACTION}
            alts = [nf.poly(parse_expr(a), Scope(None, cmi, e2, cq), None) for a in ("jnp.sum(-jnp.log(STD) - 0.5 * jnp.log(2.0 * jnp.pi) - 0.5 * ((ACTION - MEAN) / STD) ** 2, axis=-1)",)]
            ok = rp in alts or _differs(site, "the hand-written log-density", rp, alts[0])
            ck.ob("R3-distribution-call", site, "closed-form-density", ok, f"log_prob = {rp.canon()[:150]}",
                  "" if ok else "hand-written log-density is not sum_d(-log std - 0.5*log(2*pi) - 0.5*((a-mean)/std)^2) of the head's (mean, std)", where)
        else:
            e2 = {"STD": want_std}
            alts = [nf.poly(parse_expr(a), Scope(None, cmi, e2, cq), None) for a in ("0.5 + 0.5 * jnp.log(2.0 * jnp.pi) + jnp.log(STD)", "0.5 * jnp.log(2.0 * jnp.pi * jnp.e * STD ** 2)")]
            ok = rp in alts or _differs(site, "the hand-written entropy", rp, alts[0])
            ck.ob("R3-distribution-call", site, "entropy-form", ok, f"entropy = {rp.canon()[:120]}", "" if ok else "entropy is not the per-dimension closed form 0.5 + 0.5*log(2*pi) + log(std) of the head's std", where)

    for meth in ("sample", "log_probability", "entropy"):
        ck.guard(one, meth)
    # __call__ of the tanh head returns (mean, std) by the same forms
    if has_tanh:
        call_fn = _method(repo, cq, "__call__")
        mi = call_fn._module
        site = f"{cq}.__call__"
        pn = _params(call_fn, 2, site)
        sc = Scope(nf.cfg_of(call_fn), mi, {pn[1]: OBS}, site, self_class=cq)
        rp, ret = _returned(nf, call_fn, sc, site)
        m = nf.meta.get(rp.single_atom() or "", {}) if rp.elems is None else {}
        parts = rp.elems if rp.elems is not None else (m["args"] if "record" in m else None)
        if parts is None or len(parts) != 2:
            raise AnalysisError(f"{site}: returned value `{rp.canon()[:100]}` is not a (mean, std) pair (unrecognised form)")
        parts = [_deref(nf, x) for x in parts]
        ok = (parts[0] == want_mean or _differs(site, "the mean", parts[0], want_mean, ("OBS",))) and std_ok(site, parts[1])
        ck.ob("R1-sibling-agreement", site, "mean-std", ok, f"return {rp.canon()[:150]}", "" if ok else "__call__ must return (tanh-scaled mean, exp(clip(0.5*log_var, -20, 2)))", loc(mi, call_fn))


def softmax_head(ck, repo, nf):
    cq = PH + "SoftmaxPolicy"
    cmi = repo.cls(cq)._module
    raw = nf.poly(parse_expr("self.net(OBS)"), Scope(None, cmi, {"OBS": OBS}, cq), None)
    lg = _method(repo, cq, "logits")
    site = f"{cq}.logits"
    pn = _params(lg, 2, site)
    logits, ret = _returned(nf, lg, Scope(nf.cfg_of(lg), lg._module, {pn[1]: OBS}, site, self_class=cq), site)
    if _unread(logits):
        raise AnalysisError(f"{site}: returned value `{logits.canon()[:100]}` is not read (unrecognised form)")
    try:
        ok = logits == raw or _differs(site, "the logits", logits, raw, ("OBS",))
        ck.ob("R3-distribution-call", site, "logits", ok, f"return {logits.canon()[:100]}", "" if ok else "logits must be the raw network output", loc(lg._module, lg))
    except AnalysisError as e:
        ck.incomplete.append(str(e))      # the siblings are still judged against what the head's logits are
    # the siblings are compared with the head's own logits (what self.logits(obs) evaluates to)
    extras = sorted(set(re.findall(r"[A-Za-z_]\w*", logits.canon())) | {"OBS"})

    def call():
        c = _method(repo, cq, "__call__")
        site = f"{cq}.__call__"
        pn = _params(c, 2, site)
        rp, ret = _returned(nf, c, Scope(nf.cfg_of(c), c._module, {pn[1]: OBS}, site, self_class=cq), site)
        m = nf.meta.get(rp.single_atom() or "", {}) if rp.elems is None else {}
        f = _fn(m)
        args, kws = list(m.get("args", [])), dict(m.get("kws", {}))
        axis = kws.pop("axis", args[1] if len(args) == 2 else None)
        # evidence of a violation: softmax of something else made of the same ingredients, another squashing function of the logits (another axis is not
        # evidence: reshapes are value-transparent in the normal form, the layout the axis refers to is not known)
        if not _unread(rp) and f == "softmax" and len(args) in (1, 2) and not kws and (axis is None or axis.is_const()):
            ok = args[0] == logits or _differs(site, "the argument of softmax", args[0], logits, extras)
            if ok and not (axis is None or axis.const_value() == -1):
                raise AnalysisError(f"{site}: `{rp.canon()[:100]}`: the layout axis {axis.canon()} refers to is not tracked (unrecognised form)")
        elif not _unread(rp) and f in ("sigmoid", "log_softmax", "tanh", "relu", "softplus", "exp", "log_sigmoid") and args and args[0] == logits:
            ok = False
        else:
            raise AnalysisError(f"{site}: returned value `{rp.canon()[:100]}` is not read as softmax(logits) (unrecognised form)")
        ck.ob("R3-distribution-call", site, "softmax", ok, f"return {rp.canon()[:100]}", "" if ok else "probabilities must be softmax(logits) over the last axis (non-negative, summing to one)", loc(c._module, c))

    def one(meth, op):
        fn = _method(repo, cq, meth)
        mi = fn._module
        site = f"{cq}.{meth}"
        pn = _params(fn, 2 if meth == "entropy" else 3, site)
        env = {p: _role(p) for p in pn}
        env[pn[1]] = OBS
        if meth != "entropy":
            env[pn[2]] = KEY if meth == "sample" else ACTION
        for rp, ret in _returned(nf, fn, Scope(nf.cfg_of(fn), mi, env, site, self_class=cq), site, every=True):
            returned(meth, op, site, rp, loc(mi, ret))

    def returned(meth, op, site, rp, where):
        detail = f"must be Categorical(logits=self.logits(obs)).{op} on the head's own logits"
        d = _dist_read(nf, rp)
        if d is None:
            # positive evidence of a probability-space formula: a logarithm taken of softmax probabilities
            def has_softmax(p):
                return any(_fn(m) == "softmax" for _, m in _atoms(nf, p))
            logs = [a for a, m in _atoms(nf, rp) if _fn(m) == "log" and any(has_softmax(x) for x in m.get("args", []))]
            if _unread(rp) or not logs:
                raise AnalysisError(f"{site}: returned value `{rp.canon()[:100]}` is neither a tfp Categorical result nor a formula this rule reads (unrecognised form)")
            ck.ob("R3-distribution-call", site, "categorical-on-logits", False, f"{rp.canon()[:120]}",
                  f"{meth} is not computed by Categorical(logits=self.logits(obs)).{op}: a probability-space formula is not defined for extreme logits (p underflows to 0 -> log p = -inf, 0*inf = NaN)", where)
            return
        ctor, params, gop, oargs = d
        if ctor != "Categorical" or gop != op:
            if ctor not in ("Categorical", "OneHotCategorical", "Multinomial", "Bernoulli", "Normal", "MultivariateNormalDiag") or gop not in TFP_OPS:
                raise AnalysisError(f"{site}: `{ctor}(...).{gop}(...)` is not a distribution / method this rule knows (unrecognised form)")
            ok = False
        elif set(params) - {"logits", "probs", "dtype", "validate_args", "allow_nan_stats", "name"} or ("logits" in params) == ("probs" in params):
            raise AnalysisError(f"{site}: `Categorical` is parameterised by {sorted(params)} (unrecognised form)")
        elif "logits" in params:
            ok = params["logits"] == logits or _differs(site, "the logits handed to Categorical", params["logits"], logits, extras + ["softmax"])
        else:
            # probs=softmax(logits) is the probability-space parameterisation (another provenance of the same distribution: not defined for extreme logits)
            mp = nf.meta.get(params["probs"].single_atom() or "", {})
            if not (_fn(mp) == "softmax" and mp.get("args") and mp["args"][0] == logits):
                raise AnalysisError(f"{site}: probs `{params['probs'].canon()[:80]}` handed to Categorical are not read (unrecognised form)")
            ok = False
        lp = params.get("logits", params.get("probs"))
        ck.ob("R3-distribution-call", site, "categorical-on-logits", ok, f"dist.{ctor}({'logits' if 'logits' in params else 'probs' if 'probs' in params else '?'}={lp.canon()[:80] if lp is not None else None}).{gop}", "" if ok else detail, where)
        if meth == "log_probability" and gop == "log_prob":
            _action_ob(ck, site, oargs.get("value"), extras, "log-probability of the selected entry", where)
        if meth == "sample" and gop == "sample":
            _key_ob(ck, site, oargs.get("seed"), where)

    ck.guard(call)
    for meth, op in (("sample", "sample"), ("log_probability", "log_prob"), ("entropy", "entropy")):
        ck.guard(one, meth, op)


def _argmax_ob(ck, nf, site, key, gotp, wants, axes, extras, detail, where):
    """R4: the returned action is argmax of one of the ``wants`` (over the whole array or the given equivalent axes).  Evidence of a violation: another
    reduction (argmin, max, ...), argmax of something else made of the same ingredients.  Another axis is NOT evidence: the normal form reads ravel /
    flatten / squeeze / reshape as value-transparent, so the layout the axis refers to is not known (ravel(x).argmax(axis=0) is the argmax over all of x)."""
    m = nf.meta.get(gotp.single_atom() or "", {}) if gotp.elems is None else {}
    f = _fn(m)
    args, kws = list(m.get("args", [])), dict(m.get("kws", {}))
    if _unread(gotp) or f not in ("argmax", "argmin", "max", "min", "amax", "amin", "argsort", "sum", "mean") or not args:
        raise AnalysisError(f"{site}: returns `{gotp.canon()[:100]}` (an arg-max written in a way this rule does not read)")
    ok = False
    if f == "argmax":
        axis = kws.pop("axis", args[1] if len(args) == 2 else None)
        if kws or len(args) > 2 or (axis is not None and not axis.is_const()):
            raise AnalysisError(f"{site}: options of `{gotp.canon()[:100]}` (unrecognised form)")
        ok = args[0] in wants or _differs(site, "the argument of argmax", args[0], wants[0], extras)
        if ok and not (axis is None or axis.const_value() in axes):
            raise AnalysisError(f"{site}: `{gotp.canon()[:100]}`: the layout axis {axis.canon()} refers to is not tracked (unrecognised form)")
    ck.ob("R4-greedy", site, key, ok, f"return {gotp.canon()[:100]}", "" if ok else detail, where)


def _single_return(nf, q, env):
    try:
        return nf.return_poly(q, env)
    except ValueError as e:
        raise AnalysisError(f"{e} (unrecognised form)")


def greedy_tabular(ck, repo, nf):
    q = "rl_blox.blox.value_policy.greedy_policy"
    fn = repo.func(q)
    pn = _params(fn, 2, q)
    env = {p: _role(p) for p in pn}
    env.update({pn[0]: _role("Q"), pn[1]: OBS})
    row = nf.poly(parse_expr("Q[OBS]"), Scope(None, fn._module, {"Q": _role("Q"), "OBS": OBS}, q), None)
    _argmax_ob(ck, nf, q, "argmax-row", _single_return(nf, q, env), [row], (-1, 0), ("OBS",), "greedy action must be argmax over the observation's row", loc(fn._module, fn))


def greedy_network(ck, repo, nf):
    q = "rl_blox.blox.q_policy.greedy_policy"
    fn = repo.func(q)
    pn = _params(fn, 2, q)
    env = {p: _role(p) for p in pn}
    env.update({pn[0]: _role("QNET"), pn[1]: OBS})
    wants = [nf.poly(parse_expr(t), Scope(None, fn._module, {"QNET": _role("QNET"), "OBS": OBS}, q), None) for t in ("QNET(jnp.array([OBS]))", "QNET(OBS)", "QNET(jnp.expand_dims(OBS, 0))", "QNET(jnp.expand_dims(OBS, axis=0))", "QNET(OBS[None])", "QNET(OBS[None, :])", "QNET(OBS[jnp.newaxis])", "QNET(jnp.stack([OBS]))", "QNET(jnp.atleast_2d(OBS))")]      # spellings of the batch of one observation
    _argmax_ob(ck, nf, q, "argmax-network", _single_return(nf, q, env), wants, (-1, 1), (), "greedy action must be argmax of the network output on the observation", loc(fn._module, fn))


def _reads_entries(nf, p, table="Q"):
    """The value depends on entries of the table (reads through len / shape / size do not count)."""
    def shape_read(a, m):
        return _fn(m) in ("len", "shape", "ndim", "size", "zeros_like", "ones_like", "full_like", "empty_like") or (m.get("fn") == "attr" and a.rsplit(".", 1)[-1] in ("shape", "ndim", "size", "dtype"))
    return any(a == table for a, m in _atoms(nf, p, skip=shape_read) if not shape_read(a, m))


def epsilon_greedy_tabular(ck, repo, nfp):
    """Per path to a return, the returned action is either the uniform draw (iff roll < epsilon) or the greedy action."""
    from ..sympath import enumerate_paths, PathEval
    from ..sem import selector_table
    q = "rl_blox.blox.value_policy.epsilon_greedy_policy"
    fn = repo.func(q)
    mi = fn._module
    cfg = nfp.cfg_of(fn)
    pn = _params(fn, 4, q)
    roles = {"Q": _role("Q"), "OBS": OBS, "EPS": _role("EPS"), "KEY": KEY}
    env = {p: _role(p) for p in pn}
    env.update(dict(zip(pn[:4], roles.values())))
    rsc = Scope(None, mi, roles, q)
    row = nfp.poly(parse_expr("Q[OBS]"), rsc, None)
    counts = [nfp.poly(parse_expr(t), rsc, None) for t in ("len(Q[OBS])", "Q[OBS].shape[0]", "Q[OBS].shape[-1]", "Q.shape[-1]", "Q[OBS].size")]
    table_args = [_role("Q"), OBS]
    rets = [n for n in cfg.nodes if n.kind == "stmt" and isinstance(n.ast, ast.Return) and n.ast.value is not None]
    ck.need(rets, f"{q}: no return")
    items, kinds = [], {}
    for pth in enumerate_paths(cfg, cfg.entry, {r.id for r in rets}):
        pe = PathEval(nfp, cfg, mi, q, env).run(pth[:-1])
        rvp = pe.ev(cfg.nodes[pth[-1][0]].ast.value)
        rv = rvp.canon()
        m = nfp.meta.get(rvp.single_atom() or "", {}) if rvp.elems is None else {}
        f, args, kws = _fn(m), list(m.get("args", [])), dict(m.get("kws", {}))
        if _unread(rvp):
            raise AnalysisError(f"{q}: returned action `{rv[:80]}` is not read (unrecognised idiom)")
        if f in ("choice", "randint") and m.get("fn", "").split(".")[0] in ("random", "choice", "randint"):
            kind = "random"
            if _reads_entries(nfp, rvp):
                okr = False      # evidence: the draw depends on the entries of the row
            else:
                # uniform over the row's actions: choice(key, n | arange(n)) without weights, randint(key, shape, 0, n)
                if f == "choice":
                    pop = args[1] if len(args) > 1 else kws.get("a")
                    mp = nfp.meta.get(pop.single_atom() or "", {}) if pop is not None else {}
                    n_ = mp["args"][0] if _fn(mp) == "arange" and len(mp.get("args", [])) == 1 and not mp.get("kws") else pop
                    plain = len(args) <= 3 and not (set(kws) - {"a", "shape", "replace"}) and all(x.canon() in ("()", "None", "1", "0") for x in args[2:3] + [v for k_, v in kws.items() if k_ in ("shape", "replace")])
                else:
                    n_ = args[3] if len(args) > 3 else kws.get("maxval")
                    lo_ = args[2] if len(args) > 2 else kws.get("minval")
                    plain = lo_ is not None and lo_ == Poly.const(0) and not (set(kws) - {"shape", "minval", "maxval", "dtype"})
                if n_ is None or n_ not in counts or not plain:
                    raise AnalysisError(f"{q}: exploring arm `{rv[:80]}` is not read as a uniform draw among the row's actions (unrecognised idiom)")
                okr = True
            kinds.setdefault("random", []).append((rv, okr))
        elif (f == "argmax" and args and args[0] == row and not (set(kws) - {"axis"}) and len(args) <= 2) or (f == "greedy_policy" and m["fn"] == "rl_blox.blox.value_policy.greedy_policy" and args == table_args and not kws):
            kind = "greedy"
            kinds.setdefault("greedy", []).append((rv, True))
        else:
            raise AnalysisError(f"{q}: returned action `{rv[:80]}` is neither the uniform draw nor the greedy action (unrecognised idiom)")
        conds = [(cfg.nodes[nid].ast.test, nid, lab) for nid, lab in pth[:-1] if cfg.nodes[nid].kind == "test" and lab in (True, False) and isinstance(cfg.nodes[nid].ast, ast.If)]
        items.append((conds, kind))
    # the roll: the uniform draw that is compared with epsilon
    rolls = [n for n in _own(fn, ast.Call) if isinstance(n.func, (ast.Name, ast.Attribute)) and repo.resolve_expr(mi, n.func) == "jax.random.uniform"]
    ck.need(len(rolls) == 1, f"{q}: {len(rolls)} uniform rolls found (unrecognised idiom)")
    # predicate in terms of the roll's defining call (locals are inlined by the normal form on both sides); epsilon by its position in the signature
    pred = ast.Compare(left=rolls[0], ops=[ast.Lt()], comparators=[ast.Name(id=pn[2], ctx=ast.Load())])
    first_test = next((nid for conds_, _ in items for _, nid, _ in conds_), None)
    ck.need(first_test is not None, f"{q}: the action does not depend on any test (unrecognised idiom)")
    roll_txt = nfp.poly(rolls[0], Scope(cfg, mi, {}, q), first_test).canon()
    verdict, info = selector_table(nfp, mi, cfg, items, pred, "random", "greedy", opaque=set(pn), pred_at=first_test)
    if verdict is None:
        raise AnalysisError(f"{q}: exploration test not comparable with `roll < epsilon`: {info}")
    ck.ob("R4-greedy", q, "roll<epsilon", verdict, f"random iff {roll_txt[:60]} < {pn[2]} (truth table over the branch conditions)", "" if verdict else f"exploration must happen exactly when roll < epsilon with roll ~ U[0,1) (epsilon 0 always greedy, epsilon 1 never greedy); differs in the world {info}", loc(mi, fn))
    okr = "random" in kinds and all(ok_ for _, ok_ in kinds["random"])
    ck.ob("R4-greedy", q, "random-arm", okr, f"explore -> {[r_[:70] for r_, _ in kinds.get('random', [])][:1]}", "" if okr else "the exploring arm must draw uniformly among the row's actions without reading the values", loc(mi, fn))
    okg = "greedy" in kinds
    ck.ob("R4-greedy", q, "greedy-arm", okg, f"exploit -> {[r_[:70] for r_, _ in kinds.get('greedy', [])][:1]}", "" if okg else "the non-exploring arm must be the greedy action of the same table and observation", loc(mi, fn))


_LOGICAL = {"logical_or": ast.Or, "logical_and": ast.And, "bitwise_or": ast.Or, "bitwise_and": ast.And}


def _pointwise(cfg, e, at, depth=0, ctx=None):
    """A test that indexes an array of decisions made once for all steps is the decision about its entries: (a < b)[i] == a[i] < b[i],
    logical_or(p, q)[i] == p[i] or q[i] (also `p | q`, `p & q`, `~p` of such arrays), arange(a, b)[i] == a + i, and a scalar compared with an array is compared
    with every entry (`explore = (arange(T) < learning_starts) | (rolls < eps)`, `if explore[step]`).  Locals are followed while their operands still hold the
    values they had at the definition.  ``ctx`` = (repo, module, names of scalar quantities)."""
    repo, mi, scalars = ctx if ctx is not None else (None, None, frozenset())

    def defined(v):
        """The expression a local array was bound to, while the names in it still hold the values they had there."""
        ds = cfg.defs_of(at, v.id)
        rhs = None
        if len(ds) == 1 and ds[0].kind == "assign" and isinstance(ds[0].value, ast.AST):
            rhs = strip_wrappers(ds[0].value)
        elif len(ds) == 1 and ds[0].kind == "unpack" and isinstance(ds[0].value, ast.Tuple) and len(ds[0].path) == 1 and isinstance(ds[0].path[0], int) and ds[0].path[0] < len(ds[0].value.elts):
            rhs = strip_wrappers(ds[0].value.elts[ds[0].path[0]])
        if rhs is None or isinstance(rhs, ast.Name):
            return None
        names = {x.id for x in ast.walk(rhs) if isinstance(x, ast.Name)}
        rd, out = cfg.reaching(), cfg.reaching_out()[ds[0].node]
        return rhs if v.id not in names and all(rd[at].get(nm) == out.get(nm) for nm in names) else None

    def fn_of(x):
        r = repo.resolve_expr(mi, x.func) if repo is not None and isinstance(x.func, (ast.Name, ast.Attribute)) else None
        return r.rsplit(".", 1)[-1] if r and r.rsplit(".", 1)[0] in ("numpy", "jax.numpy") else None

    def boolean(x):
        return isinstance(x, (ast.Compare, ast.BoolOp)) or (isinstance(x, ast.UnaryOp) and isinstance(x.op, ast.Not))

    def entry(x, idx, d=0):
        """The entry idx of an array expression built element-wise; the plain subscript for anything else."""
        x = strip_wrappers(x)
        plain = ast.copy_location(ast.Subscript(value=x, slice=idx, ctx=ast.Load()), e)
        if d > 6:
            return plain
        if (isinstance(x, ast.Constant) and type(x.value) in (int, float, bool)) or (isinstance(x, ast.Name) and x.id in scalars):
            return x
        if isinstance(x, ast.Name):
            rhs = defined(x)
            if isinstance(rhs, (ast.Compare, ast.Call, ast.BinOp, ast.UnaryOp, ast.Subscript)):
                got = entry(rhs, idx, d + 1)
                if not (isinstance(got, ast.Subscript) and got.value is rhs):
                    return got
            return plain
        if isinstance(x, ast.Subscript) and isinstance(x.slice, ast.Slice) and x.slice.step is None and x.slice.upper is None and x.slice.lower is not None \
                and not (isinstance(x.slice.lower, ast.UnaryOp) or (isinstance(x.slice.lower, ast.Constant) and not (type(x.slice.lower.value) is int and x.slice.lower.value >= 0))):
            # x[j:][i] == x[j + i]: the rest of an array from position j on (j and i count from the front: step numbers)
            return entry(x.value, ast.copy_location(ast.BinOp(left=x.slice.lower, op=ast.Add(), right=idx), e), d + 1)
        if isinstance(x, ast.Compare) and len(x.ops) == 1:
            return ast.copy_location(ast.Compare(left=entry(x.left, idx, d + 1), ops=x.ops, comparators=[entry(x.comparators[0], idx, d + 1)]), e)
        if isinstance(x, ast.Call) and not x.keywords and not any(isinstance(a_, ast.Starred) for a_ in x.args):
            f = fn_of(x)
            if f in _LOGICAL and len(x.args) == 2:
                return ast.copy_location(ast.BoolOp(op=_LOGICAL[f](), values=[entry(a_, idx, d + 1) for a_ in x.args]), e)
            if f == "logical_not" and len(x.args) == 1:
                return ast.copy_location(ast.UnaryOp(op=ast.Not(), operand=entry(x.args[0], idx, d + 1)), e)
            if f == "arange" and len(x.args) in (1, 2):
                return idx if len(x.args) == 1 else ast.copy_location(ast.BinOp(left=x.args[0], op=ast.Add(), right=idx), e)
            return plain
        if isinstance(x, ast.BinOp) and isinstance(x.op, (ast.BitOr, ast.BitAnd)):
            parts = [entry(x.left, idx, d + 1), entry(x.right, idx, d + 1)]
            if all(boolean(p_) for p_ in parts):      # `|` / `&` of arrays of decisions
                return ast.copy_location(ast.BoolOp(op=ast.Or() if isinstance(x.op, ast.BitOr) else ast.And(), values=parts), e)
            return plain
        if isinstance(x, ast.UnaryOp) and isinstance(x.op, ast.Invert):
            inner = entry(x.operand, idx, d + 1)
            return ast.copy_location(ast.UnaryOp(op=ast.Not(), operand=inner), e) if boolean(inner) else plain
        return plain

    if depth > 6:
        return e
    if isinstance(e, ast.BoolOp):
        return ast.copy_location(ast.BoolOp(op=e.op, values=[_pointwise(cfg, v, at, depth + 1, ctx) for v in e.values]), e)
    if isinstance(e, ast.UnaryOp) and isinstance(e.op, ast.Not):
        return ast.copy_location(ast.UnaryOp(op=e.op, operand=_pointwise(cfg, e.operand, at, depth + 1, ctx)), e)
    if isinstance(e, ast.Name):
        rhs = cfg._expand_name(e, at)
        ds = cfg.defs_of(at, e.id) if rhs is None else []
        if len(ds) == 1 and ds[0].kind == "assign" and isinstance(ds[0].value, ast.Subscript):
            # a local that holds one entry (`explore_now = explore[step]`), under the same condition as _expand_name: its operands are unchanged since
            names = {x.id for x in ast.walk(ds[0].value) if isinstance(x, ast.Name)}
            if e.id not in names and all(cfg.reaching()[at].get(nm) == cfg.reaching_out()[ds[0].node].get(nm) for nm in names):
                rhs = ds[0].value
        if rhs is not None:
            new = _pointwise(cfg, rhs, at, depth + 1, ctx)
            if ast.dump(new) != ast.dump(rhs):
                return new
        return e
    if isinstance(e, ast.Subscript) and not isinstance(e.slice, (ast.Slice, ast.Tuple)):
        got = entry(e.value, e.slice)
        if boolean(got):
            return ast.fix_missing_locations(got)
    if isinstance(e, ast.Call):
        inner = strip_wrappers(e)      # bool(mask[step]) tests mask[step]
        if inner is not e:
            return _pointwise(cfg, inner, at, depth + 1, ctx)
    if isinstance(e, ast.Compare) and len(e.ops) == 1:
        # an entry of the rest of an array is an entry of the array: `eps = schedule[k:]`, `eps[t - k]` reads schedule[k + (t - k)]
        def whole(x):
            x0 = strip_wrappers(x)
            if isinstance(x0, ast.Subscript) and not isinstance(x0.slice, (ast.Slice, ast.Tuple)):
                got = entry(x0.value, x0.slice)
                if isinstance(got, ast.Subscript) and ast.dump(got) != ast.dump(x0):
                    return ast.fix_missing_locations(got)
            return x
        sides = [whole(e.left), whole(e.comparators[0])]
        if sides[0] is not e.left or sides[1] is not e.comparators[0]:
            return ast.fix_missing_locations(ast.copy_location(ast.Compare(left=sides[0], ops=e.ops, comparators=[sides[1]]), e))
    return e


def _step_positions(fn):
    """Copy of a routine that keeps the whole step result in one local (`res = env.step(a)`, read as `res[0]`, `res[:4]`, `o, r, te, tr, info = res`)
    with that local written as the five protocol positions it consists of: `res__s0, ..., res__s4 = env.step(a)`, `res[k]` -> `res__sk`, `res[:4]` -> the
    tuple of the first four.  The same program (the step result is the 5-tuple of the environment protocol); None when the local is used in any other way."""
    from ..expand import clone
    pn = set(param_names(fn))
    own = _own(fn, ast.AST)
    steps = [n for n in own if isinstance(n, ast.Assign) and len(n.targets) == 1 and isinstance(n.targets[0], ast.Name) and isinstance(n.value, ast.Call) and isinstance(n.value.func, ast.Attribute)
             and n.value.func.attr == "step" and isinstance(n.value.func.value, ast.Name) and n.value.func.value.id in pn]
    if len(steps) != 1:
        return None
    v = steps[0].targets[0].id
    if v in pn or sum(1 for n in ast.walk(fn) if isinstance(n, ast.Name) and n.id == v and not isinstance(n.ctx, ast.Load)) != 1 \
            or any(isinstance(n, (ast.Global, ast.Nonlocal)) and v in n.names for n in ast.walk(fn)) or sum(1 for n in ast.walk(fn) if isinstance(n, ast.Name) and n.id == v) != sum(1 for n in own if isinstance(n, ast.Name) and n.id == v):
        return None      # rebound, or read inside a nested function

    def pos(k, ctx, at):
        return ast.copy_location(ast.Name(id=f"{v}__s{k}", ctx=ctx), at)

    def const_int(e):
        if isinstance(e, ast.UnaryOp) and isinstance(e.op, ast.USub) and isinstance(e.operand, ast.Constant) and type(e.operand.value) is int:
            return -e.operand.value
        return e.value if isinstance(e, ast.Constant) and type(e.value) is int else None
    new = clone(fn)
    bad = []

    class T(ast.NodeTransformer):
        def visit_FunctionDef(self, n):
            return self.generic_visit(n) if n is new else n
        visit_AsyncFunctionDef = visit_Lambda = visit_ClassDef = visit_FunctionDef

        def visit_Assign(self, n):
            if len(n.targets) == 1 and isinstance(n.targets[0], ast.Name) and n.targets[0].id == v:
                n.targets = [ast.copy_location(ast.Tuple(elts=[pos(k, ast.Store(), n) for k in range(5)], ctx=ast.Store()), n)]
                n.value = self.visit(n.value)
                return n
            if isinstance(n.value, ast.Name) and n.value.id == v and len(n.targets) == 1 and isinstance(n.targets[0], ast.Tuple) and len(n.targets[0].elts) == 5 and not any(isinstance(e, ast.Starred) for e in n.targets[0].elts):
                n.targets = [self.visit(n.targets[0])]
                n.value = ast.copy_location(ast.Tuple(elts=[pos(k, ast.Load(), n) for k in range(5)], ctx=ast.Load()), n.value)
                return n
            return self.generic_visit(n)

        def visit_Subscript(self, n):
            if isinstance(n.value, ast.Name) and n.value.id == v and isinstance(n.ctx, ast.Load):
                s = n.slice
                k = const_int(s)
                if k is not None and -5 <= k < 5:
                    return pos(k % 5, ast.Load(), n)
                if isinstance(s, ast.Slice) and s.step is None and all(b is None or const_int(b) is not None for b in (s.lower, s.upper)):
                    ks = list(range(5))[slice(const_int(s.lower) if s.lower is not None else None, const_int(s.upper) if s.upper is not None else None)]
                    return ast.copy_location(ast.Tuple(elts=[pos(k, ast.Load(), n) for k in ks], ctx=ast.Load()), n)
            return self.generic_visit(n)

        def visit_Name(self, n):
            if n.id == v:
                bad.append(n)
            return n
    T().visit(new)
    if bad:
        return None
    ast.fix_missing_locations(new)
    for parent in ast.walk(new):
        for child in ast.iter_child_nodes(parent):
            child._parent = parent
    if hasattr(fn, "_module"):
        new._module = fn._module
    return new


def dqn_loop(ck, repo, nfp, lq, has_ls):
    """Per path through the action selection, the executed action is the space sample iff (step < learning_starts or roll[step] < epsilon[step]) and the
    greedy action of the online network on the current observation otherwise."""
    from ..sympath import enumerate_paths, PathEval
    from ..sem import selector_table, structured_value
    from ..specialise import load_signatures
    from ..cfg import CFG
    from ..loops import Origins
    alt = _step_positions(repo.func(lq))      # a step result kept whole in one local is read as its five protocol positions
    L = find_env_loop(repo, lq, {lq: CFG(alt)} if alt is not None else None)
    cfg, mi, fn = L.cfg, L.mi, L.fn
    org = Origins(L)
    pn = param_names(fn)
    recorded = load_signatures().get(lq) or []

    def role(name):
        """Parameter in the role the recorded signature names: by that name while it exists, else by its recorded position."""
        if name in pn:
            return name
        if name in recorded and recorded.index(name) < len(pn):
            return pn[recorded.index(name)]
        raise AnalysisError(f"{lq}: parameter `{name}` of the recorded signature not found (anchor vanished)")
    total, qnet = role("total_timesteps"), role("q_net")
    hdr = cfg.nodes[L.outer_header].ast
    counts_steps = True      # the loop variable is the number of the training step (it runs up to total_timesteps)
    if isinstance(hdr, ast.For) and isinstance(hdr.target, ast.Name):
        cvar = hdr.target.id
        it = hdr.iter
        counts_steps = isinstance(it, ast.Call) and not any(isinstance(x, ast.Starred) for x in it.args) and len(it.args) in (1, 2) and isinstance(it.args[-1], ast.Name) and it.args[-1].id == total \
            and isinstance(it.func, (ast.Name, ast.Attribute)) and dotted(it.func).rsplit(".", 1)[-1] in ("range", "trange")
    else:
        # the tests that end the loop: its header and the guard clauses of its body whose one arm only leaves the loop (`while True: if step >= total: break`)
        exits = [hdr.test] if isinstance(hdr, ast.While) else []
        for st in hdr.body if isinstance(hdr, ast.While) else []:
            if isinstance(st, ast.If) and any(len(arm) == 1 and isinstance(arm[0], ast.Break) for arm in (st.body, st.orelse)):
                exits.append(st.test)
        cands = set()
        for c in (c_ for t_ in exits for c_ in ast.walk(t_)):
            if isinstance(c, ast.Compare) and len(c.ops) == 1:
                sides = [c.left, c.comparators[0]]
                if any(isinstance(x, ast.Name) and x.id == total for x in sides):
                    cands |= {x.id for x in sides if isinstance(x, ast.Name) and x.id != total}
        if len(cands) != 1:
            raise AnalysisError(f"{lq}: the step counter of the loop is not read from its header (unrecognised form)")
        cvar = cands.pop()
    aexpr = arg_of(L.step_call, 0, "action")
    ck.need(aexpr is not None, f"{lq}: env.step without an action argument (unrecognised form)")
    envl = {p: _role(p) for p in pn}
    envl[cvar] = _role(cvar)
    body = cfg.loop_body_nodes(L.outer_header)
    # the current observation: what is stored as the transition's observation / the local that carries next_obs into the next iteration
    cur = set()
    for n in cfg.nodes:
        if n.ast is not None and n.kind == "stmt" and n.id in body:
            for c in ast.walk(n.ast):
                if isinstance(c, ast.Call) and isinstance(c.func, ast.Attribute) and c.func.attr == "add_sample":
                    cur |= {dotted(k.value) for k in c.keywords if k.arg == "observation" and dotted(k.value)}
            if isinstance(n.ast, ast.Assign) and len(n.ast.targets) == 1 and isinstance(n.ast.targets[0], ast.Name) and isinstance(n.ast.value, ast.Name):
                x = n.ast.targets[0].id
                if n.ast.value.id == L.pos.get(0):
                    cur.add(x)
                elif org.of_expr(n.ast.value, n.id) == {("step", 0)}:
                    # a copy of the step's observation (through locals / a tuple of the projected result) into the local that enters every iteration holding
                    # what the environment last returned: its definitions at the loop header are observations of reset and step only
                    at_hdr = org.of_name(x, L.outer_header)
                    if at_hdr and all(o_[0] in ("step", "reset") and o_[1] == 0 for o_ in at_hdr) and any(o_[0] == "reset" for o_ in at_hdr):
                        cur.add(x)
    ck.need(cur, f"{lq}: the local holding the current observation is not identified (unrecognised form)")

    def pre(p):
        """A local bound once before the loop (an alias `online = q_net`) is read through to its value."""
        a = p.single_atom()
        if a is not None and a.isidentifier() and a not in pn and a != cvar:
            ds = cfg.defs_of(L.outer_header, a)
            if len(ds) == 1 and ds[0].node not in body:
                return nfp.poly(ast.Name(id=a, ctx=ast.Load()), Scope(cfg, mi, envl, lq), L.outer_header)
        return p

    def greedy_ok(m, pe, a):
        """greedy_policy(<online net>, <current observation>); a readable other network / observation is the evidence of a violation."""
        args = [pre(x) for x in m.get("args", [])]
        if m.get("kws") or len(args) != 2 or any(_unread(x) for x in args):
            raise AnalysisError(f"{lq}: arguments of `{a[:80]}` are not read (unrecognised idiom)")
        cur_now = set(cur) | {pe.env[c_].canon() for c_ in cur if c_ in pe.env}
        ok_net, ok_obs = args[0] == _role(qnet), args[1].canon() in cur_now
        a0 = args[0].single_atom() or ""
        if not ok_net and (a0.isidentifier() and a0 not in pn):
            raise AnalysisError(f"{lq}: network `{a0}` handed to greedy_policy is a local this rule does not read back to a parameter (unrecognised idiom)")
        a1 = args[1].single_atom() or ""
        stale = a1.isidentifier() and {o_[0] for o_ in org.of_name(a1, L.step_node)} == {"step"}      # every definition that reaches the step is a position of the previous step's result
        if not ok_obs and not stale:
            # evidence of acting on another observation: a result position of env.step (next_obs, ...); anything else is not read
            raise AnalysisError(f"{lq}: observation `{args[1].canon()[:60]}` handed to greedy_policy is not read back to the current observation (unrecognised idiom)")
        return ok_net and ok_obs

    def classify(v, pe):
        a = v.canon()
        m = nfp.meta.get(v.single_atom() or "", {}) if v.elems is None else {}
        if m.get("fn", "").endswith(".sample") and not m.get("args") and not m.get("kws"):
            # <env>.action_space.sample() of the environment the routine was given; locals bound once before the loop (space = env.action_space) are read
            # through; another owner of the space (env.unwrapped, ...) is a known other provenance
            space = m["fn"][:-len(".sample")]
            if space.isidentifier() and space not in pn:
                space = pre(Poly.atom(space)).canon()
            if space.endswith(".action_space"):
                owner = space[:-len(".action_space")]
                if owner.isidentifier() and owner not in pn:
                    owner = pre(Poly.atom(owner)).canon()
                    if owner != L.env:
                        raise AnalysisError(f"{lq}: owner of the sampled action space `{a[:60]}` is not read (unrecognised idiom)")
                return "random", a, owner == L.env
        if _fn(m) == "greedy_policy":
            return "greedy", a, greedy_ok(m, pe, a)
        # a composite value: a greedy_policy call on another network / observation nested in it is evidence; otherwise it is not read
        for k, mk in list(nfp.meta.items()):
            if _fn(mk) == "greedy_policy" and k in a and not greedy_ok(mk, pe, k):
                return "greedy", a, False
        raise AnalysisError(f"{lq}: executed action `{a[:80]}` is neither the space sample nor greedy_policy(...) (unrecognised idiom)")

    def split(pth, pe, expr, at):
        """[(extra conditions, value)]: a conditional expression contributes its test as a branch condition; copies through locals are followed."""
        expr = strip_wrappers(expr)
        if isinstance(expr, ast.IfExp):
            return [(c_ + [(expr.test, at, lab)], v) for lab, arm in ((True, expr.body), (False, expr.orelse)) for c_, v in split(pth, pe, arm, at)]
        if isinstance(expr, ast.Name):
            for nid, tgt, _val in reversed(pe.log):
                if tgt == expr.id:
                    st = cfg.nodes[nid].ast
                    sv = strip_wrappers(st.value) if isinstance(st, ast.Assign) and len(st.targets) == 1 and isinstance(st.targets[0], ast.Name) else None
                    if isinstance(sv, (ast.IfExp, ast.Name)):
                        k = next(i for i, (x, _) in enumerate(pth) if x == nid)
                        return split(pth, PathEval(nfp, cfg, mi, lq, envl).run(pth[:k]), sv, nid)
                    break
        return [([], pe.ev(expr))]

    # only branches that (transitively) decide what the action variable holds take part (logging / episode bookkeeping do not select the action)
    rel = {x.id for x in ast.walk(aexpr) if isinstance(x, ast.Name)}
    keep, grew = set(), True
    while grew:
        grew = False
        for n in cfg.nodes:
            if n.kind == "test" and isinstance(n.ast, ast.If) and n.id not in keep and n.id in body:
                stores = {x.id for st in n.ast.body + n.ast.orelse for x in ast.walk(st) if isinstance(x, ast.Name) and isinstance(x.ctx, ast.Store)}
                if stores & rel:
                    keep.add(n.id)
                    rel |= {x.id for x in ast.walk(n.ast.test) if isinstance(x, ast.Name)}
                    grew = True
            elif n.kind == "stmt" and n.id in body and isinstance(n.ast, (ast.Assign, ast.AnnAssign, ast.AugAssign)):
                names = {(x.id, type(x.ctx)) for x in ast.walk(n.ast) if isinstance(x, ast.Name)}
                if {i_ for i_, c_ in names if c_ is ast.Store} & rel and not {i_ for i_, c_ in names if c_ is ast.Load} <= rel:
                    rel |= {i_ for i_, c_ in names if c_ is ast.Load}      # what is copied / converted into the action variable
                    grew = True
    # scalar quantities of the element-wise readings: the step counter and the parameters the signature declares as numbers
    a_ = fn.args
    pw_ctx = (repo, mi, frozenset({cvar} | {x.arg for x in a_.posonlyargs + a_.args + a_.kwonlyargs if isinstance(x.annotation, ast.Name) and x.annotation.id in ("int", "float")}))
    items, seen_kinds = [], {}
    try:
        paths = enumerate_paths(cfg, L.outer_header, {L.step_node}, first_label=True, max_paths=3000)
    except RuntimeError:
        raise AnalysisError(f"{lq}: too many paths from the loop header to env.step")
    for pth in paths:
        pe = PathEval(nfp, cfg, mi, lq, envl).run(pth[:-1])
        conds = [(cfg.nodes[nid].ast.test, nid, lab) for nid, lab in pth[:-1] if nid in keep and lab in (True, False)]
        for extra, v in split(pth, pe, aexpr, L.step_node):
            kind, a, ok_ = classify(v, pe)
            seen_kinds.setdefault(kind, set()).add((a, ok_))
            items.append(([(_pointwise(cfg, t_, nid, 0, pw_ctx), nid, lab) for t_, nid, lab in conds + extra], kind))
    opaque = set(pn) | {cvar}
    first_test = next((nid for conds_, _ in items for _, nid, _ in conds_), None)
    ck.need(first_test is not None, f"{lq}: the executed action does not depend on any exploration test (unrecognised idiom)")
    ls_test = f"({cvar} < {role('learning_starts')}) or " if has_ls else ""
    # the schedule and the rolls, read off the comparisons the selection tests make: the entry of a random draw compared with the entry of a
    # linear_schedule(...), wherever the two arrays are built (locals, inline, inside an expanded helper)
    sc_t = Scope(cfg, mi, envl, lq)
    sc_t.opaque_names = set(opaque)

    def comparisons(e, at, d=0):
        """The comparisons a test consists of, as the truth table sees them (flags bound to a test are followed)."""
        if d > 8:
            return
        if isinstance(e, ast.BoolOp):
            for v_ in e.values:
                yield from comparisons(v_, at, d + 1)
        elif isinstance(e, ast.UnaryOp) and isinstance(e.op, ast.Not):
            yield from comparisons(e.operand, at, d + 1)
        elif isinstance(e, ast.IfExp):
            for v_ in (e.test, e.body, e.orelse):
                yield from comparisons(v_, at, d + 1)
        elif isinstance(e, ast.Name) and e.id not in opaque:
            rhs = cfg._expand_name(e, at)
            if rhs is None:
                rhs = structured_value(cfg, e.id, at)
            if rhs is not None:
                yield from comparisons(rhs, at, d + 1)
        elif isinstance(e, ast.Compare) and len(e.ops) == 1:
            yield e, at

    def entry_of(side, at):
        """(kind, array, its call, index) when the operand is one entry of a linear_schedule(...) ('s') / of a random draw ('d')."""
        try:
            p_ = nfp.poly(side, sc_t, at)
        except Exception:
            return None
        a_ = p_.single_atom() if p_.elems is None else None
        m_ = nfp.meta.get(a_ or "", {})
        if m_.get("fn") != "subscript" or len(m_.get("args", [])) != 1:
            return None
        base = m_["args"][0]
        mb = nfp.meta.get(base.single_atom() or "", {}) if base.elems is None else {}
        kind = "s" if _fn(mb) == "linear_schedule" and mb["fn"].startswith("rl_blox.") else "d" if _fn(mb) in RANDOM_DRAWS and mb["fn"] == _fn(mb) else None
        if kind is None or not a_.startswith(base.canon() + "[") or not a_.endswith("]"):
            return None
        return kind, base, mb, a_[len(base.canon()) + 1:-1]
    found, both = {"s": [], "d": []}, []
    for conds_, _ in items:
        for t_, nid, _ in conds_:
            for cmp_, at_ in comparisons(t_, nid):
                sides = [(x_, entry_of(x_, at_)) for x_ in (cmp_.left, cmp_.comparators[0])]
                for x_, r_ in sides:
                    if r_ is not None:
                        found[r_[0]].append((x_, at_) + r_[1:])
                if {r_[0] for _, r_ in sides if r_ is not None} == {"s", "d"}:
                    both.append((dict((r_[0], x_) for x_, r_ in sides), at_))
    eps_idx = rolls_idx = None
    if found["s"] and found["d"]:
        if len({f_[2].canon() for f_ in found["s"]}) != 1 or len({f_[2].canon() for f_ in found["d"]}) != 1 or len({f_[4] for f_ in found["s"]}) != 1 or len({f_[4] for f_ in found["d"]}) != 1 or not both:
            raise AnalysisError(f"{lq}: the selection tests read {len({f_[2].canon() for f_ in found['s']})} schedule(s) and {len({f_[2].canon() for f_ in found['d']})} random draw(s) at several entries: the exploration schedule / rolls are not identified (unrecognised form)")
        (_, eps_at, eps_p, eps_m, eps_idx), (_, rolls_at, rolls_p, rolls_m, rolls_idx) = found["s"][0], found["d"][0]
        eps, rolls, eps_where, rolls_where = "epsilon", "rolls", loc(mi, cfg.nodes[eps_at].ast), loc(mi, cfg.nodes[rolls_at].ast)
        sides, pred_at = both[0]
        pred = ast.Compare(left=sides["d"], ops=[ast.Lt()], comparators=[sides["s"]])
        if has_ls:
            pred = ast.BoolOp(op=ast.Or(), values=[parse_expr(ls_test[:-4]), pred])
        pred = ast.fix_missing_locations(ast.copy_location(pred, cfg.nodes[pred_at].ast))
    else:
        # ... or the locals bound to linear_schedule(...) and to the random draw, whatever they are called
        sched, draws = [], []
        for n in cfg.nodes:
            if n.kind == "stmt" and isinstance(n.ast, (ast.Assign, ast.AnnAssign)) and n.ast.value is not None and isinstance(strip_wrappers(n.ast.value), ast.Call):
                tg = n.ast.targets[0] if isinstance(n.ast, ast.Assign) and len(n.ast.targets) == 1 else getattr(n.ast, "target", None)
                if isinstance(tg, ast.Name):
                    try:
                        vp = nfp.poly(n.ast.value, sc_t, n.id)
                    except Exception:
                        continue
                    mv = nfp.meta.get(vp.single_atom() or "", {}) if vp.elems is None else {}
                    if _fn(mv) == "linear_schedule" and mv["fn"].startswith("rl_blox."):
                        sched.append((tg.id, n, vp, mv))
                    elif _fn(mv) in RANDOM_DRAWS and mv["fn"] == _fn(mv):
                        draws.append((tg.id, n, vp, mv))
        # ... of those, the ones the selection tests read (directly or through locals): a second schedule (PER's beta) / another draw is not the exploration's
        used, todo = set(), [(x.id, nid) for conds_, _ in items for t_, nid, _ in conds_ for x in ast.walk(t_) if isinstance(x, ast.Name)]
        while todo:
            nm_, at_ = todo.pop()
            if (nm_, at_) in used or len(used) > 400:
                continue
            used.add((nm_, at_))
            for d_ in cfg.defs_of(at_, nm_):
                if d_.kind in ("assign", "unpack", "aug", "walrus") and isinstance(getattr(d_, "value", None), ast.AST):
                    todo += [(x.id, d_.node) for x in ast.walk(d_.value) if isinstance(x, ast.Name)]
        used = {nm_ for nm_, _ in used}
        sched, draws = [s_ for s_ in sched if s_[0] in used], [s_ for s_ in draws if s_[0] in used]
        if len(sched) != 1 or len(draws) != 1:
            raise AnalysisError(f"{lq}: {len(sched)} locals bound to linear_schedule(...) and {len(draws)} to a random draw: the exploration schedule / rolls are not identified (unrecognised form)")
        (eps, eps_n, eps_p, eps_m), (rolls, rolls_n, rolls_p, rolls_m) = sched[0], draws[0]
        eps_where, rolls_where = loc(mi, eps_n.ast), loc(mi, rolls_n.ast)
        pred, pred_at = parse_expr(f"{ls_test}({rolls}[{cvar}] < {eps}[{cvar}])"), first_test

    def test_ob():
        verdict, info = selector_table(nfp, mi, cfg, items, pred, "random", "greedy", opaque=opaque, pred_at=pred_at)
        if verdict is None:
            raise AnalysisError(f"{lq}: action selection not comparable with the documented exploration test: {info}")
        shown = f"{ls_test}rolls[{rolls_idx}] < epsilon[{eps_idx}]" if eps_idx is not None else ast.unparse(pred)
        ck.ob("R4-greedy", lq, "exploration-test", verdict, f"random iff {shown} (truth table over {len(items)} path(s))", "" if verdict else f"documented: random action iff {shown}; differs in the world {info}", loc(mi, fn))
    ck.guard(test_ob)      # what is tested is judged here, which entries of which schedule / draw below
    okr = "random" in seen_kinds and all(o for _, o in seen_kinds["random"])
    ck.ob("R4-greedy", lq, "random-arm", okr, f"explore -> {sorted(a_ for a_, _ in seen_kinds.get('random', []))[:1]}", "" if okr else "exploring arm must sample the seeded action space of the environment", loc(mi, fn))
    okg = "greedy" in seen_kinds and all(o for _, o in seen_kinds["greedy"])
    ck.ob("R4-greedy", lq, "greedy-arm", okg, f"exploit -> {sorted(a_[:70] for a_, _ in seen_kinds.get('greedy', []))[:1]}", "" if okg else "the non-exploring arm must be greedy_policy(<online q_net>, <current observation>): acting on the target copy or another observation is not acting on the current estimates", loc(mi, fn))
    # schedule: linear_schedule(total_timesteps) with the documented defaults (arguments that repeat the defaults are dropped by the normal form)
    T = _role(total)
    if _unread(eps_p) or eps_m.get("kws", {}).get("**") is not None:
        raise AnalysisError(f"{lq}: arguments of the schedule `{eps_p.canon()[:80]}` are not read (unrecognised form)")
    ok = eps_m["args"] == [T] and not eps_m["kws"]
    ck.ob("R4-greedy", lq, "epsilon-schedule", ok, f"{eps} = {eps_p.canon()[:100]}", "" if ok else "epsilon must be the documented linear schedule (1.0 -> 0.1 over the first 10%) over total_timesteps", eps_where)

    def index(txt, what):
        """The index of an entry as a normal form over the parameters and the step counter."""
        try:
            p_ = nfp.poly(parse_expr(txt), Scope(None, mi, envl, lq), None)
        except Exception:
            p_ = None
        if p_ is None or _unread(p_):
            raise AnalysisError(f"{lq}: the entry `[{txt[:60]}]` of {what} is not read (unrecognised form)")
        return p_
    if ok and eps_idx is not None:
        # the probability of exploring in step t is the schedule's entry t: another entry of the documented schedule is another probability
        ip = index(eps_idx, "the schedule")
        if ip != _role(cvar) and not counts_steps:
            raise AnalysisError(f"{lq}: the schedule is read at `[{eps_idx[:60]}]` in a loop whose variable `{cvar}` is not read as the number of the training step (unrecognised form)")
        oki = ip == _role(cvar) or _differs(lq, "the entry of the schedule", ip, _role(cvar), pn)
        ck.ob("R4-greedy", lq, "epsilon-index", oki, f"epsilon[{eps_idx}] in step {cvar}", "" if oki else f"the exploration probability of step `{cvar}` must be the schedule's entry `{cvar}` (a run continued from global_step > 0 is further down the schedule, not at its start)", eps_where)
    # rolls: U[0,1), one per step
    args, kws = list(rolls_m["args"]), dict(rolls_m["kws"])
    if _unread(rolls_p) or "**" in kws:
        raise AnalysisError(f"{lq}: exploration rolls `{rolls_p.canon()[:80]}` are not read (unrecognised form)")
    ok = _fn(rolls_m) == "uniform"      # another distribution is a known other provenance
    if ok:
        sig = ["key", "shape", "dtype", "minval", "maxval"]
        b = {**kws, **dict(zip(sig, args))}
        if set(b) - set(sig) or "shape" not in b:
            raise AnalysisError(f"{lq}: arguments of the exploration rolls `{rolls_p.canon()[:80]}` (unrecognised form)")
        if b["shape"].elems is not None and len(b["shape"].elems) != 1:
            raise AnalysisError(f"{lq}: exploration rolls of shape `{b['shape'].canon()[:60]}`: reshapes are value-transparent in the normal form, the layout is not tracked (unrecognised form)")
        shp = b["shape"].elems[0] if b["shape"].elems is not None else b["shape"]
        for nm_, dv in (("minval", 0), ("maxval", 1)):
            if nm_ in b and not b[nm_].is_const():
                raise AnalysisError(f"{lq}: bound {nm_}=`{b[nm_].canon()[:40]}` of the exploration rolls is not a constant (unrecognised form)")
            ok = ok and (nm_ not in b or b[nm_].const_value() == dv)
        off = Poly({})
        if rolls_idx is not None and ok:
            off = _role(cvar) - index(rolls_idx, "the rolls")      # rolls[t - k] in step t: one roll per step of a run that starts at k when there are T - k (or T) of them
            if off != Poly({}) and (_unread(off) or cvar in re.findall(r"[A-Za-z_]\w*", off.canon()) or (shp != T and shp != T - off)):
                raise AnalysisError(f"{lq}: the rolls are read at `[{rolls_idx[:60]}]` in step `{cvar}` of `{shp.canon()[:60]}` draws: one roll per step is not read (unrecognised form)")
        ok = ok and (shp == T or shp == T - off or _differs(lq, "the number of exploration rolls", shp, T))
    ck.ob("R4-greedy", lq, "rolls-uniform", ok, f"{rolls} = {rolls_p.canon()[:100]}", "" if ok else "rolls must be U[0,1) draws, one per step", rolls_where)


def schedule_defaults(ck, repo, nf):
    from ..specialise import load_signatures
    q = "rl_blox.blox.schedules.linear_schedule"
    fn = repo.func(q)
    pn = param_names(fn)
    recorded = load_signatures().get(q) or ["total_timesteps", "start", "end", "fraction"]
    a = fn.args
    pos = a.posonlyargs + a.args
    dexpr = dict(zip([x.arg for x in pos[len(pos) - len(a.defaults):]], a.defaults)) if a.defaults else {}
    dexpr.update({x.arg: d for x, d in zip(a.kwonlyargs, a.kw_defaults) if d is not None})
    documented = {"start": Fraction(1), "end": Fraction(1, 10), "fraction": Fraction(1, 10)}
    got = {}
    for name in documented:
        cur = name if name in pn else (pn[recorded.index(name)] if name in recorded and recorded.index(name) < len(pn) else None)
        if cur is None or cur not in dexpr:
            raise AnalysisError(f"{q}: parameter `{name}` has no default any more (anchor vanished)")
        v = nf.poly(dexpr[cur], Scope(None, fn._module, {}, q), None)      # module-level constants are read through
        if not v.is_const():
            raise AnalysisError(f"{q}: default of `{cur}` = `{v.canon()[:60]}` is not a constant (unrecognised form)")
        got[name] = v.const_value()
    ok = got == documented
    ck.ob("R4-greedy", q, "defaults", ok, f"{ {k_: float(v_) for k_, v_ in got.items()} }", "" if ok else "documented exploration schedule is 1.0 -> 0.1 over the first 10% of the steps", loc(fn._module, fn))


def _transparent_decorators(repo, mi, fn) -> bool:
    """Decorators that do not change what a call returns (jit and friends)."""
    for d in fn.decorator_list:
        f = d.func if isinstance(d, ast.Call) else d
        r = repo.resolve_expr(mi, f) or ""
        if r == "functools.partial" and isinstance(d, ast.Call) and d.args:
            r = repo.resolve_expr(mi, d.args[0]) or ""
        if r not in ("jax.jit", "flax.nnx.jit", "jax.checkpoint", "flax.nnx.remat"):
            return False
    return True


def arity_scan(ck, repo):
    """R2 for the whole package: `a, b = f(x)` where every return of the repo function f is a tuple display of another length."""
    n = 0
    for qual, fn, mi in repo.all_functions():
        local = {x.id for x in ast.walk(fn) if isinstance(x, ast.Name) and isinstance(x.ctx, ast.Store)} | {x.name for x in ast.walk(fn) if isinstance(x, (ast.FunctionDef, ast.ClassDef)) and x is not fn} | set(param_names(fn))
        for st in ast.walk(fn):
            if isinstance(st, ast.Assign) and isinstance(st.targets[0], ast.Tuple) and isinstance(st.value, ast.Call) and isinstance(st.value.func, ast.Name) and st.value.func.id not in local:
                r = repo.resolve_name(mi, st.value.func.id)
                if r and r.startswith("rl_blox.") and repo.has(r):
                    try:
                        callee = repo.func(r)
                    except Exception:
                        continue
                    if not _transparent_decorators(repo, callee._module, callee) or any(isinstance(x, (ast.Yield, ast.YieldFrom)) for x in _own(callee, (ast.Yield, ast.YieldFrom))):
                        continue
                    ar = {len(x.value.elts) if isinstance(x.value, ast.Tuple) and not any(isinstance(e, ast.Starred) for e in x.value.elts) else 1 for x in _own(callee, ast.Return) if x.value is not None}
                    n += 1
                    if ar and 1 not in ar:
                        k = len(st.targets[0].elts)
                        if not any(isinstance(e, ast.Starred) for e in st.targets[0].elts):
                            ok = k in ar
                            ck.ob("R2-unpack-arity", qual, f"unpack:{r.rsplit('.', 1)[1]}", ok, f"`{short(st, 70)}` ; callee returns {sorted(ar)}", "" if ok else "number of unpack targets differs from the callee's return arity", loc(mi, st))
    ck.count("unpack-sites", n)


def _group(ck, fn, *args):
    """One independent rule group: an unrecognised form (AnalysisError) or an internal error of the reading leaves this group undecided, the others still run."""
    try:
        return ck.guard(fn, *args)
    except AnalysisError:
        raise
    except Exception as e:
        ck.incomplete.append(f"{getattr(fn, '__name__', fn)}{[a for a in args if isinstance(a, str)]}: not judged ({type(e).__name__}: {e})")


def run(ck, repo: Repo, tier: str):
    # heads: broadcast_to(x, <shape of the other operand>) is x under the arithmetic it is used in (value-transparent like asarray)
    nf = NF(repo, inline_depth=4, inline_calls=True, strip=set(STRIP) | {"broadcast_to"})
    nfp = NF(repo, inline_depth=1, inline_calls=False)
    _group(ck, gaussian_head, ck, repo, nf, PH + "GaussianTanhPolicy", True)
    _group(ck, gaussian_head, ck, repo, nf, PH + "GaussianPolicy", False)
    _group(ck, softmax_head, ck, repo, nf)
    _group(ck, greedy_tabular, ck, repo, NF(repo, inline_depth=2, inline_calls=True))
    _group(ck, greedy_network, ck, repo, NF(repo, inline_depth=2, inline_calls=True))
    _group(ck, epsilon_greedy_tabular, ck, repo, nfp)
    for lq, has_ls in (("rl_blox.algorithm.dqn.train_dqn", False), ("rl_blox.algorithm.nature_dqn.train_nature_dqn", True), ("rl_blox.algorithm.ddqn.train_ddqn", True), ("rl_blox.algorithm.per.train_ddqn_per", True)):
        _group(ck, dqn_loop, ck, repo, nfp, lq, has_ls)
    _group(ck, schedule_defaults, ck, repo, nfp)
    _group(ck, arity_scan, ck, repo)
    subs = repo.subclasses(PH + "StochasticPolicyBase")
    ck.floor("stochastic-heads", len(subs), 3)
    registered = {PH + "GaussianTanhPolicy", PH + "GaussianPolicy", PH + "SoftmaxPolicy"}
    for cq in subs:
        if cq not in registered:
            if set(repo.subclasses(cq)) & registered:
                continue      # an intermediate base class of registered heads: its methods are judged through the heads that inherit them
            ck.incomplete.append(f"{cq}: a stochastic policy head for which no sibling-agreement rules are recorded (not judged)")


_H = "rl_blox/blox/function_approximator/policy_head.py"
MUTANTS = [
    {"id": "c13-gauss-entropy-unpacks-mean", "file": _H, "rule": "R", "find": "        mean, log_var = self.net(observations)\n        log_std = jnp.clip(0.5 * log_var, -20.0, 2.0)\n        std = jnp.exp(log_std)\n        return dist.Normal(", "replace": "        mean, log_var = self(observations)\n        log_std = jnp.clip(0.5 * log_var, -20.0, 2.0)\n        std = jnp.exp(log_std)\n        return dist.Normal("},
    {"id": "c13-gauss-logp-no-half", "file": _H, "rule": "R1", "nth": 2, "find": "        log_std = jnp.clip(0.5 * log_var, -20.0, 2.0)", "replace": "        log_std = jnp.clip(log_var, -20.0, 2.0)"},
    {"id": "c13-gauss-sample-clip-range", "file": _H, "rule": "R1", "nth": 1, "find": "        log_std = jnp.clip(0.5 * log_var, -20.0, 2.0)", "replace": "        log_std = jnp.clip(0.5 * log_var, -10.0, 2.0)"},
    {"id": "c13-tanh-entropy-var", "file": _H, "rule": "R1", "find": "        mean, std = self(observations)\n        return dist.Normal(loc=mean, scale=std).entropy()", "replace": "        mean, std = self(observations)\n        return dist.Normal(loc=mean, scale=std**2).entropy()"},
    {"id": "c13-tanh-sample-no-mean", "file": _H, "rule": "R1", "find": "        return jax.random.normal(key, mean.shape) * std + mean", "replace": "        return jax.random.normal(key, mean.shape) * std"},
    {"id": "c13-tanh-logp-at-mean", "file": _H, "rule": "R3", "nth": 0, "find": "        return dist.MultivariateNormalDiag(loc=mean, scale_diag=std).log_prob(\n            action\n        )", "replace": "        return dist.MultivariateNormalDiag(loc=mean, scale_diag=std).log_prob(\n            mean\n        )"},
    {"id": "c13-gauss-logp-normal", "file": _H, "rule": "R3", "nth": 1, "find": "        return dist.MultivariateNormalDiag(loc=mean, scale_diag=std).log_prob(\n            action\n        )", "replace": "        return dist.Normal(loc=mean, scale=std).log_prob(\n            action\n        )"},
    {"id": "c13-softmax-sample-probs-as-logits", "file": _H, "rule": "R3", "find": "        return dist.Categorical(logits=self.logits(observation)).sample(", "replace": "        return dist.Categorical(logits=self(observation)).sample("},
    {"id": "c13-softmax-entropy-manual", "file": _H, "rule": "R3", "find": "        logits = self.logits(observations)\n        return dist.Categorical(logits=logits).entropy()", "replace": "        p = self(observations)\n        return -jnp.sum(p * jnp.log(p), axis=-1)"},
    {"id": "c13-softmax-no-softmax", "file": _H, "rule": "R3", "find": "        return nnx.softmax(self.logits(observation))", "replace": "        return nnx.sigmoid(self.logits(observation))"},
    {"id": "c13-eps-flipped", "file": "rl_blox/blox/value_policy.py", "rule": "R4", "find": "    if roll < epsilon:", "replace": "    if roll > epsilon:"},
    {"id": "c13-eps-le", "file": "rl_blox/blox/value_policy.py", "rule": "R4", "find": "    if roll < epsilon:", "replace": "    if roll <= epsilon:"},
    {"id": "c13-greedy-argmin", "file": "rl_blox/blox/value_policy.py", "rule": "R4", "find": "    return jnp.argmax(q_table[observation])", "replace": "    return jnp.argmin(q_table[observation])"},
    {"id": "c13-qpolicy-column", "file": "rl_blox/blox/q_policy.py", "rule": "R4", "find": "    return jnp.argmax(q_vals)", "replace": "    return jnp.argmax(q_vals, axis=0)[0]", "accept_error": True},
    {"id": "c13-ddqn-greedy-target", "file": "rl_blox/algorithm/ddqn.py", "rule": "R4", "find": "            action = greedy_policy(q_net, obs)", "replace": "            action = greedy_policy(q_target_net, obs)"},
    {"id": "c13-dqn-roll-flipped", "file": "rl_blox/algorithm/dqn.py", "rule": "R4", "find": "        if epsilon_rolls[step] < epsilon[step]:", "replace": "        if epsilon_rolls[step] > epsilon[step]:"},
    {"id": "c13-nature-and", "file": "rl_blox/algorithm/nature_dqn.py", "rule": "R4", "find": "        if step < learning_starts or epsilon_rolls[step] < epsilon[step]:", "replace": "        if step < learning_starts and epsilon_rolls[step] < epsilon[step]:"},
    {"id": "c13-per-schedule-end", "file": "rl_blox/algorithm/per.py", "rule": "R4", "find": "    epsilon = linear_schedule(total_timesteps)\n", "replace": "    epsilon = linear_schedule(total_timesteps, end=0.0)\n"},
    {"id": "c13-dqn-greedy-next-obs", "file": "rl_blox/algorithm/dqn.py", "rule": "R4", "find": "            action = greedy_policy(q_net, obs)", "replace": "            action = greedy_policy(q_net, next_obs) if step > global_step else greedy_policy(q_net, obs)"},
]
_HELPER_OK = "\n\ndef _diag_gaussian_log_prob(mean, std, action):\n    z = (action - mean) / std\n    return -jnp.sum(jnp.log(std) + 0.5 * z**2 + 0.5 * jnp.log(2.0 * jnp.pi), axis=-1)\n\n\nclass GaussianTanhPolicy(StochasticPolicyBase):"
_HELPER_BAD = "\n\ndef _diag_gaussian_log_prob(mean, std, action):\n    z = (action - mean) / std\n    return -jnp.sum(jnp.log(std) + 0.5 * z**2, axis=-1) - 0.5 * jnp.log(2.0 * jnp.pi)\n\n\nclass GaussianTanhPolicy(StochasticPolicyBase):"
_LP = "        return dist.MultivariateNormalDiag(loc=mean, scale_diag=std).log_prob(\n            action\n        )"
MUTANTS += [
    {"id": "c13-manual-density-constant-outside-sum", "file": _H, "rule": "R3", "all": True, "edits": [("\n\nclass GaussianTanhPolicy(StochasticPolicyBase):", _HELPER_BAD), (_LP, "        return _diag_gaussian_log_prob(mean, std, action)")]},
]
_VP, _QP, _DQN = "rl_blox/blox/value_policy.py", "rl_blox/blox/q_policy.py", "rl_blox/algorithm/dqn.py"
_IF_DQN = "        if epsilon_rolls[step] < epsilon[step]:\n            action = env.action_space.sample()\n        else:\n            action = greedy_policy(q_net, obs)\n"
_ROLLS = "    epsilon_rolls = jax.random.uniform(subkey, (total_timesteps,))\n"
_CHOICE = "        return random.choice(subkey, jnp.arange(len(q_table[observation])))"
_CAT_LP = "        return dist.Categorical(logits=self.logits(observation)).log_prob(\n            action\n        )"
_TANH_PARAMS = "\n\nfrom typing import NamedTuple\n\n\nclass GaussParams(NamedTuple):\n    mean: jnp.ndarray\n    std: jnp.ndarray\n\n\nclass GaussianTanhPolicy(StochasticPolicyBase):"
# violation paths that read the construct by meaning (bound by signature / role atoms): each keeps a mutant
MUTANTS += [
    {"id": "c13-softmax-logp-of-observation", "file": _H, "rule": "R3", "find": _CAT_LP, "replace": _CAT_LP.replace("            action\n", "            observation\n")},
    {"id": "c13-gauss-sample-fixed-seed", "file": _H, "rule": "R3", "find": "        return dist.MultivariateNormalDiag(loc=mean, scale_diag=std).sample(\n            seed=key,", "replace": "        return dist.MultivariateNormalDiag(loc=mean, scale_diag=std).sample(\n            seed=jax.random.PRNGKey(0),"},
    {"id": "c13-tanh-sample-fixed-key", "file": _H, "rule": "R3", "find": "        return jax.random.normal(key, mean.shape) * std + mean", "replace": "        return jax.random.normal(jax.random.PRNGKey(0), mean.shape) * std + mean"},
    {"id": "c13-softmax-sample-fixed-seed", "file": _H, "rule": "R3", "find": "        return dist.Categorical(logits=self.logits(observation)).sample(\n            seed=key,", "replace": "        return dist.Categorical(logits=self.logits(observation)).sample(\n            seed=jax.random.PRNGKey(0),"},
    {"id": "c13-tanh-call-no-half", "file": _H, "rule": "R1", "nth": 0, "find": "        log_std = jnp.clip(0.5 * log_var, -20.0, 2.0)", "replace": "        log_std = jnp.clip(log_var, -20.0, 2.0)"},
    {"id": "c13-gauss-entropy-mvn", "file": _H, "rule": "R3", "nth": 1, "find": "        return dist.Normal(loc=mean, scale=std).entropy()", "replace": "        return dist.MultivariateNormalDiag(loc=mean, scale_diag=std).entropy()"},
    {"id": "c13-gauss-logp-mean-is-log-var", "file": _H, "rule": "R1", "nth": 1, "find": _LP, "replace": _LP.replace("loc=mean", "loc=log_var")},
    {"id": "c13-gauss-entropy-manual-missing-half", "file": _H, "rule": "R3", "nth": 1, "find": "        return dist.Normal(loc=mean, scale=std).entropy()", "replace": "        return 0.5 * jnp.log(2.0 * jnp.pi) + jnp.log(std)"},
    {"id": "c13-softmax-probs-param", "file": _H, "rule": "R3", "find": "        return dist.Categorical(logits=self.logits(observation)).log_prob(", "replace": "        return dist.Categorical(probs=self(observation)).log_prob("},
    {"id": "c13-softmax-logits-scaled", "file": _H, "rule": "R3", "find": "        return self.net(observation)\n", "replace": "        return 2.0 * self.net(observation)\n"},
    {"id": "c13-softmax-axis0", "file": _H, "rule": "R3", "find": "        return nnx.softmax(self.logits(observation))", "replace": "        return nnx.softmax(self.logits(observation), axis=0)", "accept_error": True},
    {"id": "c13-greedy-whole-table", "file": _VP, "rule": "R4", "find": "    return jnp.argmax(q_table[observation])", "replace": "    return jnp.argmax(q_table)"},
    {"id": "c13-qpolicy-argmin", "file": _QP, "rule": "R4", "find": "    return jnp.argmax(q_vals)", "replace": "    return jnp.argmin(q_vals)"},
    {"id": "c13-eps-weighted-by-values", "file": _VP, "rule": "R4", "find": _CHOICE, "replace": _CHOICE[:-1] + ", p=q_table[observation] / jnp.sum(q_table[observation]))"},
    {"id": "c13-eps-draws-a-value", "file": _VP, "rule": "R4", "find": _CHOICE, "replace": "        return random.choice(subkey, q_table[observation])"},
    {"id": "c13-eps-never-greedy", "file": _VP, "rule": "R4", "find": "        return greedy_policy(q_table, observation)", "replace": _CHOICE},
    {"id": "c13-dqn-rolls-normal", "file": _DQN, "rule": "R4", "find": "    epsilon_rolls = jax.random.uniform(subkey, (total_timesteps,))", "replace": "    epsilon_rolls = jax.random.normal(subkey, (total_timesteps,))"},
    {"id": "c13-dqn-rolls-maxval", "file": _DQN, "rule": "R4", "find": "    epsilon_rolls = jax.random.uniform(subkey, (total_timesteps,))", "replace": "    epsilon_rolls = jax.random.uniform(subkey, (total_timesteps,), maxval=2.0)"},
    {"id": "c13-dqn-unwrapped-space", "file": _DQN, "rule": "R4", "find": "            action = env.action_space.sample()", "replace": "            action = env.unwrapped.action_space.sample()"},
    {"id": "c13-dqn-conditional-expression-flipped", "file": _DQN, "rule": "R4", "find": _IF_DQN, "replace": "        action = greedy_policy(q_net, obs) if epsilon_rolls[step] < epsilon[step] else env.action_space.sample()\n"},
    {"id": "c13-per-tests-beta-schedule", "file": "rl_blox/algorithm/per.py", "rule": "R4", "find": "        if step < learning_starts or epsilon_rolls[step] < epsilon[step]:", "replace": "        if step < learning_starts or epsilon_rolls[step] < beta[step]:"},
    {"id": "c13-schedule-default-end", "file": "rl_blox/blox/schedules.py", "rule": "R4", "find": "    end: float = 0.1,", "replace": "    end: float = 0.01,"},
    {"id": "c13-dqn-vectorised-test-flipped", "file": _DQN, "rule": "R4", "all": True, "edits": [(_ROLLS, _ROLLS + "    explore = np.asarray(epsilon_rolls > epsilon)\n"), ("        if epsilon_rolls[step] < epsilon[step]:", "        if explore[step]:")]},
    {"id": "c13-cem-update-returns-three", "file": "rl_blox/blox/cross_entropy_method.py", "rule": "R2", "find": "    return mean, var\n", "replace": "    return mean, var, elite\n"},
]
BENIGN = [
    {"id": "c13-b-manual-density-correct", "file": _H, "all": True, "edits": [("\n\nclass GaussianTanhPolicy(StochasticPolicyBase):", _HELPER_OK), (_LP, "        return _diag_gaussian_log_prob(mean, std, action)")]},
    {"id": "c13-b-tanh-sample-tfp", "file": _H, "find": "        return jax.random.normal(key, mean.shape) * std + mean", "replace": "        return mean + std * jax.random.normal(key, mean.shape)"},
    {"id": "c13-b-gauss-std-inline", "file": _H, "nth": 1, "find": "        log_std = jnp.clip(0.5 * log_var, -20.0, 2.0)\n        std = jnp.exp(log_std)", "replace": "        std = jnp.exp(jnp.clip(log_var * 0.5, -20.0, 2.0))"},
    {"id": "c13-b-softmax-entropy-inline", "file": _H, "find": "        logits = self.logits(observations)\n        return dist.Categorical(logits=logits).entropy()", "replace": "        return dist.Categorical(logits=self.logits(observations)).entropy()"},
    {"id": "c13-b-dqn-or-order", "file": "rl_blox/algorithm/nature_dqn.py", "find": "        if step < learning_starts or epsilon_rolls[step] < epsilon[step]:", "replace": "        if epsilon_rolls[step] < epsilon[step] or step < learning_starts:"},
]
# tolerance of the semantic readings (each was a false alarm of a textual reading): import alias, arguments bound by signature, values through locals /
# wrappers / records, equivalent spellings of lengths and constants, conditional expression instead of if / else, renamed locals, module constants
BENIGN += [
    {"id": "c13-b-tfp-import-alias", "file": _H, "all": True, "edits": [("import tensorflow_probability.substrates.jax.distributions as dist", "import tensorflow_probability.substrates.jax.distributions as tfd"), ("dist.", "tfd.")]},
    {"id": "c13-b-tfp-imported-names", "file": _H, "all": True, "edits": [("import tensorflow_probability.substrates.jax.distributions as dist", "from tensorflow_probability.substrates.jax.distributions import Categorical, MultivariateNormalDiag, Normal"), ("dist.", "")]},
    {"id": "c13-b-logprob-value-keyword-asarray", "file": _H, "nth": 0, "find": _LP, "replace": _LP.replace("            action\n", "            value=jnp.asarray(action)\n")},
    {"id": "c13-b-dist-in-local-positional", "file": _H, "nth": 1, "find": _LP, "replace": "        pi = dist.MultivariateNormalDiag(mean, std)\n        lp = pi.log_prob(value=action)\n        return lp"},
    {"id": "c13-b-sample-seed-positional", "file": _H, "find": "        return dist.MultivariateNormalDiag(loc=mean, scale_diag=std).sample(\n            seed=key,\n            sample_shape=(),\n        )", "replace": "        return dist.MultivariateNormalDiag(loc=mean, scale_diag=std).sample((), key)"},
    {"id": "c13-b-call-returns-local-tuple", "file": _H, "find": "        std = jnp.exp(log_std)\n        return mean, std\n", "replace": "        std = jnp.exp(log_std)\n        out = (mean, std)\n        return out\n"},
    {"id": "c13-b-call-returns-namedtuple", "file": _H, "all": True, "edits": [("\n\nclass GaussianTanhPolicy(StochasticPolicyBase):", _TANH_PARAMS), ("        std = jnp.exp(log_std)\n        return mean, std\n", "        std = jnp.exp(log_std)\n        return GaussParams(mean=mean, std=std)\n")]},
    {"id": "c13-b-tanh-implicit-broadcast", "file": _H, "find": "        mean = nnx.tanh(y) * jnp.broadcast_to(\n            self.action_scale.value, y.shape\n        ) + jnp.broadcast_to(self.action_bias.value, y.shape)\n        log_std", "replace": "        mean = nnx.tanh(y) * self.action_scale.value + self.action_bias.value\n        log_std"},
    {"id": "c13-b-tanh-noise-shaped-like-std", "file": _H, "find": "        return jax.random.normal(key, mean.shape) * std + mean", "replace": "        noise = jax.random.normal(key, shape=std.shape)\n        return noise * std + mean"},
    {"id": "c13-b-std-factor-outside-clip", "file": _H, "nth": 1, "find": "        log_std = jnp.clip(0.5 * log_var, -20.0, 2.0)\n        std = jnp.exp(log_std)", "replace": "        std = jnp.exp(0.5 * jnp.clip(log_var, -40.0, 4.0))"},
    {"id": "c13-b-clip-bounds-module-constants", "file": _H, "all": True, "edits": [("\n\nclass DeterministicTanhPolicy(nnx.Module):", "\n\nLOG_STD_MIN = -20.0\nLOG_STD_MAX: float = 2.0\n\n\nclass DeterministicTanhPolicy(nnx.Module):"), ("jnp.clip(0.5 * log_var, -20.0, 2.0)", "jnp.clip(0.5 * log_var, LOG_STD_MIN, LOG_STD_MAX)")]},
    {"id": "c13-b-softmax-of-net-output", "file": _H, "find": "        return nnx.softmax(self.logits(observation))", "replace": "        return jax.nn.softmax(self.net(observation), axis=-1)"},
    {"id": "c13-b-greedy-row-local-axis", "file": _VP, "find": "    return jnp.argmax(q_table[observation])", "replace": "    row = jnp.asarray(q_table)[observation]\n    return jnp.argmax(row, axis=-1)"},
    {"id": "c13-b-eps-count-from-shape", "file": _VP, "find": _CHOICE, "replace": "        n_actions = q_table[observation].shape[0]\n        return random.choice(subkey, jnp.arange(n_actions))"},
    {"id": "c13-b-eps-guard-clause", "file": _VP, "find": "    if roll < epsilon:\n" + _CHOICE + "\n    else:\n        return greedy_policy(q_table, observation)", "replace": "    if roll >= epsilon:\n        return greedy_policy(q_table, observation)\n    return random.choice(subkey, jnp.arange(q_table.shape[-1]))"},
    {"id": "c13-b-dqn-conditional-expression", "file": _DQN, "find": _IF_DQN, "replace": "        action = env.action_space.sample() if epsilon_rolls[step] < epsilon[step] else greedy_policy(q_net, obs)\n"},
    {"id": "c13-b-dqn-locals-renamed", "file": _DQN, "all": True, "edits": [("epsilon_rolls", "rolls"), ("    epsilon = linear_schedule(total_timesteps)", "    eps_schedule = linear_schedule(total_timesteps)"), ("epsilon[step]", "eps_schedule[step]")]},
    {"id": "c13-b-dqn-flag-alias-negated", "file": _DQN, "all": True, "edits": [("    step = global_step\n", "    step = global_step\n    online_net = q_net\n"), (_IF_DQN, "        explore = epsilon_rolls[step] < epsilon[step]\n        if not explore:\n            action = greedy_policy(online_net, np.asarray(obs))\n        else:\n            action = env.action_space.sample()\n")]},
    {"id": "c13-b-dqn-uniform-explicit-bounds", "file": _DQN, "find": "    epsilon_rolls = jax.random.uniform(subkey, (total_timesteps,))", "replace": "    epsilon_rolls = jax.random.uniform(key=subkey, shape=(total_timesteps,), minval=0.0, maxval=1.0)"},
    {"id": "c13-b-dqn-step-keyword-local", "file": _DQN, "find": "        next_obs, reward, terminated, truncated, info = env.step(int(action))", "replace": "        env_action = int(action)\n        next_obs, reward, terminated, truncated, info = env.step(action=env_action)"},
    {"id": "c13-b-dqn-schedule-defaults-spelled-out", "file": _DQN, "find": "    epsilon = linear_schedule(total_timesteps)", "replace": "    epsilon = linear_schedule(total_timesteps=total_timesteps, start=1.0, end=0.1)"},
    {"id": "c13-b-dqn-logs-epsilon", "file": _DQN, "find": _IF_DQN, "replace": _IF_DQN + "        if logger is not None and step % 100 == 0:\n            logger.record_stat(\"epsilon\", epsilon[step], step=step + 1, episode=episode)\n"},
    {"id": "c13-b-dqn-decided-once-for-all-steps", "file": _DQN, "all": True, "edits": [(_ROLLS, _ROLLS + "    explore = np.asarray(epsilon_rolls < epsilon)\n"), ("        if epsilon_rolls[step] < epsilon[step]:", "        explore_now = explore[step]\n        if explore_now:")]},
    {"id": "c13-b-schedule-defaults-module-constants", "file": "rl_blox/blox/schedules.py", "find": "def linear_schedule(\n    total_timesteps: int,\n    start: float = 1.0,\n    end: float = 0.1,\n    fraction: float = 0.1,", "replace": "EPS_START = 1.0\nEPS_END = 0.1\n\n\ndef linear_schedule(\n    total_timesteps: int,\n    start: float = EPS_START,\n    end: float = EPS_END,\n    fraction: float = 0.1,"},
]

# forms read since the third seed batch: the loop left by a guard clause, the step result kept whole in a local, decisions made once for all steps with
# logical_or / arange (in place or inside a helper), schedule and rolls that are not bound to locals, entries of the schedule / the rolls other than [step]
_NDQN = "rl_blox/algorithm/nature_dqn.py"
_WHILE = "    while step < total_timesteps:\n"
_WHILE_GUARD = "    while True:\n        if not step < total_timesteps:\n            break\n"
_IF_NDQN = "        if step < learning_starts or epsilon_rolls[step] < epsilon[step]:\n"
_STEP_DQN = "        next_obs, reward, terminated, truncated, info = env.step(int(action))\n"
_STEP_WHOLE = "        outcome = env.step(int(action))\n        next_obs, reward = outcome[0], outcome[1]\n        terminated, truncated, info = outcome[2:]\n"
_GREEDY_DQN = "            action = greedy_policy(q_net, obs)\n"
_EPS = "    epsilon = linear_schedule(total_timesteps)\n"
_MASK = "    warm_up = np.arange(total_timesteps) < learning_starts\n    explore = warm_up | np.asarray(epsilon_rolls < epsilon)\n"
_MASK_HELPER = "\n\ndef _exploring_steps(key, n_steps, first_step, warm_up):\n    eps = linear_schedule(N_STEPS)\n    rolls = jax.random.uniform(key, (n_steps - first_step,))\n    steps = np.arange(first_step, n_steps)\n    return np.logical_or(steps < warm_up, np.asarray(rolls < eps[first_step:]))\n\n\ndef train_nature_dqn("
MUTANTS += [
    {"id": "c13-dqn-guard-clause-loop-roll-flipped", "file": _DQN, "rule": "R4", "all": True, "edits": [(_WHILE, _WHILE_GUARD), ("        if epsilon_rolls[step] < epsilon[step]:", "        if epsilon_rolls[step] >= epsilon[step]:")]},
    {"id": "c13-dqn-whole-step-result-greedy-next", "file": _DQN, "rule": "R4", "all": True, "edits": [(_STEP_DQN, _STEP_WHOLE), (_GREEDY_DQN, "            action = greedy_policy(q_net, next_obs) if step > global_step else greedy_policy(q_net, obs)\n")]},
    {"id": "c13-nature-mask-warm-up-inverted", "file": _NDQN, "rule": "R4", "all": True, "edits": [(_ROLLS, _ROLLS + _MASK.replace("< learning_starts", ">= learning_starts")), (_IF_NDQN, "        if explore[step]:\n")]},
    {"id": "c13-nature-mask-and-instead-of-or", "file": _NDQN, "rule": "R4", "all": True, "edits": [(_ROLLS, _ROLLS + _MASK.replace("warm_up | np", "warm_up & np")), (_IF_NDQN, "        if explore[step]:\n")]},
    {"id": "c13-nature-schedule-restarts-on-continuation", "file": _NDQN, "rule": "R4", "all": True, "edits": [(_EPS, "    epsilon = linear_schedule(total_timesteps - global_step)\n"), (_IF_NDQN, "        if step < learning_starts or epsilon_rolls[step] < epsilon[step - global_step]:\n")]},
    {"id": "c13-nature-schedule-entry-of-run-step", "file": _NDQN, "rule": "R4-greedy", "find": _IF_NDQN, "replace": "        if step < learning_starts or epsilon_rolls[step] < epsilon[step - global_step]:\n"},
    {"id": "c13-nature-inline-schedule-end", "file": _NDQN, "rule": "R4", "all": True, "edits": [(_EPS, ""), (_IF_NDQN, "        if step < learning_starts or epsilon_rolls[step] < linear_schedule(total_timesteps, end=0.05)[step]:\n")]},
    {"id": "c13-nature-helper-mask-schedule-of-remaining-steps", "file": _NDQN, "rule": "R4", "all": True, "edits": [("\n\ndef train_nature_dqn(", _MASK_HELPER.replace("N_STEPS", "n_steps - first_step").replace("eps[first_step:]", "eps")), (_ROLLS, "    explore = _exploring_steps(subkey, total_timesteps, global_step, learning_starts)\n"), (_IF_NDQN, "        if explore[step - global_step]:\n")]},
]
BENIGN += [
    {"id": "c13-b-dqn-guard-clause-loop", "file": _DQN, "find": _WHILE, "replace": _WHILE_GUARD},
    {"id": "c13-b-nature-guard-clause-loop-else-break", "file": _NDQN, "find": _WHILE, "replace": "    while True:\n        if step < total_timesteps:\n            pass\n        else:\n            break\n"},
    {"id": "c13-b-dqn-whole-step-result", "file": _DQN, "find": _STEP_DQN, "replace": _STEP_WHOLE},
    {"id": "c13-b-dqn-whole-step-result-unpacked-later", "file": _DQN, "all": True, "edits": [(_STEP_DQN, "        result = env.step(int(action))\n        reward = result[1]\n        next_obs, _, terminated, truncated, info = result\n"), ("            obs = next_obs\n", "            carried = next_obs\n            obs = carried\n")]},
    {"id": "c13-b-nature-mask-once-for-all-steps", "file": _NDQN, "all": True, "edits": [(_ROLLS, _ROLLS + _MASK), (_IF_NDQN, "        if explore[step]:\n")]},
    {"id": "c13-b-nature-mask-logical-or-negated", "file": _NDQN, "all": True, "edits": [(_ROLLS, _ROLLS + "    exploit = ~np.logical_or(np.arange(total_timesteps) < learning_starts, np.asarray(epsilon_rolls < epsilon))\n"), (_IF_NDQN + "            action = env.action_space.sample()\n        else:\n" + _GREEDY_DQN, "        if exploit[step]:\n" + _GREEDY_DQN + "        else:\n            action = env.action_space.sample()\n")]},
    {"id": "c13-b-nature-schedule-and-rolls-inline", "file": _NDQN, "all": True, "edits": [(_EPS, ""), (_ROLLS, ""), (_IF_NDQN, "        if step < learning_starts or jax.random.uniform(subkey, (total_timesteps,))[step] < linear_schedule(total_timesteps)[step]:\n")]},
    {"id": "c13-b-nature-rolls-for-the-remaining-steps", "file": _NDQN, "all": True, "edits": [(_ROLLS, "    epsilon_rolls = jax.random.uniform(subkey, (total_timesteps - global_step,))\n"), (_IF_NDQN, "        if step < learning_starts or epsilon_rolls[step - global_step] < epsilon[step]:\n")]},
    {"id": "c13-b-nature-entries-in-locals", "file": _NDQN, "find": _IF_NDQN, "replace": "        roll, eps_now = epsilon_rolls[step], float(epsilon[step])\n        if step < learning_starts or roll < eps_now:\n"},
    {"id": "c13-b-nature-helper-mask-documented-schedule", "file": _NDQN, "all": True, "edits": [("\n\ndef train_nature_dqn(", _MASK_HELPER.replace("N_STEPS", "n_steps")), (_ROLLS, "    explore = _exploring_steps(subkey, total_timesteps, global_step, learning_starts)\n"), (_IF_NDQN, "        if explore[step - global_step]:\n")]},
]
_EPS_REST = "    epsilon = linear_schedule(total_timesteps)[global_step:]\n"
MUTANTS += [
    {"id": "c13-nature-rest-of-schedule-read-at-step", "file": _NDQN, "rule": "R4-greedy", "find": _EPS, "replace": _EPS_REST},
]
BENIGN += [
    {"id": "c13-b-nature-rest-of-schedule-read-at-run-step", "file": _NDQN, "all": True, "edits": [(_EPS, _EPS_REST), (_IF_NDQN, "        if step < learning_starts or epsilon_rolls[step] < epsilon[step - global_step]:\n")]},
    {"id": "c13-b-nature-device-mask-bool", "file": _NDQN, "all": True, "edits": [("import jax\n", "import jax\nimport jax.numpy as jnp\n"), (_ROLLS, _ROLLS + "    explore = jnp.logical_or(jnp.arange(total_timesteps) < learning_starts, epsilon_rolls < epsilon)\n"), (_IF_NDQN, "        if bool(explore[step]):\n")]},
]
