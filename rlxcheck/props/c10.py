"""C10 - actions sent to the environment respect the action-space bounds."""
from __future__ import annotations

import ast

from ..loops import find_env_loop, strip_wrappers
from ..nf import NF, Scope, Poly, parse_expr
from ..repo import Repo, loc, short, AnalysisError, positional_params, param_names, bind_call
from ..resolve import Resolver
from ..sem import same_ingredients
from ..identity import _project_expr
from ..cfg import Def

EXPLANATION = (
    "The exploration / target-smoothing samplers and the tanh head are compared as normal forms with the documented formulas "
    "(clip domination is part of the formula: the returned value *is* clip(., low, high)); parameters are identified by their position in "
    "the recorded signature, not by name. The factories are resolved through partial / jit / closures and the bound arguments are read by "
    "signature (positional or keyword, unpacked displays): (low, high, 0.5*(high-low), noise[, noise_clip]) from the same action space. "
    "In addition the sampler is judged *as its factory builds it*: the sampler's body evaluated with the values the factory binds must be the "
    "documented law in terms of the factory's arguments (space, noise level, noise clip) - so a change of the calling convention between "
    "the two (who multiplies by half the range) is decided by its effect; a sampler whose parameter list is no longer the recorded one in "
    "length / order is judged through its factory only. "
    "In every continuous-control loop the env.step argument is traced (reaching definitions) to either the seeded space sampler or the "
    "clipped sampler built from env.action_space. CEM: the proposal formula bounds the standard deviation by half the distance to "
    "either bound and truncates the normal at +-2 (2 * 0.5 <= 1) - a missing cap is reported only with a numeric witness (concrete bounds, "
    "mean and variance for which |Z|*std exceeds the distance to the bound); the update is a convex combination (coefficients alpha and "
    "1-alpha); the PETS planning chain (bounds stacked from the action space, mid-point initial plan and padding, plan[0] returned, "
    "candidates from sample_fn) is read from normal forms along the paths. A difference is reported only when the value that was read is "
    "built from the documented quantities (or has a known other provenance); any other form is left undecided. "
    "That a convex combination of in-box points stays in the box is the standard argument; the checker decides its premises."
)
TRUSTED = ["jnp.clip(x, lo, hi) lies in [lo, hi]; tanh in [-1, 1]; truncated_normal(key, -2, 2) in [-2, 2]; gymnasium Box.low/high/sample", "convexity: alpha*m + (1-alpha)*mean(elites) lies in the box if m and the elites do"]
RULES = {
    "R1-clip-domination": "sample_actions / sample_target_actions return clip(., action_low, action_high); factories bind (space.low, space.high, 0.5*(high-low), ...) in order; every env.step argument of the continuous loops derives from such a sampler on env.action_space or from action_space.sample()",
    "R2-noise-law": "eps == noise * scale * normal(key, action.shape); smoothing adds clip(eps, -scale*noise_clip, +scale*noise_clip); the sampler with the arguments bound by its factory is that law with scale = 0.5*(space.high - space.low), low/high = space.low/high",
    "R3-tanh-head": "scale_output == tanh(y) * (high-low)/2 + (high+low)/2 (both tanh heads), __call__ applies it to the network output",
    "R4-cem-proposal": "samples == truncated_normal(key, -2, 2) * sqrt(min(min((0.5*(mean-lb))^2, (0.5*(ub-mean))^2), var)) + mean",
    "R5-planning-chain": "PETS: lb/ub stacked from action_space.low/high, mean update convex, initial plan / padding = mid-point, executed action = plan[0] of the optimised mean",
}

LOOPS = ["rl_blox.algorithm.ddpg.train_ddpg", "rl_blox.algorithm.td3.train_td3", "rl_blox.algorithm.td3_lap.train_td3_lap", "rl_blox.algorithm.td7.train_td7", "rl_blox.algorithm.mrq.train_mrq"]


def _env(fn):
    return {p: Poly.atom(p, {p}, {p}) for p in param_names(fn)}


def _fill(spec, fn, qual):
    """The documented formula with `{i}` standing for the i-th parameter of the recorded signature (roles by position, not by name)."""
    import re
    ps = param_names(fn)
    n = max([int(i) for i in re.findall(r"\{(\d+)\}", spec)] + [-1]) + 1
    if len(ps) < n:
        raise AnalysisError(f"{qual}: fewer than {n} parameters (signature changed, anchor vanished)")
    return spec.format(*ps)


def _unread(p: Poly) -> bool:
    """The normal form contains something the engine did not read: a merge of definitions, an opaque construct, a helper temporary."""
    import re
    c = p.canon()
    return "φ(" in c or "⟦" in c or re.search(r"__i\d+\b", c) is not None


def _decide(ck, nf, rule, site, key, got: Poly, wants, shown, why, where, extra=()):
    """Equal to (one of the spellings of) the documented value -> holds.  Different -> a violation only with evidence (see _evidence):
    a numeric witness, or at least a value built from the documented ingredients; anything else is a form not read here."""
    wants = wants if isinstance(wants, (list, tuple)) else [wants]
    ok = any(got == w for w in wants)
    wit = "" if ok else _evidence(nf, site, key, got, wants, extra=extra)
    ck.ob(rule, site, key, ok, shown, "" if ok else why + (f" ({wit})" if wit else ""), where)
    return ok


def _method(ck, repo, cls_qual, name):
    """(owner class, FunctionDef) of a method looked up through the base classes."""
    m = repo.method(cls_qual, name)
    ck.need(m is not None, f"{cls_qual}.{name} not found (anchor vanished)")
    owner, fn = m
    fn._module = repo.cls(owner)._module
    return owner, fn


def _value_returns(cfg):
    return [n for n in cfg.nodes if n.kind == "stmt" and isinstance(n.ast, ast.Return) and n.ast.value is not None]


def _is_loop_header(n) -> bool:
    return n.kind == "for" or (n.kind == "test" and isinstance(n.ast, ast.While))


def _paths_second_round(cfg, src, stops, max_paths: int = 200):
    """Paths from ``src`` to a node of ``stops`` on which every node is executed at most twice - so a loop that is left from inside its
    body (`while True: if done: break; ...`) has a path with one completed round.  Same literal bookkeeping for contradictory branch
    conditions as sympath.enumerate_paths (literals over reassigned names are dropped)."""
    out, stack = [], [(src, [], frozenset())]
    while stack:
        x, path, assume = stack.pop()
        if x in stops and path:
            out.append(path + [(x, None)])
            if len(out) > max_paths:
                raise AnalysisError("too many paths through the loop (unrecognised form)")
            continue
        node = cfg.nodes[x]
        for s, lab in node.succ:
            a2 = assume
            if node.kind == "test" and hasattr(node.ast, "test") and lab in (True, False):
                v = cfg.eval3(node.ast.test, dict(a2), x)
                if v is not None and v != lab:
                    continue
                lits = cfg._lits(node.ast.test, lab, x)
                if any((k, not vv) in a2 for k, vv in lits):
                    continue
                a2 = a2 | frozenset(lits)
            a2 = cfg.propagate(s, a2)
            if sum(1 for p_, _ in path if p_ == s) + (1 if s == x else 0) >= 2:
                continue
            stack.append((s, path + [(x, lab)], a2))
    return out


def _completes_a_round(cfg, path) -> bool:
    """The path runs the body of some loop: it takes the entering edge of a `for`, or comes back to a loop header."""
    hdrs = [n_ for n_, _ in path if _is_loop_header(cfg.nodes[n_])]
    return any(cfg.nodes[n_].kind == "for" and lab_ is True for n_, lab_ in path) or len(hdrs) != len(set(hdrs))


def _conditionals_as_paths(fn: ast.FunctionDef) -> ast.FunctionDef:
    """Copy of a function in which a simple statement that contains a conditional expression - as the assigned value or deeper, e.g. as an
    argument of the call whose result is assigned - is written as the if / else over two copies of the statement, so that the two cases
    are two paths.  (The expressions read here have no side effects, so evaluating the test first changes no value.)  The original tree
    is not touched."""
    from ..expand import clone
    new = clone(fn)
    budget = [24]

    def first_ifexp(node):
        todo = [node]
        while todo:
            x = todo.pop(0)
            if isinstance(x, ast.IfExp):
                return x
            if isinstance(x, (ast.Lambda, ast.ListComp, ast.SetComp, ast.DictComp, ast.GeneratorExp)):
                continue
            todo += list(ast.iter_child_nodes(x))
        return None

    def with_replaced(st, target, repl):
        class R(ast.NodeTransformer):
            def visit_IfExp(self, n):
                return repl if n is target else self.generic_visit(n)
        return R().visit(st)

    def split(st):
        if not isinstance(st, (ast.Assign, ast.AnnAssign, ast.AugAssign, ast.Return, ast.Expr)) or budget[0] <= 0:
            return [st]
        ie = first_ifexp(st)
        if ie is None:
            return [st]
        budget[0] -= 1
        # the copies are made through a marker so that the very node is replaced in each of them
        a, b = clone(st), clone(st)
        ia, ib = first_ifexp(a), first_ifexp(b)
        a, b = with_replaced(a, ia, ia.body), with_replaced(b, ib, ib.orelse)
        return [ast.copy_location(ast.If(test=clone(ie.test), body=split(a), orelse=split(b)), st)]

    def block(stmts):
        out = []
        for st in stmts:
            if not isinstance(st, (ast.FunctionDef, ast.AsyncFunctionDef, ast.ClassDef)):
                for f in ("body", "orelse", "finalbody"):
                    v = getattr(st, f, None)
                    if isinstance(v, list) and v and isinstance(v[0], ast.stmt):
                        setattr(st, f, block(v))
                for h in getattr(st, "handlers", []) or []:
                    h.body = block(h.body)
            out += split(st)
        return out
    new.body = block(new.body)
    ast.fix_missing_locations(new)
    for parent in ast.walk(new):
        for child in ast.iter_child_nodes(parent):
            child._parent = parent
    if hasattr(fn, "_module"):
        new._module = fn._module
    return new


def _node_containing(cfg, sub):
    """CFG node whose statement / test contains the expression object ``sub``."""
    for n in cfg.nodes:
        if n.ast is None:
            continue
        roots = [n.ast.test] if n.kind == "test" and hasattr(n.ast, "test") else [n.ast.iter] if n.kind == "for" and hasattr(n.ast, "iter") else [n.ast] if n.kind == "stmt" else []
        for r in roots:
            if any(x is sub for x in ast.walk(r)):
                return n.id
    return None


def _roles(fn, roles, skip=0):
    ps = param_names(fn)
    r = roles or {}
    return {"names": ps[skip:], "low": ps[r["low"]] if "low" in r else None, "high": ps[r["high"]] if "high" in r else None, "pos": [ps[i] for i in r.get("pos", [])]}


BLOCKS = ("minimum", "maximum", "clip", "where", "abs")


def formula(ck, repo, nf, rule, q, spec, key="formula", self_class=None, alts=(), roles=None):
    """``spec`` (and the alternative spellings ``alts``) name the parameters by position: `{0}` is the first parameter (self for methods).
    roles: positions of the lower / upper bound and of the positive parameters (for the numeric witness)."""
    if self_class:
        owner, fn = _method(ck, repo, self_class, q)
        qual = f"{self_class}.{q}"
        cfg = nf.cfg_of(fn)
        ps = param_names(fn)
        ck.need(len(ps) >= 1, f"{qual}: no receiver parameter")
        env = {p: Poly.atom(p, {p}, {p}) for p in ps[1:]}
        sc = Scope(cfg, fn._module, env, qual, self_class=self_class)
        rets = _value_returns(cfg)
        if len(rets) != 1:
            raise AnalysisError(f"{qual}: {len(rets)} return statements (unrecognised form)")
        got = nf.poly(rets[0].ast.value, sc, rets[0].id)
    else:
        fn = repo.func(q)
        qual = q
        env = _env(fn)
        try:
            got = nf.return_poly(q, env)
        except ValueError:
            return _formula_per_path(ck, repo, nf, rule, fn, qual, _fill(spec, fn, qual), key, roles)
    wants = [nf.poly(parse_expr(_fill(s_, fn, qual)), Scope(None, fn._module, env, qual, self_class=self_class), None) for s_ in (spec,) + tuple(alts)]
    want = wants[0]
    ok = any(got == w for w in wants)
    if not ok and "φ(" in got.canon() and not self_class:
        return _formula_per_path(ck, repo, nf, rule, fn, qual, _fill(spec, fn, qual), key, roles)
    wit = "" if ok else _evidence(nf, qual, "the value", got, wants, roles=_roles(fn, roles, 1 if self_class else 0), tokens_extra=BLOCKS)
    ck.ob(rule, qual, key, ok, f"{got.canon()[:170]}", "" if ok else f"differs from the documented formula `{want.canon()[:170]}`" + (f" ({wit})" if wit else ""), loc(fn._module, fn))
    return got


def _param_default(fn, name):
    a = fn.args
    pos = a.posonlyargs + a.args
    for p_, d_ in zip(pos[len(pos) - len(a.defaults):], a.defaults):
        if p_.arg == name:
            return d_
    for p_, d_ in zip(a.kwonlyargs, a.kw_defaults):
        if p_.arg == name and d_ is not None:
            return d_
    return None


def _formula_per_path(ck, repo, nf, rule, fn, qual, spec, key, roles=None):
    """The value depends on branches over parameters: compare path by path.  A parameter the documented formula does not mention is
    taken at its default (the formula documents the default configuration); for a parameter of the formula, the falsy arm of a
    truthiness test is the case `parameter == 0` (None is outside the documented domain)."""
    from ..sympath import enumerate_paths, PathEval
    mi = fn._module
    from ..sem import with_callees_inlined
    fn2 = with_callees_inlined(repo, fn, qual)
    if fn2 is not None:
        ck._keep = getattr(ck, "_keep", []) + [fn2]
        fn = fn2
    cfg = nf.cfg_of(fn)
    params = param_names(fn)
    spec_names = {n.id for n in ast.walk(parse_expr(spec)) if isinstance(n, ast.Name)}
    n_cmp = 0
    seen = set()
    for path in enumerate_paths(cfg, cfg.entry, {cfg.exit}):
        zero, feasible = set(), True
        facts = []
        for nid, lab in path:
            n = cfg.nodes[nid]
            if n.kind != "test" or not hasattr(n.ast, "test") or lab not in (True, False):
                continue
            t = n.ast.test
            neg = False
            while isinstance(t, ast.UnaryOp) and isinstance(t.op, ast.Not):
                t, neg = t.operand, not neg
            kind = None
            if isinstance(t, ast.Constant) or (isinstance(t, ast.Compare) and len(t.ops) == 1 and isinstance(t.left, ast.Constant) and isinstance(t.comparators[0], ast.Constant) and t.comparators[0].value is None and isinstance(t.ops[0], (ast.Is, ast.IsNot))):
                # a test that is constant after an option was fixed / a helper was expanded (`None is not None`): only one arm exists
                truth = bool(t.value) if isinstance(t, ast.Constant) else ((t.left.value is None) == isinstance(t.ops[0], ast.Is))
                if lab != (truth != neg):
                    feasible = False
                continue
            if isinstance(t, ast.Name):
                pname, kind = t.id, "truth"
            elif isinstance(t, ast.Compare) and len(t.ops) == 1 and isinstance(t.left, ast.Name) and isinstance(t.comparators[0], ast.Constant) and t.comparators[0].value is None and isinstance(t.ops[0], (ast.Is, ast.IsNot)):
                pname, kind = t.left.id, "none"
                neg = neg != isinstance(t.ops[0], ast.IsNot)
            if kind is None or pname not in params or len(cfg.defs_of(nid, pname)) != 1 or cfg.defs_of(nid, pname)[0].kind != "param":
                raise AnalysisError(f"{qual}: the value depends on the branch `{short(n.ast.test, 50)}`, which is not a test of a parameter (unrecognised form)")
            holds = (lab != neg)       # truth value of `p` / `p is None` on this path
            if pname not in spec_names:
                d_ = _param_default(fn, pname)
                if not isinstance(d_, ast.Constant):
                    raise AnalysisError(f"{qual}: the value depends on `{pname}`, which the documented formula does not mention and which has no constant default")
                dv = (bool(d_.value) if kind == "truth" else d_.value is None)
                if dv != holds:
                    feasible = False
            else:
                if kind == "none":
                    if holds:
                        feasible = False     # None is outside the documented domain of a formula parameter
                elif not holds:
                    zero.add(pname)
                facts.append(f"{pname} {'is None' if kind == 'none' and holds else 'is not None' if kind == 'none' else '!= 0' if holds else '== 0'}")
        if not feasible:
            continue
        env = {p_: (Poly.const(0) if p_ in zero else Poly.atom(p_, {p_}, {p_})) for p_ in params}
        pe = PathEval(nf, cfg, mi, qual, env)
        ret = None
        for nid, lab in path:
            n = cfg.nodes[nid]
            if n.kind == "stmt" and isinstance(n.ast, ast.Return) and n.ast.value is not None:
                ret = pe.ev(n.ast.value)
            pe.step(nid, lab)
        if ret is None:
            raise AnalysisError(f"{qual}: a path returns no value")
        want = nf.poly(parse_expr(spec), Scope(None, mi, env, qual), None)
        sig = (ret.canon(), tuple(sorted(zero)))
        if sig in seen:
            continue
        seen.add(sig)
        ok = ret == want
        where_ = ', '.join(facts) or 'default configuration'
        want_sym = nf.poly(parse_expr(spec), Scope(None, mi, {p_: Poly.atom(p_, {p_}, {p_}) for p_ in params}, qual), None)
        wit = "" if ok else _evidence(nf, qual, f"the value ({where_})", ret, [want], roles=_roles(fn, roles), universe=[want_sym], fixed={p_: 0.0 for p_ in zero}, tokens_extra=BLOCKS)
        n_cmp += 1
        ck.ob(rule, qual, key if n_cmp == 1 else f"{key}:{n_cmp}", ok, f"{ret.canon()[:150]}  [{where_}]",
              "" if ok else f"on the path where {', '.join(facts) or 'the defaults apply'} the value differs from the documented formula `{want.canon()[:150]}`" + (f" ({wit})" if wit else ""), loc(mi, fn))
    if not n_cmp:
        raise AnalysisError(f"{qual}: no path of the function is in the documented domain (unrecognised form)")
    return None


UNIT_AXIS_VIEWS = ("[None]", "[jax.numpy.newaxis]", "[numpy.newaxis]", "[None, :]", "[jax.numpy.newaxis, :]", "[numpy.newaxis, :]", "[None, ...]", "[None, Ellipsis]")


def _without_leading_unit_axis(nf, p: Poly, depth: int = 0) -> Poly:
    """The per-step vector behind `atleast_2d(v)`, `atleast_1d(v)`, `v[None]`, `expand_dims(v, 0)`, `reshape(v, (1, -1))`: the same numbers
    with (at most) a leading axis of length one added - for a row that is then copied along that axis the two are the same row."""
    a = p.single_atom()
    m = nf.meta.get(a or "", {})
    f = (m.get("fn") or "").split(".")[-1]
    args, kws = m.get("args", []), m.get("kws", {})
    if depth > 4 or not a or not args:
        return p
    inner = None
    if f in ("atleast_2d", "atleast_1d", "asarray", "array") and len(args) == 1 and not kws:
        inner = args[0]
    elif f == "subscript" and any(a.endswith(v) and a[:-len(v)] == args[0].canon() for v in UNIT_AXIS_VIEWS):
        inner = args[0]
    elif f == "expand_dims" and ((len(args) == 2 and not kws and args[1].canon() == "0") or (len(args) == 1 and set(kws) == {"axis"} and kws["axis"].canon() == "0")):
        inner = args[0]
    elif f == "reshape" and not kws and ((len(args) == 2 and args[1].elems is not None and [e.canon() for e in args[1].elems] == ["1", "-1"]) or (len(args) == 3 and [e.canon() for e in args[1:]] == ["1", "-1"])):
        inner = args[0]      # reshape(v, (1, -1)) and v.reshape(1, -1)
    return p if inner is None else _without_leading_unit_axis(nf, inner, depth + 1)


def _stacked_rows(nf, pv, sc):
    """('tiled' | 'interleaved', base canon, count canon) when the value is a per-step quantity laid out over a leading axis:
    tiled = row t is a copy of the base; interleaved = flat element-wise repetition cut into rows (rows mix components)."""
    a = pv.single_atom()
    m = nf.meta.get(a or "", {})
    f = m.get("fn", "").split(".")[-1]
    args, kws = m.get("args", []), m.get("kws", {})
    if f in ("asarray", "array") and len(args) == 1:
        inner = _stacked_rows(nf, args[0], sc)
        if inner:
            return inner
    if f in ("vstack", "stack", "array", "asarray") and len(args) == 1 and (not kws or (set(kws) == {"axis"} and kws["axis"].canon() == "0")):
        t = args[0].canon()
        if t.startswith("⟦") and t.endswith("⟧"):
            try:
                comp = ast.parse(t[1:-1], mode="eval").body
            except SyntaxError:
                return None
            if isinstance(comp, (ast.ListComp, ast.GeneratorExp)) and len(comp.generators) == 1 and not comp.generators[0].ifs:
                g = comp.generators[0]
                tn = {x.id for x in ast.walk(g.target) if isinstance(x, ast.Name)}
                if not tn & {x.id for x in ast.walk(comp.elt) if isinstance(x, ast.Name)} and isinstance(g.iter, ast.Call) and isinstance(g.iter.func, ast.Name) and g.iter.func.id == "range" and len(g.iter.args) == 1:
                    return ("tiled", nf.poly(comp.elt, sc, None).canon(), nf.poly(g.iter.args[0], sc, None).canon())
        return None
    if f == "tile" and len(args) == 2 and args[1].elems is not None and len(args[1].elems) == 2 and args[1].elems[1].canon() == "1":
        # tile(b, (H, 1)): H copies of the row b, whether b is the per-step vector itself or that vector with a leading axis of length one
        return ("tiled", _without_leading_unit_axis(nf, args[0]).canon(), args[1].elems[0].canon())
    if f == "repeat" and len(args) == 2 and kws.get("axis") is not None and kws["axis"].canon() == "0":
        bm = nf.meta.get(args[0].single_atom() or "", {})
        at_ = args[0].single_atom() or ""
        if bm.get("fn") == "subscript" and (at_.endswith("[None]") or at_.endswith("[jax.numpy.newaxis]") or at_.endswith("[numpy.newaxis]")):
            return ("tiled", bm["args"][0].canon(), args[1].canon())
    if f == "broadcast_to" and len(args) == 2:
        shp = args[1]
        base_shape = f"{args[0].canon()}.shape"
        lead = [a_ for a_ in shp.atoms() if a_.startswith("(") and a_.endswith(")") and "," not in a_]
        if base_shape in shp.atoms() and len(lead) == 1 and len(shp.terms) == 2:
            return ("tiled", args[0].canon(), lead[0][1:-1])
    if f == "reshape" and len(args) >= 2:
        im = nf.meta.get(args[0].single_atom() or "", {})
        jf = im.get("fn", "").split(".")[-1]
        if jf in ("repeat", "tile") and len(im.get("args", [])) == 2 and not im.get("kws") and im["args"][1].canon() == args[1].canon():
            return ("interleaved" if jf == "repeat" else "tiled", im["args"][0].canon(), args[1].canon())
        if jf in ("repeat", "tile") and len(im.get("args", [])) == 2 and not im.get("kws") and len(args) == 2:
            # the target shape written as one value: (H, n) or (H,) + base.shape - the flat repetition of the per-step vector cut into H rows
            shp, cnt, base = args[1], im["args"][1].canon(), im["args"][0].canon()
            lead = None
            if shp.elems is not None and len(shp.elems) == 2:
                lead = shp.elems[0].canon()
            else:
                ls = [a_ for a_ in shp.atoms() if a_.startswith("(") and a_.endswith(")") and "," not in a_]
                rest = [a_ for a_ in shp.atoms() if a_ not in ls]
                # the trailing dimensions are the shape of the per-step vector (`x.shape`) or of the box it is a bound of (`space.shape` for
                # `space.low` / `space.high`)
                if len(ls) == 1 and len(shp.terms) == 2 and len(rest) == 1 and rest[0] in (f"{base}.shape", base.rsplit(".", 1)[0] + ".shape"):
                    lead = ls[0][1:-1]
            if lead is not None and lead == cnt:
                return ("interleaved" if jf == "repeat" else "tiled", base, cnt)
    return None


def _min_leaves(nf, atom):
    """Leaves of a nested minimum(...) atom (canonical texts)."""
    m = nf.meta.get(atom, {})
    if m.get("fn") in ("minimum", "min") and len(m.get("args", [])) >= 2 and not m.get("kws"):
        out = []
        for a in m["args"]:
            sa = a.single_atom()
            out += _min_leaves(nf, sa) if sa and nf.meta.get(sa, {}).get("fn") in ("minimum", "min") else [a]
        return out
    return None


def _short_fn(nf, atom):
    return (nf.meta.get(atom or "", {}).get("fn") or "").split(".")[-1]


def _is_view_of(nf, atom, base):
    """``atom`` is ``base`` or ``base[...]`` (an indexing / newaxis view of it)."""
    while atom != base and nf.meta.get(atom, {}).get("fn") == "subscript" and nf.meta[atom].get("args"):
        nxt = nf.meta[atom]["args"][0].single_atom()
        if not nxt:
            return False
        atom = nxt
    return atom == base


def _cem_parts(nf, CS, env, names):
    """('clip', args) | ('affine', T, leaves, squared) | raises AnalysisError.  leaves: Polys whose minimum is the std (squared=False) or the variance (squared=True).
    names = (mean, lb, ub): the parameters of cem_sample by position."""
    MEAN, LB, UB = names
    try:
        got = nf.return_poly(CS, env)
    except ValueError as e:
        raise AnalysisError(f"{CS}: {e} (unrecognised form)")
    sa = got.single_atom()
    if sa and _short_fn(nf, sa) == "clip" and len(nf.meta[sa].get("args", [])) == 3 and not nf.meta[sa].get("kws"):
        return ("clip", list(nf.meta[sa]["args"]), sa)
    mean_b = [a for a in got.atoms() if _is_view_of(nf, a, env[MEAN].single_atom() or MEAN)]
    if len(got.terms) != 2 or len(mean_b) != 1:
        raise AnalysisError(f"{CS}: candidates `{got.canon()[:140]}` are neither clip(., lb, ub) nor noise*std + mean (unrecognised idiom)")
    noise_term = [(m_, c_) for m_, c_ in got.terms.items() if not any(a == mean_b[0] for a, _ in m_)]
    if not (len(noise_term) == 1 and noise_term[0][1] == 1 and len(noise_term[0][0]) == 2):
        # the std may have collapsed to 0 under a substitution: then only the mean term is left
        raise AnalysisError(f"{CS}: perturbation term of `{got.canon()[:140]}` not recognised")
    atoms = [a for a, e in noise_term[0][0]]
    z = next((a for a in atoms if _short_fn(nf, a) == "truncated_normal"), None)
    if z is None:
        if any(_short_fn(nf, a) == "normal" for a in atoms) and not _unread(got):
            return ("untruncated", got.canon())
        raise AnalysisError(f"{CS}: the random factor of `{got.canon()[:140]}` is not read (unrecognised idiom)")
    sd = next((a for a in atoms if a != z), None)
    zm = nf.meta.get(z, {})
    za, zk = zm.get("args", []), zm.get("kws", {})
    try:
        lo, hi = float((za[1] if len(za) > 1 else zk["lower"]).const_value()), float((za[2] if len(za) > 2 else zk["upper"]).const_value())
    except Exception:
        raise AnalysisError(f"{CS}: truncation bounds of `{z[:80]}` are not constants")
    T = max(abs(lo), abs(hi))
    inner = sd
    while nf.meta.get(inner, {}).get("fn") == "subscript" and nf.meta[inner].get("args"):
        nxt = nf.meta[inner]["args"][0].single_atom()
        if not nxt:
            break
        inner = nxt
    im = nf.meta.get(inner, {})
    is_sqrt = (im.get("fn") == "sqrt" and im.get("args")) or (im.get("fn") == "pow" and len(im.get("args", [])) == 2 and im["args"][1].canon() == "1/2")
    if is_sqrt:
        V = im["args"][0]
        va = V.single_atom()
        leaves = _min_leaves(nf, va) if va else None
        return ("affine", T, leaves if leaves is not None else [V], True)
    leaves = _min_leaves(nf, inner)
    return ("affine", T, leaves if leaves is not None else [Poly.atom(inner)], False)


VIEWS = ("[jax.numpy.newaxis]", "[numpy.newaxis]", "[None]", "[None, :]", "[jax.numpy.newaxis, :]", "[Ellipsis]", "[...]")


class _Num:
    """Numeric reading of a *scalar* normal form (all the formulas of this property are elementwise, so scalars suffice): parameters take
    the given values, clip / minimum / maximum / abs / sqrt / tanh ... are computed, broadcasting and added axes are the identity, and
    every other quantity (a call of the policy, a random draw, an attribute of a space) is an *opaque* value that is a fixed pseudo-random
    function of its name and of the values of its arguments - so two spellings of the same quantity get the same value.  ``used`` records
    the opaque quantities a value was computed from.  strict: opaque quantities are not allowed (the value must be computable)."""

    def __init__(self, nf, vals: dict, seed=0, strict: bool = False):
        self.nf, self.vals, self.seed, self.strict = nf, dict(vals), seed, strict
        self.used = set()

    def _rnd(self, key):
        import random
        import zlib
        return random.Random(zlib.crc32(repr((self.seed, key)).encode())).uniform(-2.0, 2.0)

    def opaque(self, key):
        if self.strict:
            return None
        self.used.add(f"{key[0]}:{key[1]}" if key[0] in ("name", "index") else key[0])     # which quantity (not: of which arguments)
        return self._rnd(key)

    def poly(self, p: Poly, depth: int = 0):
        if depth > 14:
            return None
        if p.elems is not None:
            xs = [self.poly(e, depth + 1) for e in p.elems]
            return None if any(x is None for x in xs) else self.opaque(("tuple",) + tuple(round(x, 9) for x in xs))
        tot = 0.0
        for mono, c in p.terms.items():
            v = float(c)
            for a, e in mono:
                x = self.atom(a, depth)
                if x is None:
                    return None
                try:
                    v *= x ** e
                except (ZeroDivisionError, OverflowError, ValueError):
                    return None
                if isinstance(v, complex):
                    return None
            tot += v
        return tot

    def atom(self, a: str, depth: int):
        if a in self.vals:
            return self.vals[a]
        m = self.nf.meta.get(a, {})
        f = m.get("fn") or ""
        short_ = f.split(".")[-1]
        args, kws = m.get("args", []), m.get("kws", {})
        if not f or (not args and not kws):
            return self.opaque(("name", a))
        xs = [self.poly(x, depth + 1) for x in args]
        ks = {k: self.poly(v, depth + 1) for k, v in kws.items()}
        if any(x is None for x in xs) or any(v is None for v in ks.values()):
            return None
        r = lambda x: round(x, 9)   # noqa: E731
        try:
            if f == "attr" and len(xs) == 1 and not ks:
                name = a[len(args[0].canon()) + 1:]
                if name == "high":      # a box: low < high
                    lo = self.opaque(("attr:low", r(xs[0])))
                    self.used.add("attr:high")
                    return None if lo is None else lo + 0.5 + abs(self._rnd(("attr:high", r(xs[0]))))
                return self.opaque(("shape" if name == "shape" else "attr:" + name, r(xs[0])))
            if f in ("subscript", "proj") and len(xs) == 1 and not ks:
                idx = a[len(args[0].canon()):]
                return xs[0] if idx in VIEWS else self.opaque(("index", idx, r(xs[0])))
            if not ks:
                if short_ in ("abs", "absolute", "fabs") and len(xs) == 1:
                    return abs(xs[0])
                if short_ in ("minimum", "min", "fmin") and len(xs) >= 2:
                    return min(xs)
                if short_ in ("maximum", "max", "fmax") and len(xs) >= 2:
                    return max(xs)
                if short_ == "sqrt" and len(xs) == 1:
                    return xs[0] ** 0.5 if xs[0] >= 0 else None
                if short_ == "square" and len(xs) == 1:
                    return xs[0] * xs[0]
                if short_ == "pow" and len(xs) == 2:
                    v = xs[0] ** xs[1]
                    return None if isinstance(v, complex) else v
                if short_ == "tanh" and len(xs) == 1:
                    import math
                    return math.tanh(xs[0])
                if short_ == "clip" and len(xs) == 3:
                    return min(max(xs[0], xs[1]), xs[2])       # clip(x, lo, hi) == minimum(maximum(x, lo), hi), symmetric in (x, lo)
                if short_ == "broadcast_to" and len(xs) == 2:
                    return xs[0]
                if short_ == "shape" and len(xs) == 1:
                    return self.opaque(("shape", r(xs[0])))
        except (ZeroDivisionError, OverflowError, ValueError):
            return None
        return self.opaque((short_, tuple(r(x) for x in xs), tuple(sorted((k, r(v)) for k, v in ks.items()))))


def _witness(nf, got: Poly, want: Poly, roles: dict | None = None, extra=(), universe=(), fixed: dict | None = None):
    """('differ', text): for concrete values of the parameters the value that was read and the documented value are different numbers, and
    the value that was read is computed from opaque quantities of the documented formula only (plus ``extra`` function names, plus those
    of the polys in ``universe``) - a witness.  ('same', None): equal on every sample (an equivalent spelling as far as one can tell).
    ('foreign', None): differs, but involves quantities the documented formula does not have.  (None, None): not computable.
    roles: {'low': name, 'high': name, 'pos': [names], 'names': [all parameter names]}."""
    roles = roles or {}
    names = list(roles.get("names", []))
    foreign = False
    for seed in range(64):
        base = _Num(nf, {}, seed)
        vals = {n_: base._rnd(("param", n_)) for n_ in names}
        for n_ in roles.get("pos", []):
            vals[n_] = 0.1 + abs(vals[n_])
        if roles.get("low") and roles.get("high"):
            # narrow and wide boxes: an outer clip that always saturates would hide what happens inside it
            vals[roles["high"]] = vals[roles["low"]] + 0.3 + abs(base._rnd(("range",))) * (0.5 if seed % 2 else 6.0)
        vals.update(fixed or {})
        ng, nw = _Num(nf, vals, seed), _Num(nf, vals, seed)
        g, w = ng.poly(got), nw.poly(want)
        for u in universe:
            nw.poly(u)
        if g is None or w is None:
            return None, None
        if abs(g - w) > 1e-9 * (1 + abs(w)):
            if {k for k in ng.used if k not in extra} <= nw.used:
                shown = ", ".join(f"{k}={v:.3g}" for k, v in sorted(vals.items())[:8])
                return "differ", f"numerically different, e.g. {shown + ': ' if shown else ''}{g:.5g} instead of {w:.5g}"
            foreign = True
    return ("foreign", None) if foreign else ("same", None)


def _evidence(nf, site, what, got: Poly, wants, roles=None, extra=(), universe=(), fixed=None, tokens_extra=()):
    """The value that was read differs from (every spelling of) the documented one.  Returns the witness text for a violation, raises
    AnalysisError when the difference is not established: unread parts, an equivalent spelling on all samples, foreign quantities; when the
    values cannot be computed the weaker criterion `built from the documented ingredients only` decides."""
    wants = list(wants) if isinstance(wants, (list, tuple)) else [wants]
    if _unread(got):
        raise AnalysisError(f"{site}: {what} `{got.canon()[:110]}` is not completely read (unrecognised form)")
    res_ = [_witness(nf, got, w, roles, extra, universe, fixed) for w in wants]
    if any(v == "same" for v, _ in res_):
        raise AnalysisError(f"{site}: {what} `{got.canon()[:110]}` agrees with the documented value on every sample: another spelling of it (unrecognised form)")
    hit = next((t for v, t in res_ if v == "differ"), None)
    if hit is not None:
        return hit
    if any(v is None for v, _ in res_):
        from ..sem import ingredient_tokens
        allowed = set(tokens_extra) | set(extra)
        for u in universe:
            allowed |= ingredient_tokens(u)
        if any(same_ingredients(got, w, tuple(allowed)) for w, (v, _) in zip(wants, res_) if v is None):
            return ""
        raise AnalysisError(f"{site}: {what} `{got.canon()[:110]}` is not written with the documented building blocks (unrecognised form)")
    raise AnalysisError(f"{site}: {what} `{got.canon()[:110]}` involves quantities the documented formula does not have (unrecognised form)")


def _ratio(p: Poly, d: Poly):
    """k with p == k*d, else None."""
    if not p.terms or not d.terms or len(p.terms) != len(d.terms):
        return None
    ks = set()
    for m_, c_ in d.terms.items():
        if m_ not in p.terms:
            return None
        ks.add(p.terms[m_] / c_)
    return ks.pop() if len(ks) == 1 else None


def _nonneg(nf, p: Poly, d1: dict) -> bool:
    """Known to be >= 0 whenever lb <= mean <= ub: |.|, sqrt, a square, a non-negative multiple of a distance to a bound."""
    a = p.single_atom()
    if a and _short_fn(nf, a) in ("abs", "absolute", "sqrt", "square"):
        return True
    return any((k := _ratio(p, d)) is not None and k >= 0 for d in d1.values())


def _caps(nf, leaf: Poly, d1: dict, power: int, depth: int = 0):
    """[(side, k)]: leaf <= k * (distance to that bound)^power for every mean inside the box (the documented domain of the planner).
    Read from k*d^power itself, from |k'*d|^power, and from c*minimum(a, b, ..)^e with non-negative a, b (then it is <= c*a^e, c*b^e)."""
    out = [(side, k) for side, d in d1.items() if (k := _ratio(leaf, d.pow(power))) is not None and k >= 0]
    if out or depth > 4 or len(leaf.terms) != 1:
        return out
    (mono, c), = leaf.terms.items()
    if c <= 0 or len(mono) != 1 or mono[0][1] < 1:
        return []
    atom, e = mono[0]
    m = nf.meta.get(atom, {})
    args = m.get("args", [])
    if m.get("kws"):
        return []
    if _short_fn(nf, atom) in ("abs", "absolute") and len(args) == 1 and e == power:
        return [(side, c * abs(k) ** e) for side, d in d1.items() if (k := _ratio(args[0], d)) is not None]
    if _short_fn(nf, atom) in ("minimum", "min") and len(args) >= 2 and all(_nonneg(nf, a_, d1) for a_ in args):
        for a_ in args:
            out += _caps(nf, a_.pow(e).scale(c), d1, power, depth + 1)
    return out


def _cem_sample(ck, repo, nf, CS):
    """candidates = Z * S + mean with |Z| <= T and S = min(leaves): bounded if for each bound some leaf is <= c*distance with T*c <= 1
    (for means inside the box); without such a cap a violation needs a numeric witness; or the candidates are an outermost clip(., lb, ub).  The roles (mean, lb, ub) are the parameters 0, 4, 5 of the recorded signature."""
    fn = repo.func(CS)
    mi = fn._module
    env = _env(fn)
    where = loc(mi, fn)
    ps = param_names(fn)
    ck.need(len(ps) >= 6, f"{CS}: signature changed (anchor vanished)")
    MEAN, LB, UB = names = (ps[0], ps[4], ps[5])
    parts = _cem_parts(nf, CS, env, names)
    if parts[0] == "clip":
        # clip(x, lo, hi) is stored with its first two arguments in canonical order: the lower bound is whichever of them is a view of a bound
        def _view(p_, nm):
            return bool(p_.single_atom()) and _is_view_of(nf, p_.single_atom(), nm)
        a3 = parts[1]
        los = [x for x in a3[:2] if _view(x, LB) or _view(x, UB)]
        hi_ = a3[2]
        if len(los) != 1 or not (_view(hi_, LB) or _view(hi_, UB)):
            raise AnalysisError(f"{CS}: candidates are `{parts[2][:100]}`: the clipping interval is not read as the bounds (unrecognised form)")
        ok = _view(los[0], LB) and _view(hi_, UB)
        ck.ob("R4-cem-proposal", CS, "bounded", ok, f"return {parts[2][:120]}", "" if ok else f"candidates are clipped to [{los[0].canon()[:30]}, {hi_.canon()[:30]}], not to [{LB}, {UB}]", where)
        return
    if parts[0] == "untruncated":
        ck.ob("R4-cem-proposal", CS, "bounded", False, f"return {parts[1][:140]}", "the perturbation is not drawn from a truncated distribution: candidates are unbounded", where)
        return
    _, T, leaves, squared = parts
    sc = Scope(None, mi, env, CS)
    d1 = {"lower": nf.poly(parse_expr(f"{MEAN} - {LB}"), sc, None), "upper": nf.poly(parse_expr(f"{UB} - {MEAN}"), sc, None)}
    caps = [c_ for l in leaves for c_ in _caps(nf, l, d1, 2 if squared else 1)]
    kl = [k for side_, k in caps if side_ == "lower"]
    ku = [k for side_, k in caps if side_ == "upper"]
    lim = (lambda k: T * T * float(k)) if squared else (lambda k: T * float(k))
    verdicts = []
    for side, ks, bound in (("lower", kl, LB), ("upper", ku, UB)):
        if ks:
            okk = lim(min(ks)) <= 1.0 + 1e-12
            verdicts.append((side, okk, f"|Z| <= {T:g}, {'variance' if squared else 'std'} <= {float(min(ks)):g}*{'(distance to ' + bound + ')^2' if squared else 'distance to ' + bound} for {MEAN} inside the box",
                             "" if okk else f"|Z|*std can reach {(lim(min(ks)) ** 0.5 if squared else lim(min(ks))):.3g} times the distance to the {side} bound (> 1): candidates can cross it"))
            continue
        # no recognised cap for this side: look for a witness - concrete (lb, ub, mean, var) for which |Z|*std exceeds the distance to
        # the bound (the normal form of the std is evaluated numerically; elementwise, so scalars suffice).  No witness is no proof.
        VAR = ps[1]
        witness, unreadable = None, False
        for lbv, ubv in ((-1.0, 1.0), (0.5, 3.0), (-7.0, -2.0), (-0.01, 1000.0)):
            for fr in (0.0, 1.0, 0.1, 0.5, 0.9):
                for vv in (1e-6, 1.0, 1e6):
                    mv = lbv + fr * (ubv - lbv)
                    vals = {LB: lbv, UB: ubv, MEAN: mv, VAR: vv}
                    xs = [_Num(nf, vals, strict=True).poly(l) for l in leaves]
                    if any(x is None for x in xs) or (squared and min(xs) < 0):
                        unreadable = True
                        continue
                    sd = min(xs) ** 0.5 if squared else min(xs)
                    dist = (mv - lbv) if side == "lower" else (ubv - mv)
                    if witness is None and T * abs(sd) > dist * (1 + 1e-9) + 1e-12:
                        witness = (lbv, ubv, mv, vv, sd, dist)
        if witness is None:
            raise AnalysisError(f"{CS}: the sampling std min{[l.canon()[:50] for l in leaves]} has no cap of the form c*(distance to the {side} bound) and {'its value cannot be computed' if unreadable else 'no counterexample was found'}: boundedness not decidable here (unrecognised form)")
        lbv, ubv, mv, vv, sd, dist = witness
        verdicts.append((side, False, f"std = {'sqrt of ' if squared else ''}min{[l.canon()[:60] for l in leaves]}",
                         f"witness {LB}={lbv:g}, {UB}={ubv:g}, {MEAN}={mv:g}, {VAR}={vv:g}: std = {sd:.4g}, so |Z|*std reaches {T * abs(sd):.4g} > {dist:.4g} = distance to the {side} bound: candidates cross it"))
    ok = all(v[1] for v in verdicts)
    ck.ob("R4-cem-proposal", CS, "bounded", ok, "; ".join(v[2] for v in verdicts), "; ".join(v[3] for v in verdicts if v[3]), where)


SPEC_SA = "jnp.clip({4}({5}) + {3} * {2} * jax.random.normal({6}, {4}({5}).shape), {0}, {1})"
SPEC_STA = "jnp.clip({5}({6}) + jnp.clip({3} * {2} * jax.random.normal({7}, {5}({6}).shape), -({2} * {4}), {2} * {4}), {0}, {1})"
SA, STA = "rl_blox.algorithm.ddpg.sample_actions", "rl_blox.algorithm.td3.sample_target_actions"
MSA, MSTA = "rl_blox.algorithm.ddpg.make_sample_actions", "rl_blox.algorithm.td3.make_sample_target_actions"


class _NF(NF):
    """The normal forms of this property also read the functional spellings of the arithmetic operators (`operator.add(a, b)` is
    `a + b`): they are mapped to the array functions of the same meaning, which the engine already reduces to polynomial arithmetic."""
    OPERATOR = {"add": "add", "sub": "subtract", "mul": "multiply", "truediv": "true_divide", "neg": "negative", "pow": "power", "abs": "abs"}

    def libop(self, mi, func):
        op = super().libop(mi, func)
        if op is None:
            dotted = self.repo.resolve_expr(mi, func)
            if dotted and dotted.startswith("operator.") and dotted[len("operator."):] in self.OPERATOR:
                return self.OPERATOR[dotted[len("operator."):]]
        return op


def _bound_polys(repo, nf, t, sc, at, site):
    """(callee, {parameter name: value}) for a resolved partial, the values as normal forms in the scope that builds the partial.  The
    arguments are bound by the callee's signature (positional prefix and keywords alike); `*pack` is unpacked when the pack is read as a
    display of known length (`args = (a, b, c); partial(f, *args)`)."""
    tfn = repo.func(t.qual)
    tps = positional_params(tfn)
    vals = []
    for a in t.prefix:
        if isinstance(a, ast.Starred):
            pk = nf.poly(a.value, sc, at)
            if pk.elems is None or _unread(pk):
                raise AnalysisError(f"{site}: the unpacked arguments `*{short(a.value, 40)}` are not read as a display of known length (unrecognised form)")
            vals += list(pk.elems)
        else:
            vals.append(nf.poly(a, sc, at))
    if len(vals) > len(tps):
        raise AnalysisError(f"{site}: more arguments bound than the signature of {t.qual.rsplit('.', 1)[1]} has (unrecognised form)")
    bound = dict(zip(tps, vals))
    for k, v in t.kwargs.items():
        if k in bound or k not in param_names(tfn):
            raise AnalysisError(f"{site}: keyword `{k}` of the partial does not bind a free parameter (unrecognised form)")
        bound[k] = nf.poly(v, sc, at)
    return tfn, bound


SPEC_SA_BUILT = "jnp.clip(POLICY(OBS) + {1} * (0.5 * ({0}.high - {0}.low)) * jax.random.normal(KEY, POLICY(OBS).shape), {0}.low, {0}.high)"
SPEC_STA_BUILT = ("jnp.clip(POLICY(OBS) + jnp.clip({1} * (0.5 * ({0}.high - {0}.low)) * jax.random.normal(KEY, POLICY(OBS).shape), "
                  "-((0.5 * ({0}.high - {0}.low)) * {2}), (0.5 * ({0}.high - {0}.low)) * {2}), {0}.low, {0}.high)")
SAMPLER_ARGS = ("POLICY", "OBS", "KEY")     # what the training routines pass to the built sampler, in this order


def _built_sampler(ck, repo, nf, res, fq, target, spec, n_extra, implied=False):
    """The sampler *as built by its factory*: the body of the sampler evaluated with the values the factory binds to its parameters (by the
    sampler's own signature) must be the documented law in terms of the factory's arguments - the action space, the noise level and the
    noise clip.  Who multiplies by half the range - the factory, the sampler, or each a part - does not matter; that it happens exactly once
    for the noise and once for its clip does."""
    fn = repo.func(fq)
    mi = fn._module
    cfg = nf.cfg_of(fn)
    fps = param_names(fn)
    ck.need(len(fps) >= 1 + n_extra, f"{fq}: signature changed (anchor vanished)")
    if set(fps) & set(SAMPLER_ARGS):
        raise AnalysisError(f"{fq}: parameter names collide with the role names of this check (unrecognised form)")
    rets = _value_returns(cfg)
    if len(rets) != 1:
        raise AnalysisError(f"{fq}: {len(rets)} return statements (unrecognised form)")
    t = res.resolve(rets[0].ast.value, mi, res.cfg_of(fn), res.cfg_of(fn).node_of(rets[0].ast).id)
    if t is None or t.qual != target:
        return      # which routine the factory wraps is judged by R1 / wraps-sampler
    sc = Scope(cfg, mi, _env(fn), fq)
    tfn, bound = _bound_polys(repo, nf, t, sc, rets[0].id, fq)
    free = []
    for p_ in param_names(tfn):
        if p_ in bound:
            continue
        d_ = _param_default(tfn, p_)
        if d_ is None:
            free.append(p_)
        elif isinstance(d_, ast.Constant):
            bound[p_] = nf.poly(d_, Scope(None, tfn._module, {}, target), None)
        else:
            raise AnalysisError(f"{fq}: parameter `{p_}` of {target.rsplit('.', 1)[1]} is left at a default that is not a constant (unrecognised form)")
    if len(free) != len(SAMPLER_ARGS) or tfn.args.vararg or tfn.args.kwarg:
        raise AnalysisError(f"{fq}: the built sampler leaves {free} open, not (policy, observation, key) (unrecognised form)")
    if any(_unread(v) for v in bound.values()):
        raise AnalysisError(f"{fq}: an argument bound to {target.rsplit('.', 1)[1]} is not completely read (unrecognised form)")
    env = dict(bound)
    env.update({p_: Poly.atom(r_, {r_}, {r_}) for p_, r_ in zip(free, SAMPLER_ARGS)})
    try:
        got = nf.return_poly(target, env)
    except ValueError as e:
        got = None
        why_not = f"{e}: the built sampler is not read as one expression"
    if got is not None and "φ(" in got.canon():
        got, why_not = None, f"the value of the built sampler depends on branches of {target.rsplit('.', 1)[1]}"
    if got is None:
        if not implied:
            raise AnalysisError(f"{fq}: {why_not} (unrecognised form)")
        return      # recorded convention: the sampler's own law (path by path) and the bound arguments are decided separately and imply this
    wenv = _env(fn)
    wenv.update({r_: Poly.atom(r_, {r_}, {r_}) for r_ in SAMPLER_ARGS})
    want = nf.poly(parse_expr(_fill(spec, fn, fq)), Scope(None, mi, wenv, fq), None)
    ok = got == want
    wit = "" if ok else _evidence(nf, fq, "the sampler as built by the factory", got, [want], roles={"names": list(fps) + list(SAMPLER_ARGS), "pos": fps[1:1 + n_extra]}, tokens_extra=BLOCKS)
    ck.ob("R2-noise-law", fq, "built-sampler", ok, f"{target.rsplit('.', 1)[1]} with the factory's arguments = {got.canon()[:170]}",
          "" if ok else f"differs from the documented law `{want.canon()[:200]}` in terms of the factory's arguments" + (f" ({wit})" if wit else ""), loc(mi, fn))


def _bound_by_signature(repo, t):
    """parameter name -> bound expression for a resolved partial (positional prefix and keywords alike)."""
    tfn = repo.func(t.qual)
    tps = positional_params(tfn)
    if len(t.prefix) > len(tps) or any(isinstance(a, ast.Starred) for a in t.prefix):
        raise AnalysisError(f"{t.qual}: more arguments bound than the signature has / starred arguments (unrecognised form)")
    bound = dict(zip(tps, t.prefix))
    for k, v in t.kwargs.items():
        if k in bound or k not in param_names(tfn):
            raise AnalysisError(f"{t.qual}: keyword `{k}` of the partial does not bind a free parameter (unrecognised form)")
        bound[k] = v
    return tfn, bound


def _other_routine(site, qual, wanted):
    """A callable that resolves to another routine of the package is a known other provenance only when that routine already existed
    when the signatures were recorded (then its meaning is known to be a different one); a new name may be the same routine renamed."""
    from ..specialise import load_signatures
    if qual not in load_signatures():
        raise AnalysisError(f"{site}: `{qual}` is used where {wanted.rsplit('.', 1)[1]} is expected; it is not a routine this check knows (unrecognised form)")


def _foreign(p: Poly, params) -> bool:
    """A completely read value that is built from the routine's own parameters and is not some view of an action space (a wrapper's
    / the unwrapped environment's `action_space` may well be the same box): a known other provenance."""
    from ..sem import ingredient_tokens
    toks = ingredient_tokens(p)
    return not _unread(p) and bool(toks & set(params)) and "action_space" not in toks


def run(ck, repo: Repo, tier: str):
    nf = _NF(repo, inline_depth=3)
    res = Resolver(repo)
    _plain_guard = ck.guard

    def _guard(f, *a, **kw):
        """A rule group that trips over a shape of code it was not written for leaves the question undecided; it never crashes the run."""
        try:
            return _plain_guard(f, *a, **kw)
        except (KeyError, IndexError, AttributeError, TypeError, ValueError, RecursionError) as e:
            ck.incomplete.append(f"{getattr(f, '__name__', 'rule group')}: {type(e).__name__}: {str(e)[:120]} (unrecognised form)")
            return None
    # A sampler whose parameter list no longer has the recorded length (or order) has another calling convention: what its positions mean is not
    # known any more, so the obligations that read it position by position are not stated for it.  What the training routines use is the
    # sampler *as the factory builds it*, and that is decided whatever the division of labour between factory and sampler is.
    from ..specialise import load_signatures
    recorded = load_signatures()
    def _other_convention(q):
        # another number of parameters, or the recorded parameters in another order (renamed parameters keep their positions)
        now, then = param_names(repo.func(q)), recorded.get(q)
        return then is not None and (len(now) != len(then) or (sorted(now) == sorted(then) and list(now) != list(then)))
    other_convention = {q: _other_convention(q) for q in (SA, STA)}
    for fq_, tq_, spec_, n_extra_ in ((MSA, SA, SPEC_SA_BUILT, 1), (MSTA, STA, SPEC_STA_BUILT, 2)):
        _guard(_built_sampler, ck, repo, nf, res, fq_, tq_, spec_, n_extra_, implied=not other_convention[tq_])
    for q_, spec_, roles_ in ((SA, SPEC_SA, {"low": 0, "high": 1, "pos": [2, 3]}), (STA, SPEC_STA, {"low": 0, "high": 1, "pos": [2, 3, 4]})):
        if other_convention[q_]:
            ck.note(f"{q_}: the parameter list ({', '.join(param_names(repo.func(q_)))}) is not the recorded one in length / order: judged through its factory only")
            continue
        _guard(formula, ck, repo, nf, "R2-noise-law", q_, spec_, roles=roles_)
    def _section_1():
        # clip domination: the outermost operation of the returned value is clip(., low, high) with the first two parameters as bounds
        for q, spec, roles in ((SA, SPEC_SA, {"low": 0, "high": 1, "pos": [2, 3]}), (STA, SPEC_STA, {"low": 0, "high": 1, "pos": [2, 3, 4]})):
            if other_convention[q]:
                continue
            fn = repo.func(q)
            ps = param_names(fn)
            ck.need(len(ps) >= 2, f"{q}: signature changed (anchor vanished)")
            lo, hi = ps[0], ps[1]
            sc1 = nf.scope_for(q, _env(fn))
            rets = _value_returns(sc1.cfg)
            ck.need(rets, f"{q}: no return of a value")
            verdict, shown = True, []
            for r_ in rets:
                got = nf.poly(r_.ast.value, sc1, r_.id)     # every return statement, with the definitions that reach it
                a = got.single_atom() or ""
                m = nf.meta.get(a, {})
                a3 = [x.canon() for x in m.get("args", [])]
                ok = m.get("fn", "").split(".")[-1] == "clip" and len(a3) == 3 and not m.get("kws") and a3[2] == hi and lo in a3[:2]
                if not ok:
                    # evidence: the value is completely read and made of the documented quantities only (no clip, other bounds, swapped bounds)
                    want = nf.poly(parse_expr(_fill(spec, fn, q)), Scope(None, fn._module, _env(fn), q), None)
                    _evidence(nf, q, f"the returned value (not read as clip(., {lo}, {hi}))", got, [want], roles=_roles(fn, roles))
                verdict = verdict and ok
                shown.append((a or got.canon())[:120])
            ck.ob("R1-clip-domination", q, "returns-clip(low,high)", verdict, "return " + " | return ".join(shown), "" if verdict else f"the returned action is not clip(., {lo}, {hi}): it can leave the action space", loc(fn._module, fn))
    _guard(_section_1)
    def _section_2():
        # factories
        for fq, target, n_extra in ((MSA, SA, 1), (MSTA, STA, 2)):
            fn = repo.func(fq)
            mi = fn._module
            cfg = nf.cfg_of(fn)
            fps = param_names(fn)
            ck.need(len(fps) >= 1 + n_extra, f"{fq}: signature changed (anchor vanished)")
            space, extra = fps[0], fps[1:1 + n_extra]
            rets = _value_returns(cfg)
            if len(rets) != 1:
                raise AnalysisError(f"{fq}: {len(rets)} return statements (unrecognised form)")
            t = res.resolve(rets[0].ast.value, mi, res.cfg_of(fn), res.cfg_of(fn).node_of(rets[0].ast).id)
            if t is None or not t.qual:
                raise AnalysisError(f"{fq}: the returned sampler `{short(rets[0].ast.value, 60)}` cannot be resolved to a function (unrecognised form)")
            ok = t.qual == target
            if not ok:
                _other_routine(fq, t.qual, target)
            ck.ob("R1-clip-domination", fq, "wraps-sampler", ok, f"returns {short(rets[0].ast.value, 60)}", "" if ok else f"factory must return a partial of {target.rsplit('.', 1)[1]}, it returns {t.qual}", loc(mi, fn))
            if not ok or other_convention[target]:
                continue
            sc = Scope(cfg, mi, _env(fn), fq)
            tfn, bound = _bound_polys(repo, nf, t, sc, rets[0].id, fq)
            roles = positional_params(tfn)[:3 + n_extra]
            missing = [p for p in roles if p not in bound]
            if len(roles) < 3 + n_extra or missing:
                raise AnalysisError(f"{fq}: the partial does not bind {missing or 'the leading parameters'} of {target.rsplit('.', 1)[1]} (unrecognised form)")
            got = [bound[p] for p in roles]
            want = [nf.poly(parse_expr(x), Scope(None, mi, _env(fn), fq), None) for x in [f"{space}.low", f"{space}.high", f"0.5 * ({space}.high - {space}.low)"] + extra]
            ok = got == want
            wit = ""
            if not ok:
                wits = [_evidence(nf, fq, f"the argument bound to {p}", g, [w], roles={"names": fps, "pos": list(extra)}, universe=want) for p, g, w in zip(roles, got, want) if g != w]
                wit = next((x for x in wits if x), "")
            shown = ", ".join(f"{p}={g.canon()}" for p, g in zip(roles, got))
            ck.ob("R1-clip-domination", fq, "bound-arguments", ok, f"partial({target.rsplit('.', 1)[1]}, {shown[:170]})",
                  "" if ok else f"must bind ({space}.low, {space}.high, 0.5*({space}.high-{space}.low), {', '.join(extra)}) to ({', '.join(roles)}): got {[g.canon() for g in got]}" + (f" ({wit})" if wit else ""), loc(mi, rets[0].ast))
    _guard(_section_2)
    def _step_arg(L, lq):
        c = L.step_call
        if c.args and not isinstance(c.args[0], ast.Starred):
            return strip_wrappers(c.args[0])
        if not c.args and len(c.keywords) == 1 and c.keywords[0].arg is not None:
            return strip_wrappers(c.keywords[0].value)
        raise AnalysisError(f"{lq}: env.step call `{short(c, 60)}` (unrecognised form)")

    def _producer_root_is_param(L, cfg, func, at):
        root_ = func
        while isinstance(root_, (ast.Attribute, ast.Subscript)):
            root_ = root_.value
        return isinstance(root_, ast.Name) and root_.id in param_names(L.fn) and bool(cfg.defs_of(at, root_.id)) and all(x.kind == "param" for x in cfg.defs_of(at, root_.id))

    def _sampler_space(L, lq, cfg, mi, scl, t, at_default):
        """(ok, why) for a resolved sample_actions partial: are its bounds those of the loop's own env.action_space?"""
        want_space = f"{L.env}.action_space"
        fac = getattr(t, "factory", None)
        if fac is not None:
            if fac[0] != MSA:
                raise AnalysisError(f"{lq}: sample_actions is specialised by `{fac[0]}`, whose binding of the bounds this check does not read (unrecognised form)")
            ffn = repo.func(MSA)
            b = bind_call(ffn, fac[1])
            sp = param_names(ffn)[0] if param_names(ffn) else None
            if sp is None or sp not in b or any(isinstance(x, ast.Starred) for x in fac[1].args) or any(k.arg is None for k in fac[1].keywords):
                raise AnalysisError(f"{lq}: the action space argument of `{short(fac[1], 60)}` is not read (unrecognised form)")
            at = _node_containing(cfg, fac[1])
            if at is None:
                raise AnalysisError(f"{lq}: `{short(fac[1], 60)}` is not evaluated in the training routine itself (unrecognised form)")
            pv = nf.poly(b[sp], scl, at)
            if pv.canon() == want_space:
                return True, ""
            if not _foreign(pv, param_names(L.fn)):
                raise AnalysisError(f"{lq}: the sampler is built for `{pv.canon()[:60]}`, which is not read as a space (unrecognised form)")
            return False, f"the sampler is built for `{pv.canon()[:60]}`, not for {want_space}"
        # partial(sample_actions, low, high, scale, ...) written in the routine itself: the bounds are read here
        tfn, bound = _bound_by_signature(repo, t)
        roles = positional_params(tfn)[:3]
        if len(roles) < 3 or any(p not in bound for p in roles):
            raise AnalysisError(f"{lq}: sample_actions is used without its bounds being bound (unrecognised form)")
        ats = [_node_containing(cfg, bound[p]) for p in roles]
        if any(x is None for x in ats):
            raise AnalysisError(f"{lq}: the bounds of sample_actions are not bound in the training routine itself (unrecognised form)")
        got = [nf.poly(bound[p], scl, x) for p, x in zip(roles, ats)]
        want = [nf.poly(parse_expr(x), Scope(None, mi, scl.env, lq), None) for x in (f"{want_space}.low", f"{want_space}.high", f"0.5 * ({want_space}.high - {want_space}.low)")]
        if got == want:
            return True, ""
        for p, g, w in zip(roles, got, want):
            if g != w:
                _evidence(nf, lq, f"the argument bound to {p}", g, [w], roles={"names": param_names(L.fn)}, universe=want)
        return False, f"sample_actions must be bound to ({want_space}.low, .high, half the range): got {[g.canon() for g in got]}"

    def _section_3():
        # loops: provenance of the env.step argument
        for lq in LOOPS:
            L = find_env_loop(repo, lq)
            cfg, mi = L.cfg, L.mi
            arg = _step_arg(L, lq)
            ck.need(isinstance(arg, ast.Name), f"{lq}: env.step argument is not a variable")
            ds = cfg.defs_of(L.step_node, arg.id)
            ck.need(ds, f"{lq}: action has no definition")
            scl = Scope(cfg, mi, {p: Poly.atom(p, {p}, {p}) for p in param_names(L.fn)}, lq)
            # follow value-preserving wrappers and single-definition locals to the producing call
            work, ds2, seen_d = list(ds), [], set()
            while work:
                d = work.pop()
                if (d.node, d.name) in seen_d:
                    continue
                seen_d.add((d.node, d.name))
                if d.kind == "unpack" and d.value is not None and d.path:
                    pv = _project_expr(d.value, d.path)
                    if pv is not None:
                        d = Def(d.node, d.name, "assign", pv, ())
                v = strip_wrappers(d.value) if d.value is not None else None
                if isinstance(v, ast.Name) and d.kind == "assign":
                    inner = cfg.defs_of(d.node, v.id)
                    if inner and all(x.kind in ("assign", "unpack") for x in inner):
                        work += inner
                        continue
                ds2.append(d)
            for d in ds2:
                v = strip_wrappers(d.value) if d.value is not None else None
                where = loc(mi, cfg.nodes[d.node].ast)
                if d.kind != "assign" or not isinstance(v, ast.Call):
                    raise AnalysisError(f"{lq}: the action passed to env.step is `{short(d.value, 50) if d.value is not None else d.kind}`, not the result of a call (unrecognised form)")
                if isinstance(v.func, ast.Attribute) and v.func.attr == "sample" and not v.args and not v.keywords:
                    rc = nf.poly(v.func.value, scl, d.node)
                    if rc.canon() == f"{L.env}.action_space":
                        ck.ob("R1-clip-domination", lq, "step-arg:space-sample", True, f"{arg.id} = {short(d.value, 60)}", "", where)
                        continue
                    if not _foreign(rc, param_names(L.fn)):
                        raise AnalysisError(f"{lq}: the receiver `{rc.canon()[:60]}` of `{short(v, 50)}` is not read as a space (unrecognised form)")
                    ck.ob("R1-clip-domination", lq, "step-arg:space-sample", False, f"{arg.id} = {short(d.value, 60)}", f"the warm-up action is sampled from `{rc.canon()[:60]}`, not from {L.env}.action_space", where)
                    continue
                t = res.resolve(v.func, mi, cfg, d.node)
                if t is None or not getattr(t, "qual", None):
                    # an unresolved producer is evidence only when it is one of the routine's own parameters (the raw policy network)
                    if not _producer_root_is_param(L, cfg, v.func, d.node):
                        raise AnalysisError(f"{lq}: the producer `{short(v.func, 40)}` of the action passed to env.step cannot be resolved (unrecognised form)")
                    ok, why = False, f"the action passed to env.step is the output of `{short(v.func, 30)}` itself: it does not go through the clipped sampler"
                elif t.qual == SA:
                    ok, why = _sampler_space(L, lq, cfg, mi, scl, t, d.node)
                else:
                    raise AnalysisError(f"{lq}: the action passed to env.step is produced by `{t.qual}`, which this check does not follow (unrecognised form)")
                ck.ob("R1-clip-domination", lq, "step-arg:clipped-sampler", ok, f"{arg.id} = {short(d.value, 70)}", why, where)
            # no redefinition of the action between sampler and step is implied by reaching definitions
        ck.floor("continuous-loops", len(LOOPS), 5)
    _guard(_section_3)
    def _section_4():
        # PETS loop
        L = find_env_loop(repo, "rl_blox.algorithm.pets.train_pets")
        arg = _step_arg(L, L.qual)
        def _leaves(e, at, depth=0):
            e = strip_wrappers(e)
            if depth > 8:
                return [(e, at)]
            if isinstance(e, ast.IfExp):
                return _leaves(e.body, at, depth + 1) + _leaves(e.orelse, at, depth + 1)
            if isinstance(e, ast.Name):
                out_ = []
                for d_ in L.cfg.defs_of(at, e.id):
                    v_ = _project_expr(d_.value, d_.path) if d_.kind == "unpack" and d_.value is not None else d_.value
                    if d_.kind in ("assign", "unpack") and v_ is not None:
                        out_ += _leaves(v_, d_.node, depth + 1)
                    else:
                        out_.append((e, at))
                return out_
            return [(e, at)]
        scp = Scope(L.cfg, L.mi, {p: Poly.atom(p, {p}, {p}) for p in param_names(L.fn)}, L.qual)
        for e_, at_ in _leaves(arg, L.step_node):
            if not isinstance(e_, ast.Call):
                raise AnalysisError(f"{L.qual}: the action passed to env.step is `{short(e_, 50)}`, not the result of a call (unrecognised form)")
            why = "PETS must execute the space sample (warm-up) or the planner's action"
            if isinstance(e_.func, ast.Attribute) and e_.func.attr == "sample" and not e_.args and not e_.keywords:
                rc = nf.poly(e_.func.value, scp, at_)
                ok = rc.canon() == f"{L.env}.action_space"
                if not ok and not _foreign(rc, param_names(L.fn)):
                    raise AnalysisError(f"{L.qual}: the receiver `{rc.canon()[:60]}` of `{short(e_, 50)}` is not read as a space (unrecognised form)")
                why = f"the warm-up action is sampled from `{rc.canon()[:60]}`, not from {L.env}.action_space"
            else:
                t_ = res.resolve(e_.func, L.mi, L.cfg, at_)
                if t_ is None or not t_.qual:
                    if not _producer_root_is_param(L, L.cfg, e_.func, at_):
                        raise AnalysisError(f"{L.qual}: the producer `{short(e_.func, 40)}` of the action passed to env.step cannot be resolved (unrecognised form)")
                    ok, why = False, f"the action passed to env.step is the output of `{short(e_.func, 30)}` itself, not the planner's action"
                else:
                    ok = t_.qual == "rl_blox.algorithm.pets.mpc_action"     # a resolved other (recorded) routine of the package: known other provenance
                    if not ok:
                        _other_routine(L.qual, t_.qual, "rl_blox.algorithm.pets.mpc_action")
            ck.ob("R5-planning-chain", L.qual, "step-arg", ok, f"{arg.id} <- {short(e_, 70)}", "" if ok else why, loc(L.mi, e_))
    _guard(_section_4)

    def _init_stores(cq):
        """(owner, __init__, receiver name, [attribute stores at the end of each path of __init__]) - the constructor is looked up through
        the base classes and evaluated path by path, so annotated / unpacking assignments and values passed through locals are read."""
        from ..sympath import enumerate_paths, PathEval
        owner, init = _method(ck, repo, cq, "__init__")
        ps = param_names(init)
        ck.need(len(ps) >= 1, f"{cq}.__init__: no receiver parameter")
        icfg = nf.cfg_of(init)
        env = {p: Poly.atom(p, {p}, {p}) for p in ps}
        stores = []
        for pth in enumerate_paths(icfg, icfg.entry, {icfg.exit}):
            stores.append(dict(PathEval(nf, icfg, init._module, f"{cq}.__init__", env, self_class=owner).run(pth).store))
        ck.need(stores, f"{cq}.__init__: no path reaches the end (unrecognised form)")
        return owner, init, ps, stores

    def _section_5():
        # R3 tanh heads
        PH = "rl_blox.blox.function_approximator.policy_head."
        acc = ("{0}.action_scale.value", "{0}.action_bias.value"), ("{0}.action_scale[...]", "{0}.action_bias[...]")     # two spellings of reading a Variable
        so = "nnx.tanh({y}) * jnp.broadcast_to({s}, {y}.shape) + jnp.broadcast_to({b}, {y}.shape)"
        so2 = "nnx.tanh({y}) * {s} + {b}"       # the same value: scale and bias broadcast against y by the arithmetic itself
        def _alts(y):
            return tuple(f_.format(y=y, s=a_[0], b=a_[1]) for f_ in (so, so2) for a_ in acc)[1:]
        formula(ck, repo, nf, "R3-tanh-head", "scale_output", so.format(y="{1}", s=acc[0][0], b=acc[0][1]), self_class=PH + "DeterministicTanhPolicy", alts=_alts("{1}"))
        net = "{0}.policy_net({1})"
        formula(ck, repo, nf, "R3-tanh-head", "__call__", so.format(y=net, s=acc[0][0], b=acc[0][1]), key="call-applies-scaling", self_class=PH + "DeterministicTanhPolicy", alts=_alts(net))
        for cq in (PH + "DeterministicTanhPolicy", PH + "GaussianTanhPolicy"):
            owner, init, ps, stores = _init_stores(cq)
            mi = init._module
            ck.need(len(ps) >= 3, f"{cq}.__init__: signature changed (anchor vanished)")
            me, space = ps[0], ps[2]
            for attr, sign in (("action_scale", "-"), ("action_bias", "+")):
                want = nf.poly(parse_expr(f"nnx.Variable(jnp.array(({space}.high {sign} {space}.low) / 2.0))"), Scope(None, mi, {space: Poly.atom(space, {space}, {space})}, cq), None)
                gots = [st.get(f"{me}.{attr}") for st in stores]
                if any(g is None for g in gots):
                    raise AnalysisError(f"{cq}.__init__: no assignment to {me}.{attr} is read on some path (set elsewhere / by a base constructor: unrecognised form)")
                for i_, got in enumerate(sorted(set(gots), key=lambda p: p.canon())):
                    # nnx.Param instead of nnx.Variable is a known other provenance: the optimiser then trains the scaling constants
                    _decide(ck, nf, "R3-tanh-head", f"{cq}.__init__", attr if i_ == 0 else f"{attr}:{i_ + 1}", got, want, f"{attr} = {got.canon()[:100]}", f"must be {want.canon()}: otherwise tanh(y)*scale+bias leaves [low, high]", loc(mi, init), extra=("Param",))
    _guard(_section_5)
    def _section_6():
        # wrappers that reach the tanh head: __call__ returns the output of the wrapped policy (the module given to the constructor at
        # the recorded position), nothing is applied after it
        for cq, meth, pos in (("rl_blox.blox.embedding.sale.ActorSALE", "__call__", 1), ("rl_blox.blox.embedding.model_based_encoder.DeterministicPolicyWithEncoder", "__call__", 2)):
            owner_i, init, ips, stores = _init_stores(cq)
            ck.need(len(ips) > pos, f"{cq}.__init__: signature changed (anchor vanished)")
            held = set()
            for st in stores:
                held.add(tuple(sorted(k for k, v in st.items() if v.single_atom() == ips[pos] and k.split(".")[0] == ips[0] and k.count(".") == 1)))
            if len(held) != 1 or len(next(iter(held))) != 1:
                raise AnalysisError(f"{cq}.__init__: the attribute holding the wrapped policy `{ips[pos]}` is not read (unrecognised form)")
            attr = next(iter(held))[0].split(".", 1)[1]
            owner, fn = _method(ck, repo, cq, meth)
            ps = param_names(fn)
            ck.need(len(ps) >= 1, f"{cq}.{meth}: no receiver parameter")
            cfg = nf.cfg_of(fn)
            sc = Scope(cfg, fn._module, {p: Poly.atom(p, {p}, {p}) for p in ps[1:]}, f"{cq}.{meth}", self_class=cq)
            rets = _value_returns(cfg)
            if len(rets) != 1:
                raise AnalysisError(f"{cq}.{meth}: {len(rets)} return statements (unrecognised form)")
            got = nf.poly(rets[0].ast.value, sc, rets[0].id)
            callee = f"{ps[0]}.{attr}"
            a = got.single_atom()
            ok = a is not None and nf.meta.get(a, {}).get("fn") == callee
            if not ok:
                # evidence: the output of the wrapped policy occurs in the returned value, but something is applied to it
                inner = [x for x in got.atoms() if nf.meta.get(x, {}).get("fn") == callee]
                if _unread(got) or not inner or a is not None:
                    raise AnalysisError(f"{cq}.{meth}: returns `{got.canon()[:100]}`, not read as the output of {callee} (unrecognised form)")
            ck.ob("R3-tanh-head", f"{cq}.{meth}", "ends-in-tanh-policy", ok, f"return {got.canon()[:110]}", "" if ok else f"the action must be the output of the wrapped tanh policy {callee} (nothing applied after the scaling)", loc(fn._module, fn))
    _guard(_section_6)

    CS, CU = "rl_blox.blox.cross_entropy_method.cem_sample", "rl_blox.blox.cross_entropy_method.cem_update"
    def _section_7():
        # R4 CEM proposal: every candidate lies in [lb, ub]
        _cem_sample(ck, repo, nf, CS)
    _guard(_section_7)
    def _section_7b():
        # cem_update(samples, fitness, mean, var, n_elite, alpha): roles by position
        fn = repo.func(CU)
        ps = param_names(fn)
        ck.need(len(ps) >= 6, f"{CU}: signature changed (anchor vanished)")
        SAMPLES, MEAN, ALPHA = ps[0], ps[2], ps[5]
        try:
            got = nf.return_poly(CU, _env(fn))
        except ValueError as e:
            raise AnalysisError(f"{CU}: {e} (unrecognised form)")
        ck.need(got.elems is not None and len(got.elems) == 2, f"{CU}: must return (mean, var)")
        m1 = got.elems[0]
        avg = sorted(a for a in m1.atoms() if _short_fn(nf, a) == "mean" and SAMPLES in nf.atom_deps(a))
        others = sorted(a for a in m1.atoms() if a not in avg and a not in (ALPHA, MEAN))
        if len(avg) != 1 or others or _unread(m1):
            raise AnalysisError(f"{CU}: new mean `{m1.canon()[:120]}` is not a combination of the old mean and one average of candidates (convexity not decidable here)")
        # affine weights: set the old mean and the average to 1 -> the weights must add up to exactly 1; each weight must be alpha resp. 1 - alpha
        w = {MEAN: Poly({}), avg[0]: Poly({})}
        for mono, c in m1.terms.items():
            rest = tuple((a, e) for a, e in mono if a not in w)
            hit = [a for a, e in mono if a in w]
            if len(hit) != 1 or any(e != 1 for a, e in mono if a in w):
                raise AnalysisError(f"{CU}: new mean is not affine in (old mean, candidate average): `{m1.canon()[:120]}`")
            w[hit[0]] = w[hit[0]] + Poly({rest: c})
        al = Poly.atom(ALPHA, {ALPHA}, {ALPHA})
        ok = (w[MEAN] - al).is_zero() and (w[avg[0]] - (Poly.const(1) - al)).is_zero()
        ck.ob("R5-planning-chain", CU, "convex-mean", ok, f"mean' = ({w[MEAN].canon()})*{MEAN} + ({w[avg[0]].canon()})*{avg[0][:60]}",
              "" if ok else f"the weights of the old mean and of the candidate average must be {ALPHA} and 1 - {ALPHA} (non-negative, summing to one): otherwise the new mean can leave the box spanned by in-bounds candidates", loc(fn._module, fn))
    _guard(_section_7b)
    def _section_7c():
        # R5 PETS chain
        q = "rl_blox.algorithm.pets._init_mpc_optimizer_cem"
        fn = repo.func(q)
        mi = fn._module
        cfg = nf.cfg_of(fn)
        fps = param_names(fn)
        ck.need(len(fps) >= 5, f"{q}: signature changed (anchor vanished)")
        SPACE, F_ALPHA = fps[0], fps[4]
        sc = Scope(cfg, mi, _env(fn), q)
        rets = _value_returns(cfg)
        if len(rets) != 1:
            raise AnalysisError(f"{q}: {len(rets)} return statements (unrecognised form)")
        rv = rets[0].ast.value
        ck.need(isinstance(rv, ast.Tuple) and len(rv.elts) == 2, f"{q}: must return (sample_fn, update_fn)")
        rcfg = res.cfg_of(fn)
        at = rcfg.node_of(rets[0].ast).id
        ts, tu = res.resolve(rv.elts[0], mi, rcfg, at), res.resolve(rv.elts[1], mi, rcfg, at)
        if ts is None or tu is None or not ts.qual or not tu.qual or "<locals>" in ts.qual or "<locals>" in tu.qual:
            raise AnalysisError(f"{q}: the returned planner functions `{short(rv, 60)}` cannot be resolved (unrecognised form)")
        ok = ts.qual == CS and tu.qual == CU
        for got_, want_ in ((ts.qual, CS), (tu.qual, CU)):
            if got_ != want_:
                _other_routine(q, got_, want_)
        ck.ob("R5-planning-chain", q, "sample/update-functions", ok, f"({ts.qual}, {tu.qual})", "" if ok else "PETS must plan with cem_sample / cem_update", loc(mi, fn))
        if ok:
            sfn, sbound = _bound_by_signature(repo, ts)
            sps = param_names(sfn)
            ck.need(len(sps) >= 6, f"{CS}: signature changed (anchor vanished)")
            LB, UB = sps[4], sps[5]
            lbp, ubp = sbound.get(LB), sbound.get(UB)
            if lbp is None or ubp is None:
                raise AnalysisError(f"{q}: {LB} / {UB} are not bound when the CEM sampler is specialised (unrecognised form)")
            rows = {}
            for nm_, e_ in ((LB, lbp), (UB, ubp)):
                pv = nf.poly(e_, sc, rets[0].id)
                r_ = _stacked_rows(nf, pv, sc)
                if r_ is None:
                    raise AnalysisError(f"{q}: bounds handed to the CEM sampler (`{nm_} = {pv.canon()[:80]}`) are built in a way this check does not follow")
                rows[nm_] = r_ + (pv.canon(),)
            lo_, hi_ = nf.poly(parse_expr(f"{SPACE}.low"), sc, rets[0].id).canon(), nf.poly(parse_expr(f"{SPACE}.high"), sc, rets[0].id).canon()
            for nm_, want_ in ((LB, lo_), (UB, hi_)):
                kind_, base_, cnt_, txt_ = rows[nm_]
                if base_ not in (lo_, hi_):
                    raise AnalysisError(f"{q}: `{nm_} = {txt_[:80]}` is not built from the action space bounds (unrecognised form)")
                okb = kind_ == "tiled" and base_ == want_
                ck.ob("R5-planning-chain", q, f"bounds-from-action-space:{'lb' if nm_ == LB else 'ub'}", okb, f"{nm_} = {txt_[:80]}  ({kind_} copies of {base_})",
                      "" if okb else ("lb / ub must be action_space.low / .high stacked over the horizon (not swapped)" if base_ != want_ else
                                      f"`{txt_[:70]}` repeats every *component* of the bound {cnt_} times and then cuts rows: with more than one action dimension row t does not hold the bound of every dimension, so candidates of early plan steps are clipped with the wrong dimension's bound"), loc(mi, fn))
            # the smoothing weight handed to cem_update: the factory's own alpha (a weight in [0, 1] by its contract) or a constant in [0, 1]
            ufn, ubound = _bound_by_signature(repo, tu)
            ups = param_names(ufn)
            ck.need(len(ups) >= 6, f"{CU}: signature changed (anchor vanished)")
            if ups[5] not in ubound:
                raise AnalysisError(f"{q}: {ups[5]} is not bound when cem_update is specialised (unrecognised form)")
            av = nf.poly(ubound[ups[5]], sc, rets[0].id)
            oka = av == Poly.atom(F_ALPHA, {F_ALPHA}, {F_ALPHA}) or (av.is_const() and 0 <= av.const_value() <= 1)
            if not oka and not av.is_const():
                raise AnalysisError(f"{q}: cem_update receives {ups[5]} = `{av.canon()[:60]}` (unrecognised form)")
            ck.ob("R5-planning-chain", q, "update-arguments", oka, f"{ups[5]} = {av.canon()[:60]}", "" if oka else f"cem_update must receive a weight in [0, 1] (the factory's {F_ALPHA}): with {av.canon()} the update is not a convex combination", loc(mi, fn))
    _guard(_section_7c)
    FIRST_ROW = ("[0]", "[0, :]", "[0, ...]", "[0, Ellipsis]")

    def _row_of_call(nfx, p: Poly, callee: str):
        """(call atom, index text) when ``p`` is `callee(...)[index]`, else None."""
        a_ = p.single_atom()
        m_ = nfx.meta.get(a_ or "", {})
        if m_.get("fn") not in ("proj", "subscript") or not m_.get("args"):
            return None
        ba = m_["args"][0].single_atom()
        if not ba or nfx.meta.get(ba, {}).get("fn") != callee or not a_.startswith(ba):
            return None
        return ba, a_[len(ba):]

    def _section_8():
        # mpc_action(config, state, optimize_fn, obs): roles by position
        import re
        q = "rl_blox.algorithm.pets.mpc_action"
        fn = repo.func(q)
        mi = fn._module
        from ..sympath import enumerate_paths, PathEval
        ps = param_names(fn)
        ck.need(len(ps) >= 4, f"{q}: signature changed (anchor vanished)")
        CONFIG, STATE, OPT = ps[0], ps[1], ps[2]
        # `x = a if c else b` is read as the two paths it stands for (the initial plan may be chosen by a conditional expression)
        if any(isinstance(x, ast.IfExp) for x in ast.walk(fn)):
            fn = _conditionals_as_paths(fn)
            fn._module = mi
            ck._keep = getattr(ck, "_keep", []) + [fn]
        cfgm = nf.cfg_of(fn)
        retn = _value_returns(cfgm)
        if len(retn) != 1:
            raise AnalysisError(f"{q}: {len(retn)} return statements (unrecognised form)")
        nfm = _NF(repo, inline_depth=1, inline_calls=False)
        envm = _env(fn)
        outcomes = {}
        for pth in enumerate_paths(cfgm, cfgm.entry, {retn[0].id}):
            pe = PathEval(nfm, cfgm, mi, q, envm).run(pth[:-1])
            rvp = pe.ev(retn[0].ast.value)
            prev = pe.store.get(f"{STATE}.prev_plan")
            outcomes[(rvp.canon(), prev.canon() if prev is not None else None)] = (rvp, prev)
        ck.need(outcomes, f"{q}: no path reaches the return (unrecognised form)")
        oks, plans = True, []
        for rvp, prev in outcomes.values():
            # returned action: first step of the optimiser's result
            r = _row_of_call(nfm, rvp, OPT)
            if r is not None and r[1] in FIRST_ROW:
                plans.append((r[0], prev))
                continue
            if r is not None and not re.fullmatch(r"\[-?\d+\]", r[1]):
                raise AnalysisError(f"{q}: returns `{rvp.canon()[:80]}`: the index `{r[1]}` is not read (unrecognised form)")
            if r is None:
                # evidence: a completely read combination of rows of the optimiser's result and nothing else
                rows = [_row_of_call(nfm, Poly.atom(x), OPT) for x in rvp.atoms()]
                if _unread(rvp) or not rows or any(x is None for x in rows):
                    raise AnalysisError(f"{q}: returns `{rvp.canon()[:80]}`, not read as a step of the optimised plan (unrecognised form)")
            oks = False
        ck.ob("R5-planning-chain", q, "returns-first-plan-step", oks, f"return {sorted(k[0][:60] for k in outcomes)}", "" if oks else "the executed action must be the first step of the optimised plan", loc(mi, fn))
        if oks:
            sc0 = Scope(None, mi, envm, q)
            good_init = [nfm.poly(parse_expr(x), sc0, None) for x in (f"{STATE}.prev_plan", f"jnp.broadcast_to({CONFIG}.avg_act, {STATE}.prev_plan.shape)")]
            inits, oki, okp = [], True, True
            for call_atom, prev in plans:
                cm = nfm.meta.get(call_atom, {})
                if len(cm.get("args", [])) < 2:
                    raise AnalysisError(f"{q}: the initial plan is not the second positional argument of `{call_atom[:60]}` (unrecognised form)")
                init = cm["args"][1]
                inits.append(init.canon())
                if not any(init == g for g in good_init):
                    _evidence(nfm, q, "the initial plan", init, good_init, roles={"names": ps})
                    oki = False
                if prev is None:
                    raise AnalysisError(f"{q}: no assignment to {STATE}.prev_plan is read on a path (unrecognised form)")
                env2 = dict(envm)
                env2["plan__"] = Poly.atom(call_atom, nfm.meta[call_atom].get("deps", frozenset()), nfm.meta[call_atom].get("gdeps", frozenset()))
                sc2 = Scope(None, mi, env2, q)
                want_prev = [nfm.poly(parse_expr(f"jnp.concatenate((plan__[1:], {CONFIG}.avg_act[{nx}]){ax})"), sc2, None) for nx in ("jnp.newaxis", "None", "None, :", "jnp.newaxis, :") for ax in (", axis=0", "", ", 0")]
                if not any(prev == w_ for w_ in want_prev):
                    _evidence(nfm, q, "the stored plan", prev, want_prev, roles={"names": ps})
                    okp = False
            ck.ob("R5-planning-chain", q, "plan-shift-and-padding", oki and okp, f"initial plan {sorted(set(inits))}; prev_plan' = shifted result padded with avg_act: {okp}", "" if oki and okp else "initial plan and padding must be the in-box mid-point avg_act, the plan the optimiser's result", loc(mi, fn))
        q = "rl_blox.algorithm.pets._pets_optimize"
        fn = repo.func(q)
        # what the optimiser returns, evaluated along the paths of its body (iteration helper inlined): after at least one iteration it
        # must be component 0 of `config.update_fn(...)` - the mean of (cem_update's) (mean, var) - whatever the locals are called; the
        # candidates handed to update_fn must be the result of `config.sample_fn(...)`
        from ..sympath import enumerate_paths as _ep, PathEval as _PE
        nfo = _NF(repo, inline_depth=2)
        cfg = nfo.cfg_of(fn)
        ps = param_names(fn)
        ck.need(len(ps) >= 5, f"{q}: signature changed (anchor vanished)")
        CONFIG = ps[0]
        rets = _value_returns(cfg)
        if len(rets) != 1:
            raise AnalysisError(f"{q}: {len(rets)} return statements (unrecognised form)")
        envo = _env(fn)
        kinds, cand_kinds = set(), set()
        shown, shown_c = "", ""
        doc = nfo.poly(parse_expr("{0}.update_fn({0}.sample_fn({2}, {0}.init_var, {3}), {0}.reward_model({4}), {2}, {0}.init_var)[0]".format(*ps)), Scope(None, fn._module, envo, q), None)
        # paths with zero iterations return the initial mean and are skipped; a loop that is only left from inside its body
        # (`while True: if enough: break ...`) completes a round on the paths that execute its header twice
        with_round = [p_ for p_ in _ep(cfg, cfg.entry, {rets[0].id}) if _completes_a_round(cfg, p_)]
        if not with_round:
            with_round = [p_ for p_ in _paths_second_round(cfg, cfg.entry, {rets[0].id}) if _completes_a_round(cfg, p_)]
        for pth in with_round:
            v =_PE(nfo, cfg, fn._module, q, envo).run(pth[:-1]).ev(rets[0].ast.value)
            shown = v.canon()[:90]
            r = _row_of_call(nfo, v, f"{CONFIG}.update_fn")
            if r is not None and (r[1] in FIRST_ROW or re.fullmatch(r"\[-?\d+\]", r[1])):
                kinds.add("mean" if r[1] in FIRST_ROW else "other-component")
                um = nfo.meta[r[0]]
                if not um.get("args"):
                    raise AnalysisError(f"{q}: the candidates are not the first positional argument of `{r[0][:60]}` (unrecognised form)")
                cands = um["args"][0]
                shown_c = cands.canon()[:90]
                if _short_fn(nfo, cands.single_atom()) == "sample_fn" and nfo.meta[cands.single_atom()].get("fn") == f"{CONFIG}.sample_fn":
                    cand_kinds.add("sampled")
                elif _unread(cands) or "sample_fn" in cands.canon():
                    raise AnalysisError(f"{q}: the candidates `{shown_c}` handed to update_fn are not read (unrecognised form)")
                else:
                    cand_kinds.add("not-sampled")
            elif _unread(v) or not same_ingredients(v, doc, ("split", "dynamics_model", "randint", "n_particles", "n_ensemble", "n_samples", "plan_horizon", "where", "argmax", "inf", "sum", "mean", "broadcast_to", "shape", "newaxis", "jax", "numpy", "n_opt_iter", "action_space_shape", "base_predict", "base_distribution", "sample", "reshape", "vmap", "concatenate", "squeeze")):
                raise AnalysisError(f"{q}: returns `{shown}` (unrecognised form)")
            else:
                kinds.add("not-the-update-result")
        if not kinds:
            raise AnalysisError(f"{q}: no path with an optimiser iteration reaches the return (unrecognised form)")
        okm = kinds == {"mean"}
        ck.ob("R5-planning-chain", q, "returns-cem-mean", okm, f"return {shown}", "" if okm else "the optimiser must return the CEM mean (convex combination of in-box elites)", loc(fn._module, fn))
        if cand_kinds:
            okc = cand_kinds == {"sampled"}
            ck.ob("R5-planning-chain", q, "sample-then-update", okc, f"update_fn({shown_c}, ...)", "" if okc else "candidates must come from sample_fn (the bounded proposal) and the mean from update_fn on those candidates", loc(fn._module, fn))
    _guard(_section_8)
    def _section_9():
        # train_pets config: avg_act mid-point, bounds from the same env
        q = "rl_blox.algorithm.pets.train_pets"
        L = find_env_loop(repo, q)
        fn = repo.func(q)
        mi = fn._module
        ENV = L.env
        cfgt = nf.cfg_of(fn)
        sc = Scope(cfgt, mi, {p: Poly.atom(p, {p}, {p}) for p in param_names(fn)}, q)

        def _calls_of(target):
            out = []
            for c in ast.walk(fn):
                if isinstance(c, ast.Call) and isinstance(c.func, (ast.Name, ast.Attribute)):
                    try:
                        r = repo.resolve_expr(mi, c.func)
                    except Exception:
                        r = None
                    if r == target:
                        out.append(c)
            return out
        CFGQ = "rl_blox.algorithm.pets.PETSMPCConfig"
        cfgc = _calls_of(CFGQ)
        if len(cfgc) != 1:
            raise AnalysisError(f"{q}: {len(cfgc)} PETSMPCConfig constructions (unrecognised form)")
        call = cfgc[0]
        if any(isinstance(x, ast.Starred) for x in call.args) or any(k.arg is None for k in call.keywords):
            raise AnalysisError(f"{q}: `{short(call, 60)}` is built from unpacked arguments (unrecognised form)")
        fields = [st.target.id for st in repo.cls(CFGQ).body if isinstance(st, ast.AnnAssign) and isinstance(st.target, ast.Name)]
        kw = dict(zip(fields, call.args))
        kw.update({k.arg: k.value for k in call.keywords})
        if "avg_act" not in kw:
            raise AnalysisError(f"{q}: the avg_act field of `{short(call, 60)}` is not read (unrecognised form)")
        at_cfg = _node_containing(cfgt, call)
        ck.need(at_cfg is not None, f"{q}: PETSMPCConfig construction is not a statement of the routine")
        got = nf.poly(kw["avg_act"], sc, at_cfg)
        want = nf.poly(parse_expr(f"jnp.asarray(0.5 * ({ENV}.action_space.high + {ENV}.action_space.low))"), Scope(None, mi, {ENV: Poly.atom(ENV, {ENV}, {ENV})}, q), None)
        _decide(ck, nf, "R5-planning-chain", q, "mid-point", got, want, f"avg_act = {got.canon()[:80]}", "avg_act must be the mid-point 0.5*(high+low) of the action space", loc(mi, call))
        IQ = "rl_blox.algorithm.pets._init_mpc_optimizer_cem"
        init = _calls_of(IQ)
        if len(init) != 1:
            raise AnalysisError(f"{q}: {len(init)} calls of _init_mpc_optimizer_cem (unrecognised form)")
        ifn = repo.func(IQ)
        b = bind_call(ifn, init[0])
        sp = param_names(ifn)[0] if param_names(ifn) else None
        at_i = _node_containing(cfgt, init[0])
        if sp is None or sp not in b or at_i is None or any(isinstance(x, ast.Starred) for x in init[0].args) or any(k.arg is None for k in init[0].keywords):
            raise AnalysisError(f"{q}: the action space argument of `{short(init[0], 60)}` is not read (unrecognised form)")
        pv = nf.poly(b[sp], sc, at_i)
        ok = pv.canon() == f"{ENV}.action_space"
        if not ok and not _foreign(pv, param_names(fn)):
            raise AnalysisError(f"{q}: the planner is built for `{pv.canon()[:60]}`, which is not read as a space (unrecognised form)")
        ck.ob("R5-planning-chain", q, "optimizer-space", ok, f"{short(init[0], 70)}", "" if ok else f"the CEM bounds must come from {ENV}.action_space, not from `{pv.canon()[:60]}`", loc(mi, fn))
    _guard(_section_9)


_D, _T, _H, _C, _P = "rl_blox/algorithm/ddpg.py", "rl_blox/algorithm/td3.py", "rl_blox/blox/function_approximator/policy_head.py", "rl_blox/blox/cross_entropy_method.py", "rl_blox/algorithm/pets.py"
MUTANTS = [
    {"id": "c10-bounds-repeat-cut-by-shape-value", "file": "rl_blox/algorithm/pets.py", "rule": "R5", "find": '    lower_bound = jnp.vstack([action_space.low for _ in range(plan_horizon)])\n', "replace": '    rows = (plan_horizon,) + action_space.shape\n    lower_bound = jnp.repeat(action_space.low, plan_horizon).reshape(rows)\n'},
    {"id": "c10-bounds-interleaved", "file": "rl_blox/algorithm/pets.py", "rule": "R5", "find": "    lower_bound = jnp.vstack([action_space.low for _ in range(plan_horizon)])", "replace": "    lower_bound = jnp.repeat(jnp.asarray(action_space.low), plan_horizon).reshape(plan_horizon, -1)"},
    {"id": "c10-noise-clip-truthiness", "file": "rl_blox/algorithm/td3.py", "rule": "R2", "find": "    clipped_eps = jnp.clip(eps, -scaled_noise_clip, scaled_noise_clip)\n", "replace": "    clipped_eps = eps\n    if noise_clip:\n        clipped_eps = jnp.clip(eps, -scaled_noise_clip, scaled_noise_clip)\n"},
    {"id": "c10-cem-one-sided", "file": _C, "rule": "R4", "find": "        jnp.minimum((0.5 * lb_dist) ** 2, (0.5 * ub_dist) ** 2),", "replace": "        jnp.minimum((0.5 * lb_dist) ** 2, (0.5 * lb_dist) ** 2),"},
    {"id": "c10-no-clip", "file": _D, "rule": "R", "find": "    return jnp.clip(exploring_action, action_low, action_high)", "replace": "    return exploring_action"},
    {"id": "c10-clip-swapped", "file": _D, "rule": "R", "find": "    return jnp.clip(exploring_action, action_low, action_high)", "replace": "    return jnp.clip(exploring_action, action_high, action_low)"},
    {"id": "c10-scale-no-half", "file": _D, "rule": "R1", "find": "    action_scale = 0.5 * (action_space.high - action_space.low)", "replace": "    action_scale = action_space.high - action_space.low"},
    {"id": "c10-factory-order", "file": _D, "rule": "R1", "find": "            action_space.low,\n            action_space.high,\n            action_scale,\n            exploration_noise,\n        )", "replace": "            action_space.high,\n            action_space.low,\n            action_scale,\n            exploration_noise,\n        )"},
    {"id": "c10-noise-shape", "file": _D, "rule": "R2", "find": "        exploration_noise * action_scale * jax.random.normal(key, action.shape)\n    )\n    exploring_action", "replace": "        exploration_noise * jax.random.normal(key, action.shape)\n    )\n    exploring_action"},
    {"id": "c10-target-clip-sum", "file": _T, "rule": "R2", "find": "    clipped_eps = jnp.clip(eps, -scaled_noise_clip, scaled_noise_clip)\n    return jnp.clip(action + clipped_eps, action_low, action_high)", "replace": "    clipped = jnp.clip(action + eps, -scaled_noise_clip, scaled_noise_clip)\n    return jnp.clip(clipped, action_low, action_high)"},
    {"id": "c10-target-noise-clip-unscaled", "file": _T, "rule": "R2", "find": "    scaled_noise_clip = action_scale * noise_clip", "replace": "    scaled_noise_clip = noise_clip"},
    {"id": "c10-td3-raw-policy", "file": _T, "rule": "R1", "find": "            action = np.asarray(\n                _sample_actions(policy, jnp.asarray(obs), action_key)\n            )", "replace": "            action = np.asarray(policy(jnp.asarray(obs)))"},
    {"id": "c10-td3-other-space", "file": _T, "rule": "R1", "find": "    _sample_actions = make_sample_actions(env.action_space, exploration_noise)", "replace": "    _sample_actions = make_sample_actions(env.observation_space, exploration_noise)"},
    {"id": "c10-tanh-dropped", "file": _H, "rule": "R3", "find": "        return nnx.tanh(y) * jnp.broadcast_to(\n            self.action_scale.value, y.shape\n        ) + jnp.broadcast_to(self.action_bias.value, y.shape)", "replace": "        return y * jnp.broadcast_to(\n            self.action_scale.value, y.shape\n        ) + jnp.broadcast_to(self.action_bias.value, y.shape)"},
    {"id": "c10-tanh-scale-full-range", "file": _H, "rule": "R3", "nth": 0, "find": "            jnp.array((action_space.high - action_space.low) / 2.0)", "replace": "            jnp.array(action_space.high - action_space.low)"},
    {"id": "c10-tanh-bias-minus", "file": _H, "rule": "R3", "nth": 0, "find": "            jnp.array((action_space.high + action_space.low) / 2.0)", "replace": "            jnp.array((action_space.high - action_space.low) / 2.0)"},
    {"id": "c10-cem-raw-var", "file": _C, "rule": "R4", "find": "        * jnp.sqrt(constrained_var)[jnp.newaxis]", "replace": "        * jnp.sqrt(var)[jnp.newaxis]"},
    {"id": "c10-cem-trunc-3", "file": _C, "rule": "R4", "find": "            step_key, -2.0, 2.0, shape=(n_population,) + mean.shape", "replace": "            step_key, -3.0, 3.0, shape=(n_population,) + mean.shape"},
    {"id": "c10-cem-no-half", "file": _C, "rule": "R4", "find": "        jnp.minimum((0.5 * lb_dist) ** 2, (0.5 * ub_dist) ** 2),", "replace": "        jnp.minimum(lb_dist**2, ub_dist**2),"},
    {"id": "c10-cem-update-not-convex", "file": _C, "rule": "R5", "find": "    mean = alpha * mean + (1.0 - alpha) * jnp.mean(elites, axis=0)", "replace": "    mean = alpha * mean + (1.0 + alpha) * jnp.mean(elites, axis=0)"},
    {"id": "c10-pets-bounds-swapped", "file": _P, "rule": "R5", "find": "            lb=lower_bound,\n            ub=upper_bound,", "replace": "            lb=upper_bound,\n            ub=lower_bound,"},
    {"id": "c10-pets-avg-act", "file": _P, "rule": "R5", "find": "            0.5 * (env.action_space.high + env.action_space.low)", "replace": "            0.5 * (env.action_space.high - env.action_space.low)"},
    {"id": "c10-pets-last-plan-step", "file": _P, "rule": "R5", "find": "    return plan[0]", "replace": "    return plan[-1] + plan[0]"},
    {"id": 'c10-loop-direct-partial-full-range', 'file': 'rl_blox/algorithm/ddpg.py', 'rule': 'R1', 'find': '    _sample_actions = make_sample_actions(env.action_space, exploration_noise)', 'replace': '    _sample_actions = nnx.jit(partial(sample_actions, env.action_space.low, env.action_space.high, env.action_space.high - env.action_space.low, exploration_noise))'},
    {"id": 'c10-pets-warmup-other-space', 'file': 'rl_blox/algorithm/pets.py', 'rule': 'R5', 'find': '            action = action_space.sample()', 'replace': '            action = env.observation_space.sample()'},
    {"id": 'c10-wrapper-rescales-action', 'file': 'rl_blox/blox/embedding/sale.py', 'rule': 'R3', 'find': '        return self.policy_net(he)', 'replace': '        return 2.0 * self.policy_net(he)'},
    {"id": 'c10-tanh-scale-trainable', 'file': 'rl_blox/blox/function_approximator/policy_head.py', 'rule': 'R3', 'nth': 0, 'find': '        self.action_scale = nnx.Variable(\n', 'replace': '        self.action_scale = nnx.Param(\n'},
    {"id": 'c10-pets-alpha-above-one', 'file': 'rl_blox/algorithm/pets.py', 'rule': 'R5', 'find': '            cem_update,\n            n_elite=n_elite,\n            alpha=alpha,', 'replace': '            cem_update,\n            n_elite=n_elite,\n            alpha=1.5,'},
    {"id": 'c10-mpc-initial-plan-doubled', 'file': 'rl_blox/algorithm/pets.py', 'rule': 'R5', 'find': '        plan = jnp.broadcast_to(config.avg_act, state.prev_plan.shape)', 'replace': '        plan = 2.0 * state.prev_plan'},
    {"id": 'c10-mpc-padding-doubled', 'file': 'rl_blox/algorithm/pets.py', 'rule': 'R5', 'find': '        (plan[1:], config.avg_act[jnp.newaxis]), axis=0', 'replace': '        (plan[1:], 2.0 * config.avg_act[jnp.newaxis]), axis=0'},
    {"id": 'c10-mpc-last-row', 'file': 'rl_blox/algorithm/pets.py', 'rule': 'R5', 'find': '    return plan[0]\n', 'replace': '    return plan[-1]\n'},
    {"id": 'c10-pets-candidates-unbounded', 'file': 'rl_blox/algorithm/pets.py', 'rule': 'R5', 'find': '    actions = config.sample_fn(mean, var, sampling_key)\n', 'replace': '    actions = mean[jnp.newaxis] + jnp.sqrt(var)[jnp.newaxis] * jax.random.normal(sampling_key, (config.n_samples,) + mean.shape)\n'},
    {"id": 'c10-pets-optimizer-other-space', 'file': 'rl_blox/algorithm/pets.py', 'rule': 'R5', 'find': '    sample_fn, update_fn = _init_mpc_optimizer_cem(\n        env.action_space, plan_horizon, n_samples\n    )', 'replace': '    sample_fn, update_fn = _init_mpc_optimizer_cem(\n        env.observation_space, plan_horizon, n_samples\n    )'},
    {"id": "c10-cem-clip-swapped", "file": _C, "rule": "R4", "find": "    return samples\n\n\ndef cem_update(", "replace": "    return jnp.clip(samples, ub, lb)\n\n\ndef cem_update("},
    {'id': 'c10-built-sta-noise-unscaled', 'file': 'rl_blox/algorithm/td3.py', 'rule': 'R2', 'edits': [('    action_scale: jnp.ndarray,\n    exploration_noise: float,\n    noise_clip: float,\n    policy: DeterministicTanhPolicy,', '    sigma: jnp.ndarray,\n    max_abs_noise: jnp.ndarray,\n    policy: DeterministicTanhPolicy,'), ('    eps = (\n        exploration_noise * action_scale * jax.random.normal(key, action.shape)\n    )\n    scaled_noise_clip = action_scale * noise_clip\n    clipped_eps = jnp.clip(eps, -scaled_noise_clip, scaled_noise_clip)\n', '    eps = sigma * jax.random.normal(key, action.shape)\n    clipped_eps = jnp.clip(eps, -max_abs_noise, max_abs_noise)\n'), ('            action_space.high,\n            action_scale,\n            exploration_noise,\n            noise_clip,\n        )', '            action_space.high,\n            exploration_noise,\n            action_scale * noise_clip,\n        )')]},
    {'id': 'c10-built-sta-clip-scaled-twice', 'file': 'rl_blox/algorithm/td3.py', 'rule': 'R2', 'edits': [('    action_scale: jnp.ndarray,\n    exploration_noise: float,\n    noise_clip: float,\n    policy: DeterministicTanhPolicy,', '    sigma: jnp.ndarray,\n    max_abs_noise: jnp.ndarray,\n    policy: DeterministicTanhPolicy,'), ('    eps = (\n        exploration_noise * action_scale * jax.random.normal(key, action.shape)\n    )\n    scaled_noise_clip = action_scale * noise_clip\n    clipped_eps = jnp.clip(eps, -scaled_noise_clip, scaled_noise_clip)\n', '    eps = sigma * jax.random.normal(key, action.shape)\n    clipped_eps = jnp.clip(eps, -max_abs_noise * sigma, max_abs_noise * sigma)\n'), ('            action_space.high,\n            action_scale,\n            exploration_noise,\n            noise_clip,\n        )', '            action_space.high,\n            exploration_noise * action_scale,\n            action_scale * noise_clip,\n        )')]},
    {'id': 'c10-built-sa-space-full-range', 'file': 'rl_blox/algorithm/ddpg.py', 'rule': 'R2', 'edits': [('def sample_actions(\n    action_low: jnp.ndarray,\n    action_high: jnp.ndarray,\n    action_scale: jnp.ndarray,\n    exploration_noise: float,\n    policy: DeterministicTanhPolicy,', 'def sample_actions(\n    box: gym.spaces.Box,\n    exploration_noise: float,\n    policy: DeterministicTanhPolicy,'), ('    eps = (\n        exploration_noise * action_scale * jax.random.normal(key, action.shape)\n    )\n    exploring_action', '    eps = exploration_noise * (box.high - box.low) * jax.random.normal(key, action.shape)\n    exploring_action'), ('    return jnp.clip(exploring_action, action_low, action_high)', '    return jnp.clip(exploring_action, box.low, box.high)'), ('            sample_actions,\n            action_space.low,\n            action_space.high,\n            action_scale,\n            exploration_noise,\n        )', '            sample_actions,\n            action_space,\n            exploration_noise,\n        )')]},
    {'id': 'c10-factory-pack-swapped', 'file': 'rl_blox/algorithm/td3.py', 'rule': 'R1', 'find': '            sample_target_actions,\n            action_space.low,\n            action_space.high,\n            action_scale,\n            exploration_noise,\n            noise_clip,\n        )', 'replace': '            sample_target_actions,\n            *(action_space.high, action_space.low, action_scale),\n            exploration_noise,\n            noise_clip,\n        )'},
    {'id': 'c10-operator-sub-noise', 'file': 'rl_blox/algorithm/td3.py', 'rule': 'R2', 'edits': [('from collections import namedtuple\n', 'import operator\nfrom collections import namedtuple\n'), ('    return jnp.clip(action + clipped_eps, action_low, action_high)', '    return jnp.clip(operator.sub(action, 2.0 * clipped_eps), action_low, action_high)')]},
    {'id': 'c10-mpc-initial-plan-conditional-doubled', 'file': 'rl_blox/algorithm/pets.py', 'rule': 'R5', 'find': '    if config.init_with_previous_plan:\n        plan = state.prev_plan\n    else:\n        plan = jnp.broadcast_to(config.avg_act, state.prev_plan.shape)\n', 'replace': '    plan = 2.0 * state.prev_plan if config.init_with_previous_plan else jnp.broadcast_to(config.avg_act, state.prev_plan.shape)\n'},
    {'id': 'c10-opt-loop-break-returns-variance', 'file': 'rl_blox/algorithm/pets.py', 'rule': 'R5', 'edits': [('    for _ in range(config.n_opt_iter):\n        mean, var, best_plan', '    rounds = 0\n    while True:\n        if rounds == config.n_opt_iter:\n            break\n        rounds = rounds + 1\n        mean, var, best_plan'), ('            best_return,\n        )\n\n    return mean\n', '            best_return,\n        )\n\n    return var\n')]},
    {'id': 'c10-bounds-atleast2d-swapped', 'file': 'rl_blox/algorithm/pets.py', 'rule': 'R5', 'find': '    lower_bound = jnp.vstack([action_space.low for _ in range(plan_horizon)])', 'replace': '    lower_bound = jnp.tile(jnp.atleast_2d(action_space.high), (plan_horizon, 1))'},
    {'id': 'c10-built-sta-policy-first-clip-unscaled', 'file': 'rl_blox/algorithm/td3.py', 'rule': 'R2', 'edits': [('def sample_target_actions(\n    action_low: jnp.ndarray,', 'def sample_target_actions(\n    policy: DeterministicTanhPolicy,\n    obs: jnp.ndarray,\n    key: jnp.ndarray,\n    action_low: jnp.ndarray,'), ('    noise_clip: float,\n    policy: DeterministicTanhPolicy,\n    obs: jnp.ndarray,\n    key: jnp.ndarray,\n) -> jnp.ndarray:\n    r"""Sample target', '    noise_clip: float,\n) -> jnp.ndarray:\n    r"""Sample target'), ('            sample_target_actions,\n            action_space.low,\n            action_space.high,\n            action_scale,\n            exploration_noise,\n            noise_clip,\n        )', '            sample_target_actions,\n            action_low=action_space.low,\n            action_high=action_space.high,\n            action_scale=action_scale,\n            exploration_noise=exploration_noise,\n            noise_clip=noise_clip,\n        )'), ('    scaled_noise_clip = action_scale * noise_clip\n', '    scaled_noise_clip = noise_clip\n')]},
    {'id': 'c10-mpc-initial-plan-conditional-argument-doubled', 'file': 'rl_blox/algorithm/pets.py', 'rule': 'R5', 'find': '    if config.init_with_previous_plan:\n        plan = state.prev_plan\n    else:\n        plan = jnp.broadcast_to(config.avg_act, state.prev_plan.shape)\n\n    plan = optimize_fn(state.dynamics_model, plan, opt_key, obs)\n', 'replace': '    plan = optimize_fn(\n        state.dynamics_model,\n        state.prev_plan if config.init_with_previous_plan else 2.0 * jnp.broadcast_to(config.avg_act, state.prev_plan.shape),\n        opt_key,\n        obs,\n    )\n'},
]
BENIGN = [
    {"id": "c10-b-bounds-tile-cut-by-shape-value", "file": "rl_blox/algorithm/pets.py", "find": '    lower_bound = jnp.vstack([action_space.low for _ in range(plan_horizon)])\n', "replace": '    rows = (plan_horizon,) + action_space.shape\n    lower_bound = jnp.tile(action_space.low, plan_horizon).reshape(rows)\n'},
    {"id": "c10-b-bounds-tile", "file": "rl_blox/algorithm/pets.py", "find": "    lower_bound = jnp.vstack([action_space.low for _ in range(plan_horizon)])", "replace": "    lower_bound = jnp.tile(action_space.low, (plan_horizon, 1))"},
    {"id": "c10-b-bounds-repeat-axis0", "file": "rl_blox/algorithm/pets.py", "find": "    upper_bound = jnp.vstack([action_space.high for _ in range(plan_horizon)])", "replace": "    upper_bound = jnp.repeat(action_space.high[None], plan_horizon, axis=0)"},
    {"id": "c10-b-noise-clip-zero-branch", "file": "rl_blox/algorithm/td3.py", "find": "    clipped_eps = jnp.clip(eps, -scaled_noise_clip, scaled_noise_clip)\n", "replace": "    clipped_eps = 0.0 * eps\n    if noise_clip:\n        clipped_eps = jnp.clip(eps, -scaled_noise_clip, scaled_noise_clip)\n"},
    {"id": "c10-b-cem-clip-samples", "file": _C, "find": "    return samples\n\n\ndef cem_update(", "replace": "    return jnp.clip(samples, lb, ub)\n\n\ndef cem_update("},
    {"id": "c10-b-cem-quarter", "file": _C, "find": "        jnp.minimum((0.5 * lb_dist) ** 2, (0.5 * ub_dist) ** 2),", "replace": "        jnp.minimum(0.25 * lb_dist**2, 0.25 * jnp.square(ub_dist)),"},
    {"id": "c10-b-cem-update-rewritten", "file": _C, "find": "    mean = alpha * mean + (1.0 - alpha) * jnp.mean(elites, axis=0)", "replace": "    elite_mean = jnp.mean(elites, axis=0)\n    mean = elite_mean + alpha * (mean - elite_mean)"},
    {"id": "c10-b-scale-div2", "file": _D, "find": "    action_scale = 0.5 * (action_space.high - action_space.low)", "replace": "    action_scale = (action_space.high - action_space.low) / 2"},
    {"id": "c10-b-inline-explore", "file": _D, "find": "    exploring_action = action + eps\n    return jnp.clip(exploring_action, action_low, action_high)", "replace": "    return jnp.clip(eps + action, action_low, action_high)"},
    {"id": "c10-b-tanh-commuted", "file": _H, "find": "        return nnx.tanh(y) * jnp.broadcast_to(\n            self.action_scale.value, y.shape\n        ) + jnp.broadcast_to(self.action_bias.value, y.shape)", "replace": "        return jnp.broadcast_to(self.action_bias.value, y.shape) + jnp.broadcast_to(\n            self.action_scale.value, y.shape\n        ) * nnx.tanh(y)"},
    {"id": "c10-b-cem-local", "file": _C, "find": "    lb_dist = mean - lb\n    ub_dist = ub - mean\n", "replace": "    ub_dist = ub - mean\n    lb_dist = mean - lb\n"},
    {"id": 'c10-b-sampler-params-renamed', 'file': 'rl_blox/algorithm/ddpg.py', 'edits': [('    policy: DeterministicTanhPolicy,\n    obs: jnp.ndarray,\n    key: jnp.ndarray,\n) -> jnp.ndarray:\n    r"""Sample actions with deterministic policy and Gaussian action noise.', '    policy: DeterministicTanhPolicy,\n    observation: jnp.ndarray,\n    rng_key: jnp.ndarray,\n) -> jnp.ndarray:\n    r"""Sample actions with deterministic policy and Gaussian action noise.'), ('    action = policy(obs)\n    eps = (\n        exploration_noise * action_scale * jax.random.normal(key, action.shape)\n    )\n    exploring_action', '    action = policy(observation)\n    eps = (\n        exploration_noise * action_scale * jax.random.normal(rng_key, action.shape)\n    )\n    exploring_action')]},
    {"id": 'c10-b-sampler-bounds-renamed', 'file': 'rl_blox/algorithm/ddpg.py', 'edits': [('def sample_actions(\n    action_low: jnp.ndarray,\n    action_high: jnp.ndarray,', 'def sample_actions(\n    low: jnp.ndarray,\n    high: jnp.ndarray,'), ('    return jnp.clip(exploring_action, action_low, action_high)', '    return jnp.clip(exploring_action, low, high)')]},
    {"id": 'c10-b-sampler-early-return', 'file': 'rl_blox/algorithm/ddpg.py', 'find': '    action = policy(obs)\n    eps = (', 'replace': '    action = policy(obs)\n    if not exploration_noise:\n        return jnp.clip(action, action_low, action_high)\n    eps = ('},
    {"id": 'c10-b-factory-param-renamed', 'file': 'rl_blox/algorithm/ddpg.py', 'edits': [('def make_sample_actions(\n    action_space: gym.spaces.Box,', 'def make_sample_actions(\n    space: gym.spaces.Box,'), ('    action_scale = 0.5 * (action_space.high - action_space.low)\n    return nnx.jit(\n        partial(\n            sample_actions,\n            action_space.low,\n            action_space.high,', '    action_scale = 0.5 * (space.high - space.low)\n    return nnx.jit(\n        partial(\n            sample_actions,\n            space.low,\n            space.high,')]},
    {"id": 'c10-b-factory-closure', 'file': 'rl_blox/algorithm/ddpg.py', 'find': '    return nnx.jit(\n        partial(\n            sample_actions,\n            action_space.low,\n            action_space.high,\n            action_scale,\n            exploration_noise,\n        )\n    )', 'replace': '    @nnx.jit\n    def _sample(policy, obs, key):\n        return sample_actions(action_space.low, action_space.high, action_scale, exploration_noise, policy, obs, key)\n\n    return _sample'},
    {"id": 'c10-b-loop-space-in-local', 'file': 'rl_blox/algorithm/td3.py', 'find': '    _sample_actions = make_sample_actions(env.action_space, exploration_noise)', 'replace': '    act_space = env.action_space\n    _sample_actions = make_sample_actions(act_space, exploration_noise)'},
    {"id": 'c10-b-loop-factory-keywords', 'file': 'rl_blox/algorithm/td3.py', 'find': '    _sample_actions = make_sample_actions(env.action_space, exploration_noise)', 'replace': '    _sample_actions = make_sample_actions(exploration_noise=exploration_noise, action_space=env.action_space)'},
    {"id": 'c10-b-loop-direct-partial', 'file': 'rl_blox/algorithm/ddpg.py', 'find': '    _sample_actions = make_sample_actions(env.action_space, exploration_noise)', 'replace': '    _sample_actions = nnx.jit(partial(sample_actions, env.action_space.low, env.action_space.high, 0.5 * (env.action_space.high - env.action_space.low), exploration_noise))'},
    {"id": 'c10-b-head-annotated-assignment', 'file': 'rl_blox/blox/function_approximator/policy_head.py', 'nth': 0, 'find': '        self.action_scale = nnx.Variable(\n', 'replace': '        self.action_scale: nnx.Variable = nnx.Variable(\n'},
    {"id": 'c10-b-head-scaling-in-base-class', 'file': 'rl_blox/blox/function_approximator/policy_head.py', 'edits': [('class DeterministicTanhPolicy(nnx.Module):', 'class _TanhScaling(nnx.Module):\n    def scale_output(self, y: jnp.ndarray) -> jnp.ndarray:\n        return nnx.tanh(y) * jnp.broadcast_to(\n            self.action_scale.value, y.shape\n        ) + jnp.broadcast_to(self.action_bias.value, y.shape)\n\n\nclass DeterministicTanhPolicy(_TanhScaling):'), ('        return self.scale_output(y)\n\n    def scale_output(self, y: jnp.ndarray) -> jnp.ndarray:\n        return nnx.tanh(y) * jnp.broadcast_to(\n            self.action_scale.value, y.shape\n        ) + jnp.broadcast_to(self.action_bias.value, y.shape)\n', '        return self.scale_output(y)\n')]},
    {"id": 'c10-b-head-constructor-in-base-class', 'file': 'rl_blox/blox/function_approximator/policy_head.py', 'edits': [('class DeterministicTanhPolicy(nnx.Module):', 'class _BoxScaled(nnx.Module):\n    def __init__(self, policy_net: nnx.Module, action_space: gym.spaces.Box):\n        self.policy_net = policy_net\n        self.action_scale = nnx.Variable(\n            jnp.array((action_space.high - action_space.low) / 2.0)\n        )\n        self.action_bias = nnx.Variable(\n            jnp.array((action_space.high + action_space.low) / 2.0)\n        )\n\n\nclass DeterministicTanhPolicy(_BoxScaled):'), ('    def __init__(self, policy_net: nnx.Module, action_space: gym.spaces.Box):\n        self.policy_net = policy_net\n        self.action_scale = nnx.Variable(\n            jnp.array((action_space.high - action_space.low) / 2.0)\n        )\n        self.action_bias = nnx.Variable(\n            jnp.array((action_space.high + action_space.low) / 2.0)\n        )\n\n    def __call__(self, observation: jnp.ndarray) -> jnp.ndarray:\n        y = self.policy_net(observation)', '    def __call__(self, observation: jnp.ndarray) -> jnp.ndarray:\n        y = self.policy_net(observation)')]},
    {"id": 'c10-b-head-tuple-assignment', 'file': 'rl_blox/blox/function_approximator/policy_head.py', 'nth': 0, 'find': '        self.action_scale = nnx.Variable(\n            jnp.array((action_space.high - action_space.low) / 2.0)\n        )\n        self.action_bias = nnx.Variable(\n            jnp.array((action_space.high + action_space.low) / 2.0)\n        )', 'replace': '        low, high = action_space.low, action_space.high\n        self.action_scale, self.action_bias = nnx.Variable(jnp.array((high - low) / 2.0)), nnx.Variable(jnp.array((high + low) / 2.0))'},
    {"id": 'c10-b-head-param-renamed', 'file': 'rl_blox/blox/function_approximator/policy_head.py', 'find': '    def scale_output(self, y: jnp.ndarray) -> jnp.ndarray:\n        return nnx.tanh(y) * jnp.broadcast_to(\n            self.action_scale.value, y.shape\n        ) + jnp.broadcast_to(self.action_bias.value, y.shape)', 'replace': '    def scale_output(self, raw: jnp.ndarray) -> jnp.ndarray:\n        return nnx.tanh(raw) * jnp.broadcast_to(\n            self.action_scale.value, raw.shape\n        ) + jnp.broadcast_to(self.action_bias.value, raw.shape)'},
    {"id": 'c10-b-wrapper-local', 'file': 'rl_blox/blox/embedding/model_based_encoder.py', 'find': '        return self.policy(self.encoder.encode_zs(observation))', 'replace': '        zs = self.encoder.encode_zs(observation)\n        return self.policy(zs)'},
    {"id": 'c10-b-wrapper-attribute-renamed', 'file': 'rl_blox/blox/embedding/sale.py', 'edits': [('        self.policy_net = policy_net\n        self.l0 = nnx.Linear(n_state_features', '        self.head = policy_net\n        self.l0 = nnx.Linear(n_state_features'), ('        return self.policy_net(he)', '        return self.head(he)')]},
    {"id": 'c10-b-opt-iter-local-renamed', 'file': 'rl_blox/algorithm/pets.py', 'edits': [('    actions = config.sample_fn(mean, var, sampling_key)\n    chex.assert_shape(\n        actions,', '    candidates = config.sample_fn(mean, var, sampling_key)\n    actions = candidates\n    chex.assert_shape(\n        actions,')]},
    {"id": 'c10-b-opt-iter-result-locals', 'file': 'rl_blox/algorithm/pets.py', 'edits': [('    mean, var = config.update_fn(actions, expected_returns, mean, var)\n', '    new_mean, new_var = config.update_fn(actions, expected_returns, mean, var)\n    mean, var = new_mean, new_var\n')]},
    {"id": 'c10-b-mpc-params-renamed', 'file': 'rl_blox/algorithm/pets.py', 'edits': [('def mpc_action(\n    config: PETSMPCConfig,\n    state: PETSMPCState,\n    optimize_fn:', 'def mpc_action(\n    cfg: PETSMPCConfig,\n    mpc: PETSMPCState,\n    optimizer:'), ('    state.key, opt_key = jax.random.split(state.key, 2)\n    if config.init_with_previous_plan:\n        plan = state.prev_plan\n    else:\n        plan = jnp.broadcast_to(config.avg_act, state.prev_plan.shape)\n\n    plan = optimize_fn(state.dynamics_model, plan, opt_key, obs)\n\n    state.prev_plan = jnp.concatenate(\n        (plan[1:], config.avg_act[jnp.newaxis]), axis=0\n    )', '    mpc.key, opt_key = jax.random.split(mpc.key, 2)\n    if cfg.init_with_previous_plan:\n        plan = mpc.prev_plan\n    else:\n        plan = jnp.broadcast_to(cfg.avg_act, mpc.prev_plan.shape)\n\n    plan = optimizer(mpc.dynamics_model, plan, opt_key, obs)\n\n    mpc.prev_plan = jnp.concatenate(\n        (plan[1:], cfg.avg_act[jnp.newaxis]), axis=0\n    )')]},
    {"id": 'c10-b-mpc-locals', 'file': 'rl_blox/algorithm/pets.py', 'edits': [('    plan = optimize_fn(state.dynamics_model, plan, opt_key, obs)\n\n    state.prev_plan = jnp.concatenate(\n        (plan[1:], config.avg_act[jnp.newaxis]), axis=0\n    )\n\n    return plan[0]', '    best = optimize_fn(state.dynamics_model, plan, opt_key, obs)\n    first, rest = best[0], best[1:]\n    state.prev_plan = jnp.concatenate(\n        (rest, config.avg_act[jnp.newaxis]), axis=0\n    )\n    return first')]},
    {"id": 'c10-b-mpc-pad-none-axis', 'file': 'rl_blox/algorithm/pets.py', 'find': '        (plan[1:], config.avg_act[jnp.newaxis]), axis=0', 'replace': '        (plan[1:], config.avg_act[None]), axis=0'},
    {"id": 'c10-b-pets-init-keywords', 'file': 'rl_blox/algorithm/pets.py', 'find': '    sample_fn, update_fn = _init_mpc_optimizer_cem(\n        env.action_space, plan_horizon, n_samples\n    )', 'replace': '    sample_fn, update_fn = _init_mpc_optimizer_cem(\n        action_space=env.action_space, plan_horizon=plan_horizon, n_samples=n_samples\n    )'},
    {"id": 'c10-b-pets-config-positional', 'file': 'rl_blox/algorithm/pets.py', 'find': '    mpc_config = PETSMPCConfig(\n        plan_horizon=plan_horizon,\n        n_particles=n_particles,', 'replace': '    mpc_config = PETSMPCConfig(\n        plan_horizon,\n        n_particles=n_particles,'},
    {"id": 'c10-b-pets-step-keyword', 'file': 'rl_blox/algorithm/pets.py', 'find': '        next_obs, reward, termination, truncation, info = env.step(action)', 'replace': '        next_obs, reward, termination, truncation, info = env.step(action=action)'},
    {"id": 'c10-b-cem-params-renamed', 'file': 'rl_blox/blox/cross_entropy_method.py', 'edits': [('def cem_sample(\n    mean: jnp.ndarray,\n    var: jnp.ndarray,', 'def cem_sample(\n    mu: jnp.ndarray,\n    sigma2: jnp.ndarray,'), ('    chex.assert_equal_shape((mean, var))\n    chex.assert_equal_shape((mean, lb))\n    chex.assert_equal_shape((mean, ub))\n\n    lb_dist = mean - lb\n    ub_dist = ub - mean\n    constrained_var = jnp.minimum(\n        jnp.minimum((0.5 * lb_dist) ** 2, (0.5 * ub_dist) ** 2),\n        var,\n    )\n    samples = (\n        jax.random.truncated_normal(\n            step_key, -2.0, 2.0, shape=(n_population,) + mean.shape\n        )\n        * jnp.sqrt(constrained_var)[jnp.newaxis]\n        + mean[jnp.newaxis]\n    )', '    chex.assert_equal_shape((mu, sigma2))\n    chex.assert_equal_shape((mu, lb))\n    chex.assert_equal_shape((mu, ub))\n\n    lb_dist = mu - lb\n    ub_dist = ub - mu\n    constrained_var = jnp.minimum(\n        jnp.minimum((0.5 * lb_dist) ** 2, (0.5 * ub_dist) ** 2),\n        sigma2,\n    )\n    samples = (\n        jax.random.truncated_normal(\n            step_key, -2.0, 2.0, shape=(n_population,) + mu.shape\n        )\n        * jnp.sqrt(constrained_var)[jnp.newaxis]\n        + mu[jnp.newaxis]\n    )')]},
    {"id": 'c10-b-cem-update-params-renamed', 'file': 'rl_blox/blox/cross_entropy_method.py', 'edits': [('    fitness: jnp.ndarray,\n    mean: jnp.ndarray,\n    var: jnp.ndarray,\n    n_elite: int,\n    alpha: float,\n) -> tuple[jnp.ndarray, jnp.ndarray]:', '    fitness: jnp.ndarray,\n    old_mean: jnp.ndarray,\n    old_var: jnp.ndarray,\n    n_elite: int,\n    alpha: float,\n) -> tuple[jnp.ndarray, jnp.ndarray]:'), ('    mean = alpha * mean + (1.0 - alpha) * jnp.mean(elites, axis=0)\n    var = alpha * var + (1.0 - alpha) * jnp.var(elites, axis=0)', '    mean = alpha * old_mean + (1.0 - alpha) * jnp.mean(elites, axis=0)\n    var = alpha * old_var + (1.0 - alpha) * jnp.var(elites, axis=0)')]},
    {"id": 'c10-b-init-cem-param-renamed', 'file': 'rl_blox/algorithm/pets.py', 'edits': [('def _init_mpc_optimizer_cem(\n    action_space: gym.spaces.Box,', 'def _init_mpc_optimizer_cem(\n    box: gym.spaces.Box,'), ('    lower_bound = jnp.vstack([action_space.low for _ in range(plan_horizon)])\n    upper_bound = jnp.vstack([action_space.high for _ in range(plan_horizon)])', '    lower_bound = jnp.vstack([box.low for _ in range(plan_horizon)])\n    upper_bound = jnp.vstack([box.high for _ in range(plan_horizon)])')]},
    {'id': 'c10-b-built-sta-absolute-units', 'file': 'rl_blox/algorithm/td3.py', 'edits': [('    action_scale: jnp.ndarray,\n    exploration_noise: float,\n    noise_clip: float,\n    policy: DeterministicTanhPolicy,', '    sigma: jnp.ndarray,\n    max_abs_noise: jnp.ndarray,\n    policy: DeterministicTanhPolicy,'), ('    eps = (\n        exploration_noise * action_scale * jax.random.normal(key, action.shape)\n    )\n    scaled_noise_clip = action_scale * noise_clip\n    clipped_eps = jnp.clip(eps, -scaled_noise_clip, scaled_noise_clip)\n', '    eps = sigma * jax.random.normal(key, action.shape)\n    clipped_eps = jnp.clip(eps, -max_abs_noise, max_abs_noise)\n'), ('            action_space.high,\n            action_scale,\n            exploration_noise,\n            noise_clip,\n        )', '            action_space.high,\n            exploration_noise * action_scale,\n            action_scale * noise_clip,\n        )')]},
    {'id': 'c10-b-built-sa-takes-space', 'file': 'rl_blox/algorithm/ddpg.py', 'edits': [('def sample_actions(\n    action_low: jnp.ndarray,\n    action_high: jnp.ndarray,\n    action_scale: jnp.ndarray,\n    exploration_noise: float,\n    policy: DeterministicTanhPolicy,', 'def sample_actions(\n    box: gym.spaces.Box,\n    exploration_noise: float,\n    policy: DeterministicTanhPolicy,'), ('    eps = (\n        exploration_noise * action_scale * jax.random.normal(key, action.shape)\n    )\n    exploring_action', '    eps = exploration_noise * ((box.high - box.low) / 2) * jax.random.normal(key, action.shape)\n    exploring_action'), ('    return jnp.clip(exploring_action, action_low, action_high)', '    return jnp.clip(exploring_action, box.low, box.high)'), ('            sample_actions,\n            action_space.low,\n            action_space.high,\n            action_scale,\n            exploration_noise,\n        )', '            sample_actions,\n            action_space,\n            exploration_noise,\n        )')]},
    {'id': 'c10-b-built-sta-keywords-reordered', 'file': 'rl_blox/algorithm/td3.py', 'find': '            sample_target_actions,\n            action_space.low,\n            action_space.high,\n            action_scale,\n            exploration_noise,\n            noise_clip,\n        )', 'replace': '            sample_target_actions,\n            noise_clip=noise_clip,\n            exploration_noise=exploration_noise,\n            action_scale=action_scale,\n            action_high=action_space.high,\n            action_low=action_space.low,\n        )'},
    {'id': 'c10-b-factory-pack', 'file': 'rl_blox/algorithm/ddpg.py', 'find': '    return nnx.jit(\n        partial(\n            sample_actions,\n            action_space.low,\n            action_space.high,\n            action_scale,\n            exploration_noise,\n        )\n    )', 'replace': '    fixed = [action_space.low, action_space.high, action_scale]\n    return nnx.jit(partial(sample_actions, *fixed, exploration_noise))'},
    {'id': 'c10-b-operator-add', 'file': 'rl_blox/algorithm/ddpg.py', 'edits': [('from collections import namedtuple\n', 'from collections import namedtuple\nfrom operator import add, mul\n'), ('    exploring_action = action + eps\n', '    exploring_action = add(eps, mul(1.0, action))\n')]},
    {'id': 'c10-b-mpc-initial-plan-conditional', 'file': 'rl_blox/algorithm/pets.py', 'find': '    if config.init_with_previous_plan:\n        plan = state.prev_plan\n    else:\n        plan = jnp.broadcast_to(config.avg_act, state.prev_plan.shape)\n\n    plan = optimize_fn(state.dynamics_model, plan, opt_key, obs)\n', 'replace': '    start = jnp.broadcast_to(config.avg_act, state.prev_plan.shape) if not config.init_with_previous_plan else state.prev_plan\n    plan = optimize_fn(state.dynamics_model, start, opt_key, obs)\n'},
    {'id': 'c10-b-opt-loop-break', 'file': 'rl_blox/algorithm/pets.py', 'find': '    for _ in range(config.n_opt_iter):\n        mean, var, best_plan', 'replace': '    rounds = 0\n    while True:\n        if rounds == config.n_opt_iter:\n            break\n        rounds = rounds + 1\n        mean, var, best_plan'},
    {'id': 'c10-b-opt-loop-while-counter', 'file': 'rl_blox/algorithm/pets.py', 'find': '    for _ in range(config.n_opt_iter):\n        mean, var, best_plan', 'replace': '    left = config.n_opt_iter\n    while left > 0:\n        left -= 1\n        mean, var, best_plan'},
    {'id': 'c10-b-bounds-expand-dims-tile', 'file': 'rl_blox/algorithm/pets.py', 'find': '    upper_bound = jnp.vstack([action_space.high for _ in range(plan_horizon)])', 'replace': '    upper_bound = jnp.tile(jnp.expand_dims(action_space.high, 0), (plan_horizon, 1))'},
    {'id': 'c10-b-bounds-atleast2d-tile', 'file': 'rl_blox/algorithm/pets.py', 'find': '    lower_bound = jnp.vstack([action_space.low for _ in range(plan_horizon)])', 'replace': '    lower_bound = jnp.tile(jnp.atleast_2d(action_space.low), (plan_horizon, 1))'},
    {'id': 'c10-b-built-sta-policy-first', 'file': 'rl_blox/algorithm/td3.py', 'edits': [('def sample_target_actions(\n    action_low: jnp.ndarray,', 'def sample_target_actions(\n    policy: DeterministicTanhPolicy,\n    obs: jnp.ndarray,\n    key: jnp.ndarray,\n    action_low: jnp.ndarray,'), ('    noise_clip: float,\n    policy: DeterministicTanhPolicy,\n    obs: jnp.ndarray,\n    key: jnp.ndarray,\n) -> jnp.ndarray:\n    r"""Sample target', '    noise_clip: float,\n) -> jnp.ndarray:\n    r"""Sample target'), ('            sample_target_actions,\n            action_space.low,\n            action_space.high,\n            action_scale,\n            exploration_noise,\n            noise_clip,\n        )', '            sample_target_actions,\n            action_low=action_space.low,\n            action_high=action_space.high,\n            action_scale=action_scale,\n            exploration_noise=exploration_noise,\n            noise_clip=noise_clip,\n        )')]},
    {'id': 'c10-b-mpc-initial-plan-conditional-argument', 'file': 'rl_blox/algorithm/pets.py', 'find': '    if config.init_with_previous_plan:\n        plan = state.prev_plan\n    else:\n        plan = jnp.broadcast_to(config.avg_act, state.prev_plan.shape)\n\n    plan = optimize_fn(state.dynamics_model, plan, opt_key, obs)\n', 'replace': '    plan = optimize_fn(\n        state.dynamics_model,\n        state.prev_plan if config.init_with_previous_plan else jnp.broadcast_to(config.avg_act, state.prev_plan.shape),\n        opt_key,\n        obs,\n    )\n'},
]
