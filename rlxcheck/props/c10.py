"""C10 - actions sent to the environment respect the action-space bounds."""
from __future__ import annotations

import ast

from ..loops import dotted, find_env_loop, strip_wrappers
from ..nf import NF, Scope, Poly, parse_expr
from ..repo import Repo, loc, short, AnalysisError, positional_params, param_names, bind_call
from ..resolve import Resolver
from ..sem import same_ingredients
from ..identity import _project_expr
from ..cfg import Def

EXPLANATION = (
    "The exploration / target-smoothing samplers and the tanh head are compared as normal forms with the documented formulas "
    "(clip domination is part of the formula: the returned value *is* clip(., low, high)). The factories are resolved through "
    "partial / jit to check that (low, high, 0.5*(high-low), noise[, noise_clip]) are bound in that order from the same action space. "
    "In every continuous-control loop the env.step argument is traced (reaching definitions) to either the seeded space sampler or the "
    "clipped sampler built from env.action_space. CEM: the proposal formula bounds the standard deviation by half the distance to "
    "either bound and truncates the normal at +-2 (2 * 0.5 <= 1), the update is a convex combination (coefficients alpha and 1-alpha); "
    "the PETS planning chain (bounds stacked from the action space, mid-point initial plan and padding, plan[0] returned) is structural. "
    "That a convex combination of in-box points stays in the box is the standard argument; the checker decides its premises."
)
TRUSTED = ["jnp.clip(x, lo, hi) lies in [lo, hi]; tanh in [-1, 1]; truncated_normal(key, -2, 2) in [-2, 2]; gymnasium Box.low/high/sample", "convexity: alpha*m + (1-alpha)*mean(elites) lies in the box if m and the elites do"]
RULES = {
    "R1-clip-domination": "sample_actions / sample_target_actions return clip(., action_low, action_high); factories bind (space.low, space.high, 0.5*(high-low), ...) in order; every env.step argument of the continuous loops derives from such a sampler on env.action_space or from action_space.sample()",
    "R2-noise-law": "eps == noise * scale * normal(key, action.shape); smoothing adds clip(eps, -scale*noise_clip, +scale*noise_clip)",
    "R3-tanh-head": "scale_output == tanh(y) * (high-low)/2 + (high+low)/2 (both tanh heads), __call__ applies it to the network output",
    "R4-cem-proposal": "samples == truncated_normal(key, -2, 2) * sqrt(min(min((0.5*(mean-lb))^2, (0.5*(ub-mean))^2), var)) + mean",
    "R5-planning-chain": "PETS: lb/ub stacked from action_space.low/high, mean update convex, initial plan / padding = mid-point, executed action = plan[0] of the optimised mean",
}

LOOPS = ["rl_blox.algorithm.ddpg.train_ddpg", "rl_blox.algorithm.td3.train_td3", "rl_blox.algorithm.td3_lap.train_td3_lap", "rl_blox.algorithm.td7.train_td7", "rl_blox.algorithm.mrq.train_mrq"]


def _env(fn):
    return {p: Poly.atom(p, {p}, {p}) for p in param_names(fn)}


def formula(ck, repo, nf, rule, q, spec, key="formula", self_class=None):
    if self_class:
        m = repo.method(self_class, q, inherited=False)
        ck.need(m is not None, f"{self_class}.{q} not found")
        fn = m[1]
        fn._module = repo.cls(self_class)._module
        qual = f"{self_class}.{q}"
        cfg = nf.cfg_of(fn)
        env = {p: Poly.atom(p, {p}, {p}) for p in positional_params(fn) if p != "self"}
        sc = Scope(cfg, fn._module, env, qual, self_class=self_class)
        rets = [n for n in cfg.nodes if n.kind == "stmt" and isinstance(n.ast, ast.Return)]
        got = nf.poly(rets[0].ast.value, sc, rets[0].id)
    else:
        fn = repo.func(q)
        qual = q
        env = _env(fn)
        got = nf.return_poly(q, env)
    want = nf.poly(parse_expr(spec), Scope(None, fn._module, env, qual, self_class=self_class), None)
    ok = got == want
    if not ok and "φ(" in got.canon() and not self_class:
        return _formula_per_path(ck, repo, nf, rule, fn, qual, spec, key)
    if not ok and ("φ(" in got.canon() or not same_ingredients(got, want, ("minimum", "maximum", "clip", "where", "abs"))):
        raise AnalysisError(f"{qual}: `{got.canon()[:120]}` is not written with the documented building blocks / depends on a branch (unrecognised form)")
    ck.ob(rule, qual, key, ok, f"{got.canon()[:170]}", "" if ok else f"differs from the documented formula `{want.canon()[:170]}`", loc(fn._module, fn))
    return got


def _param_default(fn, name):
    a = fn.args
    pos = a.posonlyargs + a.args
    for p_, d_ in zip(pos[len(pos) - len(a.defaults):], a.defaults):
        if p_.arg == name:
            return d_
    for p_, d_ in zip(a.kwonlyargs, a.kw_defaults):
        if p_.arg == name and d_ is not None:
            return d_
    return None


def _formula_per_path(ck, repo, nf, rule, fn, qual, spec, key):
    """The value depends on branches over parameters: compare path by path.  A parameter the documented formula does not mention is
    taken at its default (the formula documents the default configuration); for a parameter of the formula, the falsy arm of a
    truthiness test is the case `parameter == 0` (None is outside the documented domain)."""
    from ..sympath import enumerate_paths, PathEval
    from ..sem import ingredient_tokens
    mi = fn._module
    from ..sem import with_callees_inlined
    fn2 = with_callees_inlined(repo, fn, qual)
    if fn2 is not None:
        ck._keep = getattr(ck, "_keep", []) + [fn2]
        fn = fn2
    cfg = nf.cfg_of(fn)
    params = param_names(fn)
    spec_names = {n.id for n in ast.walk(parse_expr(spec)) if isinstance(n, ast.Name)}
    n_cmp = 0
    seen = set()
    for path in enumerate_paths(cfg, cfg.entry, {cfg.exit}):
        zero, feasible = set(), True
        facts = []
        for nid, lab in path:
            n = cfg.nodes[nid]
            if n.kind != "test" or not hasattr(n.ast, "test") or lab not in (True, False):
                continue
            t = n.ast.test
            neg = False
            while isinstance(t, ast.UnaryOp) and isinstance(t.op, ast.Not):
                t, neg = t.operand, not neg
            kind = None
            if isinstance(t, ast.Name):
                pname, kind = t.id, "truth"
            elif isinstance(t, ast.Compare) and len(t.ops) == 1 and isinstance(t.left, ast.Name) and isinstance(t.comparators[0], ast.Constant) and t.comparators[0].value is None and isinstance(t.ops[0], (ast.Is, ast.IsNot)):
                pname, kind = t.left.id, "none"
                neg = neg != isinstance(t.ops[0], ast.IsNot)
            if kind is None or pname not in params or len(cfg.defs_of(nid, pname)) != 1 or cfg.defs_of(nid, pname)[0].kind != "param":
                raise AnalysisError(f"{qual}: the value depends on the branch `{short(n.ast.test, 50)}`, which is not a test of a parameter (unrecognised form)")
            holds = (lab != neg)       # truth value of `p` / `p is None` on this path
            if pname not in spec_names:
                d_ = _param_default(fn, pname)
                if not isinstance(d_, ast.Constant):
                    raise AnalysisError(f"{qual}: the value depends on `{pname}`, which the documented formula does not mention and which has no constant default")
                dv = (bool(d_.value) if kind == "truth" else d_.value is None)
                if dv != holds:
                    feasible = False
            else:
                if kind == "none":
                    if holds:
                        feasible = False     # None is outside the documented domain of a formula parameter
                elif not holds:
                    zero.add(pname)
                facts.append(f"{pname} {'is None' if kind == 'none' and holds else 'is not None' if kind == 'none' else '!= 0' if holds else '== 0'}")
        if not feasible:
            continue
        env = {p_: (Poly.const(0) if p_ in zero else Poly.atom(p_, {p_}, {p_})) for p_ in params}
        pe = PathEval(nf, cfg, mi, qual, env)
        ret = None
        for nid, lab in path:
            n = cfg.nodes[nid]
            if n.kind == "stmt" and isinstance(n.ast, ast.Return) and n.ast.value is not None:
                ret = pe.ev(n.ast.value)
            pe.step(nid, lab)
        if ret is None:
            raise AnalysisError(f"{qual}: a path returns no value")
        want = nf.poly(parse_expr(spec), Scope(None, mi, env, qual), None)
        sig = (ret.canon(), tuple(sorted(zero)))
        if sig in seen:
            continue
        seen.add(sig)
        ok = ret == want
        want_sym = nf.poly(parse_expr(spec), Scope(None, mi, {p_: Poly.atom(p_, {p_}, {p_}) for p_ in params}, qual), None)
        if not ok and ("φ(" in ret.canon() or not same_ingredients(ret, want_sym, ("minimum", "maximum", "clip", "where", "abs"))):
            raise AnalysisError(f"{qual}: `{ret.canon()[:120]}` ({', '.join(facts) or 'default configuration'}) is not written with the documented building blocks (unrecognised form)")
        n_cmp += 1
        ck.ob(rule, qual, key if n_cmp == 1 else f"{key}:{n_cmp}", ok, f"{ret.canon()[:150]}  [{', '.join(facts) or 'default configuration'}]",
              "" if ok else f"on the path where {', '.join(facts) or 'the defaults apply'} the value differs from the documented formula `{want.canon()[:150]}`", loc(mi, fn))
    if not n_cmp:
        raise AnalysisError(f"{qual}: no path of the function is in the documented domain (unrecognised form)")
    return None


def _stacked_rows(nf, pv, sc):
    """('tiled' | 'interleaved', base canon, count canon) when the value is a per-step quantity laid out over a leading axis:
    tiled = row t is a copy of the base; interleaved = flat element-wise repetition cut into rows (rows mix components)."""
    a = pv.single_atom()
    m = nf.meta.get(a or "", {})
    f = m.get("fn", "").split(".")[-1]
    args, kws = m.get("args", []), m.get("kws", {})
    if f in ("asarray", "array") and len(args) == 1:
        inner = _stacked_rows(nf, args[0], sc)
        if inner:
            return inner
    if f in ("vstack", "stack", "array", "asarray") and len(args) == 1 and (not kws or (set(kws) == {"axis"} and kws["axis"].canon() == "0")):
        t = args[0].canon()
        if t.startswith("⟦") and t.endswith("⟧"):
            try:
                comp = ast.parse(t[1:-1], mode="eval").body
            except SyntaxError:
                return None
            if isinstance(comp, (ast.ListComp, ast.GeneratorExp)) and len(comp.generators) == 1 and not comp.generators[0].ifs:
                g = comp.generators[0]
                tn = {x.id for x in ast.walk(g.target) if isinstance(x, ast.Name)}
                if not tn & {x.id for x in ast.walk(comp.elt) if isinstance(x, ast.Name)} and isinstance(g.iter, ast.Call) and isinstance(g.iter.func, ast.Name) and g.iter.func.id == "range" and len(g.iter.args) == 1:
                    return ("tiled", nf.poly(comp.elt, sc, None).canon(), nf.poly(g.iter.args[0], sc, None).canon())
        return None
    if f == "tile" and len(args) == 2 and args[1].elems is not None and len(args[1].elems) == 2 and args[1].elems[1].canon() == "1":
        return ("tiled", args[0].canon(), args[1].elems[0].canon())
    if f == "repeat" and len(args) == 2 and kws.get("axis") is not None and kws["axis"].canon() == "0":
        bm = nf.meta.get(args[0].single_atom() or "", {})
        at_ = args[0].single_atom() or ""
        if bm.get("fn") == "subscript" and (at_.endswith("[None]") or at_.endswith("[jax.numpy.newaxis]") or at_.endswith("[numpy.newaxis]")):
            return ("tiled", bm["args"][0].canon(), args[1].canon())
    if f == "broadcast_to" and len(args) == 2:
        shp = args[1]
        base_shape = f"{args[0].canon()}.shape"
        lead = [a_ for a_ in shp.atoms() if a_.startswith("(") and a_.endswith(")") and "," not in a_]
        if base_shape in shp.atoms() and len(lead) == 1 and len(shp.terms) == 2:
            return ("tiled", args[0].canon(), lead[0][1:-1])
    if f == "reshape" and len(args) >= 2:
        im = nf.meta.get(args[0].single_atom() or "", {})
        jf = im.get("fn", "").split(".")[-1]
        if jf in ("repeat", "tile") and len(im.get("args", [])) == 2 and not im.get("kws") and im["args"][1].canon() == args[1].canon():
            return ("interleaved" if jf == "repeat" else "tiled", im["args"][0].canon(), args[1].canon())
    return None


def _min_leaves(nf, atom):
    """Leaves of a nested minimum(...) atom (canonical texts)."""
    m = nf.meta.get(atom, {})
    if m.get("fn") in ("minimum", "min") and len(m.get("args", [])) >= 2 and not m.get("kws"):
        out = []
        for a in m["args"]:
            sa = a.single_atom()
            out += _min_leaves(nf, sa) if sa and nf.meta.get(sa, {}).get("fn") in ("minimum", "min") else [a]
        return out
    return None


def _cem_parts(nf, CS, env):
    """('clip', args) | ('affine', T, leaves, squared) | raises AnalysisError.  leaves: Polys whose minimum is the std (squared=False) or the variance (squared=True)."""
    got = nf.return_poly(CS, env)
    sa = got.single_atom()
    if sa and nf.meta.get(sa, {}).get("fn") == "clip" and len(nf.meta[sa].get("args", [])) == 3:
        a3 = [x.canon() for x in nf.meta[sa]["args"]]
        lo = [x for x in a3[:2] if x.startswith("lb")]
        return ("clip", [lo[0] if lo else a3[1], a3[2]], sa)
    mean_b = [a for a in got.atoms() if a.startswith("mean[")]
    if len(got.terms) != 2 or len(mean_b) != 1:
        raise AnalysisError(f"{CS}: candidates `{got.canon()[:140]}` are neither clip(., lb, ub) nor noise*std + mean (unrecognised idiom)")
    noise_term = [(m_, c_) for m_, c_ in got.terms.items() if not any(a == mean_b[0] for a, _ in m_)]
    if not (len(noise_term) == 1 and noise_term[0][1] == 1 and len(noise_term[0][0]) == 2):
        # the std may have collapsed to 0 under a substitution: then only the mean term is left
        raise AnalysisError(f"{CS}: perturbation term of `{got.canon()[:140]}` not recognised")
    atoms = [a for a, e in noise_term[0][0]]
    z = next((a for a in atoms if "truncated_normal(" in a), None)
    sd = next((a for a in atoms if a != z), None)
    if z is None:
        return ("untruncated", got.canon())
    zm = nf.meta.get(z, {})
    try:
        lo, hi = float(zm["args"][1].const_value()), float(zm["args"][2].const_value())
    except Exception:
        raise AnalysisError(f"{CS}: truncation bounds of `{z[:80]}` are not constants")
    T = max(abs(lo), abs(hi))
    inner = sd
    while nf.meta.get(inner, {}).get("fn") == "subscript" and nf.meta[inner].get("args"):
        nxt = nf.meta[inner]["args"][0].single_atom()
        if not nxt:
            break
        inner = nxt
    im = nf.meta.get(inner, {})
    is_sqrt = (im.get("fn") == "sqrt" and im.get("args")) or (im.get("fn") == "pow" and len(im.get("args", [])) == 2 and im["args"][1].canon() == "1/2")
    if is_sqrt:
        V = im["args"][0]
        va = V.single_atom()
        leaves = _min_leaves(nf, va) if va else None
        return ("affine", T, leaves if leaves is not None else [V], True)
    leaves = _min_leaves(nf, inner)
    return ("affine", T, leaves if leaves is not None else [Poly.atom(inner)], False)


def _cem_sample(ck, repo, nf, CS):
    """candidates = Z * S + mean with |Z| <= T and S = min(leaves): bounded iff for each bound some leaf is <= c*distance with T*c <= 1;
    a necessary condition is that S vanishes when the mean sits on the bound (decided by substitution lb := mean resp. ub := mean);
    or the candidates are an outermost clip(., lb, ub)."""
    fn = repo.func(CS)
    mi = fn._module
    env = _env(fn)
    where = loc(mi, fn)
    parts = _cem_parts(nf, CS, env)
    if parts[0] == "clip":
        ok = parts[1] in (["lb", "ub"], ["lb[jax.numpy.newaxis]", "ub[jax.numpy.newaxis]"], ["lb[numpy.newaxis]", "ub[numpy.newaxis]"])
        ck.ob("R4-cem-proposal", CS, "bounded", ok, f"return {parts[2][:120]}", "" if ok else "candidates are clipped to something else than [lb, ub]", where)
        return
    if parts[0] == "untruncated":
        ck.ob("R4-cem-proposal", CS, "bounded", False, f"return {parts[1][:140]}", "the perturbation is not drawn from a truncated distribution: candidates are unbounded", where)
        return
    _, T, leaves, squared = parts
    sc = Scope(None, mi, env, CS)
    dl = nf.poly(parse_expr("(mean - lb) ** 2" if squared else "mean - lb"), sc, None)
    du = nf.poly(parse_expr("(ub - mean) ** 2" if squared else "ub - mean"), sc, None)

    def coeff(leaf, d):
        if not leaf.terms or not d.terms or len(leaf.terms) != len(d.terms):
            return None
        ks = set()
        for m_, c_ in d.terms.items():
            if m_ not in leaf.terms:
                return None
            ks.add(leaf.terms[m_] / c_)
        return ks.pop() if len(ks) == 1 else None
    kl = [k for k in (coeff(l, dl) for l in leaves) if k is not None]
    ku = [k for k in (coeff(l, du) for l in leaves) if k is not None]
    lim = (lambda k: T * T * float(k)) if squared else (lambda k: T * float(k))
    verdicts = []
    for side, ks, bound in (("lower", kl, "lb"), ("upper", ku, "ub")):
        if ks:
            okk = lim(min(ks)) <= 1.0 + 1e-12
            verdicts.append((side, okk, f"|Z| <= {T:g}, {'variance' if squared else 'std'} <= {float(min(ks)):g}*{'(distance to ' + bound + ')^2' if squared else 'distance to ' + bound}",
                             "" if okk else f"|Z|*std can reach {(lim(min(ks)) ** 0.5 if squared else lim(min(ks))):.3g} times the distance to the {side} bound (> 1): candidates can cross it"))
            continue
        # no recognised cap for this side: necessary condition - with the mean on the bound the std must vanish
        env2 = dict(env)
        env2[bound] = env["mean"]
        try:
            p2 = _cem_parts(nf, CS, env2)
        except AnalysisError:
            # the perturbation term disappeared entirely: std == 0 on the bound, but the interior is not decided
            raise AnalysisError(f"{CS}: the limit of the sampling std towards the {side} bound has a form this check cannot decide")
        if p2[0] != "affine":
            raise AnalysisError(f"{CS}: sampling form changes under {bound} := mean (unrecognised idiom)")
        l2 = p2[2]
        cond = any(any(t in a for t in ("where(", "Lt(", "LtE(", "Eq(", "select(", "ite(")) for l in l2 for a in l.atoms())
        if any(l.is_zero() for l in l2):
            raise AnalysisError(f"{CS}: the sampling std vanishes on the {side} bound, but its size in the interior ({[l.canon()[:50] for l in leaves]}) is not of the form c*distance: boundedness not decidable here")
        if cond:
            raise AnalysisError(f"{CS}: the sampling std is defined by cases ({[l.canon()[:50] for l in l2]}): boundedness not decidable here")
        verdicts.append((side, False, f"with mean on the {side} bound the std is min{[l.canon()[:60] for l in l2]}",
                         f"no factor of the sampling std vanishes when the mean lies on the {side} bound: it stays positive there for suitable inputs, so candidates cross the bound"))
    ok = all(v[1] for v in verdicts)
    ck.ob("R4-cem-proposal", CS, "bounded", ok, "; ".join(v[2] for v in verdicts), "; ".join(v[3] for v in verdicts if v[3]), where)


def run(ck, repo: Repo, tier: str):
    nf = NF(repo, inline_depth=3)
    res = Resolver(repo)
    SA, STA = "rl_blox.algorithm.ddpg.sample_actions", "rl_blox.algorithm.td3.sample_target_actions"
    formula(ck, repo, nf, "R2-noise-law", SA, "jnp.clip(policy(obs) + exploration_noise * action_scale * jax.random.normal(key, policy(obs).shape), action_low, action_high)")
    formula(ck, repo, nf, "R2-noise-law", STA, "jnp.clip(policy(obs) + jnp.clip(exploration_noise * action_scale * jax.random.normal(key, policy(obs).shape), -(action_scale * noise_clip), action_scale * noise_clip), action_low, action_high)")
    def _section_1():
        # clip domination: the outermost operation of the returned value
        for q in (SA, STA):
            fn = repo.func(q)
            got = nf.return_poly(q, _env(fn))
            a = got.single_atom() or ""
            m = nf.meta.get(a, {})
            a3 = [x.canon() for x in m.get("args", [])]
            ok = m.get("fn") == "clip" and len(a3) == 3 and a3[2] == "action_high" and "action_low" in a3[:2]
            ck.ob("R1-clip-domination", q, "returns-clip(low,high)", ok, f"return {a[:120]}", "" if ok else "the returned action is not clip(., action_low, action_high): it can leave the action space", loc(fn._module, fn))
    ck.guard(_section_1)
    def _section_2():
        # factories
        for fq, target, extra in (("rl_blox.algorithm.ddpg.make_sample_actions", SA, ["exploration_noise"]), ("rl_blox.algorithm.td3.make_sample_target_actions", STA, ["exploration_noise", "noise_clip"])):
            fn = repo.func(fq)
            mi = fn._module
            cfg = nf.cfg_of(fn)
            rets = [n for n in cfg.nodes if n.kind == "stmt" and isinstance(n.ast, ast.Return)]
            t = res.resolve(rets[0].ast.value, mi, res.cfg_of(fn), res.cfg_of(fn).node_of(rets[0].ast).id)
            ok = t is not None and t.qual == target
            if t is None:
                raise AnalysisError(f"{fq}: the returned sampler `{short(rets[0].ast.value, 60)}` cannot be resolved to a function (unrecognised form)")
            ck.ob("R1-clip-domination", fq, "wraps-sampler", ok, f"returns {short(rets[0].ast.value, 60)}", "" if ok else f"factory must return a partial of {target.rsplit('.', 1)[1]}", loc(mi, fn))
            if not ok:
                continue
            sc = Scope(cfg, mi, _env(fn), fq)
            got = [nf.poly(a, sc, rets[0].id).canon() for a in t.prefix]
            want = [nf.poly(parse_expr(x), Scope(None, mi, _env(fn), fq), None).canon() for x in ["action_space.low", "action_space.high", "0.5 * (action_space.high - action_space.low)"] + extra]
            ok = got == want
            ck.ob("R1-clip-domination", fq, "bound-arguments", ok, f"partial({target.rsplit('.', 1)[1]}, {', '.join(got)[:140]})",
                  "" if ok else f"must bind (low, high, 0.5*(high-low), {', '.join(extra)}) in this order: got {got}", loc(mi, rets[0].ast))
    ck.guard(_section_2)
    def _section_3():
        # loops: provenance of the env.step argument
        for lq in LOOPS:
            L = find_env_loop(repo, lq)
            cfg, mi = L.cfg, L.mi
            arg = strip_wrappers(L.step_call.args[0])
            ck.need(isinstance(arg, ast.Name), f"{lq}: env.step argument is not a variable")
            ds = cfg.defs_of(L.step_node, arg.id)
            ck.need(ds, f"{lq}: action has no definition")
            # follow value-preserving wrappers and single-definition locals to the producing call
            work, ds2, seen_d = list(ds), [], set()
            while work:
                d = work.pop()
                if (d.node, d.name) in seen_d:
                    continue
                seen_d.add((d.node, d.name))
                if d.kind == "unpack" and d.value is not None and d.path:
                    pv = _project_expr(d.value, d.path)
                    if pv is not None:
                        d = Def(d.node, d.name, "assign", pv, ())
                v = strip_wrappers(d.value) if d.value is not None else None
                if isinstance(v, ast.Name) and d.kind == "assign":
                    inner = cfg.defs_of(d.node, v.id)
                    if inner and all(x.kind in ("assign", "unpack") for x in inner):
                        work += inner
                        continue
                ds2.append(d)
            for d in ds2:
                v = strip_wrappers(d.value) if d.value is not None else None
                where = loc(mi, cfg.nodes[d.node].ast)
                if isinstance(v, ast.Call) and dotted(v.func) == f"{L.env}.action_space.sample":
                    ck.ob("R1-clip-domination", lq, "step-arg:space-sample", True, f"{arg.id} = {short(d.value, 60)}", "", where)
                    continue
                ok, why = False, "the action passed to env.step is neither the seeded space sample nor the clipped sampler's result"
                if isinstance(v, ast.Call):
                    t = res.resolve(v.func, mi, cfg, d.node)
                    if t is None or not getattr(t, "qual", None):
                        # an unresolved producer is evidence only when it is one of the routine's own parameters (the raw policy network)
                        root_ = v.func
                        while isinstance(root_, ast.Attribute):
                            root_ = root_.value
                        is_param = isinstance(root_, ast.Name) and root_.id in param_names(L.fn) and all(x.kind == "param" for x in cfg.defs_of(d.node, root_.id))
                        if not is_param:
                            raise AnalysisError(f"{lq}: the producer `{short(v.func, 40)}` of the action passed to env.step cannot be resolved (unrecognised form)")
                        why = f"the action passed to env.step is the output of `{short(v.func, 30)}` itself: it does not go through the clipped sampler"
                    if t is not None and t.qual == SA:
                        fac = getattr(t, "factory", None)
                        if fac is not None and fac[0] == "rl_blox.algorithm.ddpg.make_sample_actions":
                            a0 = fac[1].args[0] if fac[1].args else None
                            ok = a0 is not None and ast.unparse(a0) == f"{L.env}.action_space"
                            why = "" if ok else f"the sampler is built for `{ast.unparse(a0) if a0 is not None else None}`, not for {L.env}.action_space"
                        else:
                            why = "sample_actions is not bound through make_sample_actions(env.action_space, ...)"
                ck.ob("R1-clip-domination", lq, "step-arg:clipped-sampler", ok, f"{arg.id} = {short(d.value, 70)}", why, where)
            # no redefinition of the action between sampler and step is implied by reaching definitions
        ck.floor("continuous-loops", len(LOOPS), 5)
    ck.guard(_section_3)
    def _section_4():
        # PETS loop
        L = find_env_loop(repo, "rl_blox.algorithm.pets.train_pets")
        arg = strip_wrappers(L.step_call.args[0])
        def _leaves(e, at, depth=0):
            e = strip_wrappers(e)
            if depth > 8:
                return [(e, at)]
            if isinstance(e, ast.IfExp):
                return _leaves(e.body, at, depth + 1) + _leaves(e.orelse, at, depth + 1)
            if isinstance(e, ast.Name):
                out_ = []
                for d_ in L.cfg.defs_of(at, e.id):
                    v_ = _project_expr(d_.value, d_.path) if d_.kind == "unpack" and d_.value is not None else d_.value
                    if d_.kind in ("assign", "unpack") and v_ is not None:
                        out_ += _leaves(v_, d_.node, depth + 1)
                    else:
                        out_.append((e, at))
                return out_
            return [(e, at)]
        scp = Scope(L.cfg, L.mi, {"env": Poly.atom("env")}, L.qual)
        for e_, at_ in _leaves(arg, L.step_node):
            ok = False
            if isinstance(e_, ast.Call) and isinstance(e_.func, ast.Attribute) and e_.func.attr == "sample" and not e_.args:
                ok = nf.poly(e_.func.value, scp, at_).canon() in (f"{L.env}.action_space", "env.action_space")
            elif isinstance(e_, ast.Call):
                t_ = res.resolve(e_.func, L.mi, L.cfg, at_)
                ok = t_ is not None and t_.qual == "rl_blox.algorithm.pets.mpc_action"
            ck.ob("R5-planning-chain", L.qual, "step-arg", ok, f"{arg.id} <- {short(e_, 70)}", "" if ok else "PETS must execute the space sample (warm-up) or the planner's action", loc(L.mi, e_))
    ck.guard(_section_4)

    def _section_5():
        # R3 tanh heads
        PH = "rl_blox.blox.function_approximator.policy_head."
        formula(ck, repo, nf, "R3-tanh-head", "scale_output", "nnx.tanh(y) * jnp.broadcast_to(self.action_scale.value, y.shape) + jnp.broadcast_to(self.action_bias.value, y.shape)", self_class=PH + "DeterministicTanhPolicy")
        formula(ck, repo, nf, "R3-tanh-head", "__call__", "nnx.tanh(self.policy_net(observation)) * jnp.broadcast_to(self.action_scale.value, self.policy_net(observation).shape) + jnp.broadcast_to(self.action_bias.value, self.policy_net(observation).shape)", key="call-applies-scaling", self_class=PH + "DeterministicTanhPolicy")
        for cq in (PH + "DeterministicTanhPolicy", PH + "GaussianTanhPolicy"):
            init = repo.method(cq, "__init__", inherited=False)[1]
            mi = repo.cls(cq)._module
            vals = {}
            init._module = mi
            icfg = nf.cfg_of(init)
            for n_ in icfg.nodes:
                n = n_.ast
                if n_.kind == "stmt" and isinstance(n, ast.Assign) and isinstance(n.targets[0], ast.Attribute) and (dotted(n.targets[0]) or "").startswith("self.action_"):
                    vals[n.targets[0].attr] = (n.value, n_.id)
            sc = Scope(icfg, mi, {"action_space": Poly.atom("action_space")}, cq)
            for attr, spec in (("action_scale", "nnx.Variable(jnp.array((action_space.high - action_space.low) / 2.0))"), ("action_bias", "nnx.Variable(jnp.array((action_space.high + action_space.low) / 2.0))")):
                got = nf.poly(vals[attr][0], sc, vals[attr][1]) if attr in vals else None
                want = nf.poly(parse_expr(spec), Scope(None, mi, {"action_space": Poly.atom("action_space")}, cq), None)
                ok = got is not None and got == want
                ck.ob("R3-tanh-head", f"{cq}.__init__", attr, ok, f"{attr} = {got.canon()[:100] if got is not None else None}", "" if ok else f"must be {want.canon()}: otherwise tanh(y)*scale+bias leaves [low, high]", loc(mi, init))
    ck.guard(_section_5)
    def _section_6():
        # wrappers that reach the tanh head
        for cq, meth, spec in (("rl_blox.blox.embedding.sale.ActorSALE", "__call__", None), ("rl_blox.blox.embedding.model_based_encoder.DeterministicPolicyWithEncoder", "__call__", "self.policy(self.encoder.encode_zs(observation))")):
            m = repo.method(cq, meth, inherited=False)
            ck.need(m is not None, f"{cq}.{meth} not found")
            rets = [n for n in ast.walk(m[1]) if isinstance(n, ast.Return)]
            txt = ast.unparse(rets[0].value)
            ok = txt.startswith("self.policy_net(") if spec is None else txt == spec
            ck.ob("R3-tanh-head", f"{cq}.{meth}", "ends-in-tanh-policy", ok, f"return {txt}", "" if ok else "the action must be the output of the wrapped tanh policy (nothing applied after the scaling)", loc(repo.cls(cq)._module, m[1]))
    ck.guard(_section_6)

    def _section_7():
        # R4 CEM proposal: every candidate lies in [lb, ub]
        CS = "rl_blox.blox.cross_entropy_method.cem_sample"
        _cem_sample(ck, repo, nf, CS)
        CU = "rl_blox.blox.cross_entropy_method.cem_update"
        fn = repo.func(CU)
        got = nf.return_poly(CU, _env(fn))
        ck.need(got.elems is not None and len(got.elems) == 2, f"{CU}: must return (mean, var)")
        m1 = got.elems[0]
        avg = sorted(a for a in m1.atoms() if a.startswith("mean(") and "samples" in a)
        others = sorted(a for a in m1.atoms() if a not in avg and a not in ("alpha", "mean"))
        if len(avg) != 1 or others:
            raise AnalysisError(f"{CU}: new mean `{m1.canon()[:120]}` is not a combination of the old mean and one average of candidates (convexity not decidable here)")
        # affine weights: set the old mean and the average to 1 -> the weights must add up to exactly 1; each weight must be alpha resp. 1 - alpha
        from fractions import Fraction
        wsum = Poly({})
        w = {"mean": Poly({}), avg[0]: Poly({})}
        for mono, c in m1.terms.items():
            rest = tuple((a, e) for a, e in mono if a not in w)
            hit = [a for a, e in mono if a in w]
            if len(hit) != 1 or any(e != 1 for a, e in mono if a in w):
                raise AnalysisError(f"{CU}: new mean is not affine in (old mean, candidate average): `{m1.canon()[:120]}`")
            w[hit[0]] = w[hit[0]] + Poly({rest: c})
        al = Poly.atom("alpha", {"alpha"}, {"alpha"})
        ok = (w["mean"] - al).is_zero() and (w[avg[0]] - (Poly.const(1) - al)).is_zero()
        ck.ob("R5-planning-chain", CU, "convex-mean", ok, f"mean' = ({w['mean'].canon()})*mean + ({w[avg[0]].canon()})*{avg[0][:60]}",
              "" if ok else "the weights of the old mean and of the candidate average must be alpha and 1 - alpha (non-negative, summing to one): otherwise the new mean can leave the box spanned by in-bounds candidates", loc(fn._module, fn))
        # R5 PETS chain
        q = "rl_blox.algorithm.pets._init_mpc_optimizer_cem"
        fn = repo.func(q)
        mi = fn._module
        cfg = nf.cfg_of(fn)
        sc = Scope(cfg, mi, _env(fn), q)
        rets = [n for n in cfg.nodes if n.kind == "stmt" and isinstance(n.ast, ast.Return)]
        rv = rets[0].ast.value
        ck.need(isinstance(rv, ast.Tuple) and len(rv.elts) == 2, f"{q}: must return (sample_fn, update_fn)")
        rcfg = res.cfg_of(fn)
        at = rcfg.node_of(rets[0].ast).id
        ts, tu = res.resolve(rv.elts[0], mi, rcfg, at), res.resolve(rv.elts[1], mi, rcfg, at)
        ok = ts is not None and ts.qual == CS and tu is not None and tu.qual == CU
        if ts is None or tu is None or not ts.qual or not tu.qual or "<locals>" in ts.qual or "<locals>" in tu.qual:
            raise AnalysisError(f"{q}: the returned planner functions `{short(rv, 60)}` cannot be resolved (unrecognised form)")
        ck.ob("R5-planning-chain", q, "sample/update-functions", ok, f"({ts.qual if ts else None}, {tu.qual if tu else None})", "" if ok else "PETS must plan with cem_sample / cem_update", loc(mi, fn))
        if ok:
            kws = {k: nf.poly(v, sc, rets[0].id).canon() for k, v in ts.kwargs.items()}
            lbp, ubp = ts.kwargs.get("lb"), ts.kwargs.get("ub")
            if lbp is None or ubp is None:
                raise AnalysisError(f"{q}: lb / ub are not bound by keyword when the CEM sampler is specialised (unrecognised form)")
            rows = {}
            for nm_, e_ in (("lb", lbp), ("ub", ubp)):
                pv = nf.poly(e_, sc, rets[0].id)
                r_ = _stacked_rows(nf, pv, sc)
                if r_ is None:
                    raise AnalysisError(f"{q}: bounds handed to the CEM sampler (`{nm_} = {pv.canon()[:80]}`) are built in a way this check does not follow")
                rows[nm_] = r_ + (pv.canon(),)
            lo_, hi_ = nf.poly(parse_expr("action_space.low"), sc, rets[0].id).canon(), nf.poly(parse_expr("action_space.high"), sc, rets[0].id).canon()
            for nm_, want_ in (("lb", lo_), ("ub", hi_)):
                kind_, base_, cnt_, txt_ = rows[nm_]
                if base_ not in (lo_, hi_):
                    raise AnalysisError(f"{q}: `{nm_} = {txt_[:80]}` is not built from the action space bounds (unrecognised form)")
                okb = kind_ == "tiled" and base_ == want_
                ck.ob("R5-planning-chain", q, f"bounds-from-action-space:{nm_}", okb, f"{nm_} = {txt_[:80]}  ({kind_} copies of {base_})",
                      "" if okb else ("lb / ub must be action_space.low / .high stacked over the horizon (not swapped)" if base_ != want_ else
                                      f"`{txt_[:70]}` repeats every *component* of the bound {cnt_} times and then cuts rows: with more than one action dimension row t does not hold the bound of every dimension, so candidates of early plan steps are clipped with the wrong dimension's bound"), loc(mi, fn))
            ukw = {k: nf.poly(v, sc, rets[0].id).canon() for k, v in tu.kwargs.items()}
            oka = set(ukw) == {"n_elite", "alpha"} and ukw["alpha"] == "alpha"
            ck.ob("R5-planning-chain", q, "update-arguments", oka, f"{ukw}", "" if oka else "cem_update must receive n_elite and alpha", loc(mi, fn))
    ck.guard(_section_7)
    def _section_8():
        # mpc_action
        q = "rl_blox.algorithm.pets.mpc_action"
        fn = repo.func(q)
        mi = fn._module
        from ..sympath import enumerate_paths, PathEval
        cfgm = nf.cfg_of(fn)
        retn = [n for n in cfgm.nodes if n.kind == "stmt" and isinstance(n.ast, ast.Return)]
        ck.need(len(retn) == 1, f"{q}: expected one return")
        nfm = NF(repo, inline_depth=1, inline_calls=False)
        envm = _env(fn)
        sigs = set()
        for pth in enumerate_paths(cfgm, cfgm.entry, {retn[0].id}):
            pe = PathEval(nfm, cfgm, mi, q, envm).run(pth[:-1])
            rvp = pe.ev(retn[0].ast.value)
            rv = rvp.canon() if rvp.single_atom() is not None else "<compound> " + rvp.canon()
            prev = pe.store.get("state.prev_plan")
            sigs.add((rv, prev.canon() if prev is not None else None))
        oks, okp = True, True
        init_forms = set()
        for rv, prev in sigs:
            # returned action: first step of the optimiser's result
            if not (rv.startswith("optimize_fn(") and rv.endswith(")[0]")):
                oks = False
                continue
            a = nfm.meta.get(rv[:-3], {})
            init = a["args"][1].canon() if len(a.get("args", [])) > 1 else "?"
            init_forms.add(init)
            want_prev = f"concatenate(({rv[:-3]}[1:], config.avg_act[jax.numpy.newaxis]), axis=0)"
            if prev != want_prev:
                okp = False
        ck.ob("R5-planning-chain", q, "returns-first-plan-step", oks, f"return {sorted(s_[0][:60] for s_ in sigs)}", "" if oks else "the executed action must be the first step of the optimised plan", loc(mi, fn))
        good_init = {"state.prev_plan", "broadcast_to(config.avg_act, state.prev_plan.shape)"}
        if not oks:
            return_only = True
        oki = init_forms <= good_init and (len(init_forms) >= 1 or not oks)
        if oks and not oki and not any("avg_act" in f or "prev_plan" in f for f in init_forms):
            raise AnalysisError(f"{q}: initial plan `{sorted(init_forms)}` not recognised")
        if oks and not okp and any(p_ is not None and "concatenate" not in p_ for _, p_ in sigs):
            raise AnalysisError(f"{q}: stored plan `{[p_ for _, p_ in sigs][:1]}` not recognised")
        if oks:
          ck.ob("R5-planning-chain", q, "plan-shift-and-padding", oki and okp, f"initial plan {sorted(init_forms)}; prev_plan' = shifted result padded with avg_act: {okp}", "" if oki and okp else "initial plan and padding must be the in-box mid-point avg_act, the plan the optimiser's result", loc(mi, fn))
        q = "rl_blox.algorithm.pets._pets_optimize"
        fn = repo.func(q)
        # what the optimiser returns, evaluated along the paths of its body (iteration helper inlined): after at least one iteration it
        # must be component 0 of `config.update_fn(...)` - the mean of (cem_update's) (mean, var) - whatever the locals are called
        from ..sympath import enumerate_paths as _ep, PathEval as _PE
        nfo = NF(repo, inline_depth=2)
        cfg = nfo.cfg_of(fn)
        rets = [n for n in cfg.nodes if n.kind == "stmt" and isinstance(n.ast, ast.Return)]
        ck.need(len(rets) == 1 and rets[0].ast.value is not None, f"{q}: expected one return of a value")
        envo = _env(fn)
        kinds = set()
        shown = ""
        for pth in _ep(cfg, cfg.entry, {rets[0].id}):
            if not any(cfg.nodes[n_].kind == "for" and lab_ is True for n_, lab_ in pth):
                continue      # zero iterations: the initial mean is returned
            v = _PE(nfo, cfg, fn._module, q, envo).run(pth[:-1]).ev(rets[0].ast.value)
            a_ = v.single_atom() or ""
            m_ = nfo.meta.get(a_, {})
            base = m_.get("args", [None])[0] if m_.get("fn") == "proj" and m_.get("args") else None
            bm = nfo.meta.get(base.single_atom() or "", {}) if base is not None else {}
            shown = v.canon()[:90]
            if base is not None and bm.get("fn", "").endswith("update_fn") and a_.endswith("]"):
                kinds.add("mean" if a_.endswith("[0]") else "other-component")
            elif "φ(" in v.canon() or not same_ingredients(v, nfo.poly(parse_expr("config.update_fn(config.sample_fn(mean, config.init_var, key), config.reward_model(obs), mean, config.init_var)[0]"), Scope(None, fn._module, envo, q), None),
                                                            ("split", "dynamics_model", "randint", "n_particles", "n_ensemble", "n_samples", "plan_horizon", "where", "argmax", "inf", "sum", "mean", "broadcast_to", "shape", "newaxis", "jax", "numpy", "n_opt_iter", "action_space_shape", "base_predict", "base_distribution", "sample", "reshape", "vmap", "concatenate", "squeeze")):
                raise AnalysisError(f"{q}: returns `{shown}` (unrecognised form)")
            else:
                kinds.add("not-the-update-result")
        if not kinds:
            raise AnalysisError(f"{q}: no path with an optimiser iteration reaches the return (unrecognised form)")
        okm = kinds == {"mean"}
        ck.ob("R5-planning-chain", q, "returns-cem-mean", okm, f"return {shown}", "" if okm else "the optimiser must return the CEM mean (convex combination of in-box elites)", loc(fn._module, fn))
        q = "rl_blox.algorithm.pets._pets_opt_iter"
        fn = repo.func(q)
        txt = "\n".join(ast.unparse(s) for s in fn.body)
        ok = "actions = config.sample_fn(mean, var, sampling_key)" in txt and "mean, var = config.update_fn(actions, expected_returns, mean, var)" in txt
        ck.ob("R5-planning-chain", q, "sample-then-update", ok, "actions = sample_fn(mean, var, key); mean, var = update_fn(actions, returns, mean, var)", "" if ok else "candidates must come from sample_fn and the mean from update_fn on those candidates", loc(fn._module, fn))
    ck.guard(_section_8)
    def _section_9():
        # train_pets config: avg_act mid-point, init_var, bounds from the same env
        q = "rl_blox.algorithm.pets.train_pets"
        fn = repo.func(q)
        mi = fn._module
        cfgc = [c for c in ast.walk(fn) if isinstance(c, ast.Call) and dotted(c.func) == "PETSMPCConfig"]
        ck.need(len(cfgc) == 1, f"{q}: PETSMPCConfig construction not found")
        kw = {k.arg: k.value for k in cfgc[0].keywords}
        cfgt = nf.cfg_of(fn)
        at_cfg = cfgt.node_of(cfgc[0]).id
        sc = Scope(cfgt, mi, {"env": Poly.atom("env")}, q)
        got = nf.poly(kw["avg_act"], sc, at_cfg) if "avg_act" in kw else None
        want = nf.poly(parse_expr("jnp.asarray(0.5 * (env.action_space.high + env.action_space.low))"), Scope(None, mi, {"env": Poly.atom("env")}, q), None)
        ok = got is not None and got == want
        ck.ob("R5-planning-chain", q, "mid-point", ok, f"avg_act = {got.canon()[:80] if got is not None else None}", "" if ok else "avg_act must be the mid-point 0.5*(high+low) of the action space", loc(mi, cfgc[0]))
        init = [c for c in ast.walk(fn) if isinstance(c, ast.Call) and dotted(c.func) == "_init_mpc_optimizer_cem"]
        ok = len(init) == 1 and init[0].args and nf.poly(init[0].args[0], sc, cfgt.node_of(init[0]).id).canon() == "env.action_space"
        ck.ob("R5-planning-chain", q, "optimizer-space", ok, f"{short(init[0], 70) if init else None}", "" if ok else "the CEM bounds must come from env.action_space", loc(mi, fn))
    ck.guard(_section_9)


_D, _T, _H, _C, _P = "rl_blox/algorithm/ddpg.py", "rl_blox/algorithm/td3.py", "rl_blox/blox/function_approximator/policy_head.py", "rl_blox/blox/cross_entropy_method.py", "rl_blox/algorithm/pets.py"
MUTANTS = [
    {"id": "c10-bounds-interleaved", "file": "rl_blox/algorithm/pets.py", "rule": "R5", "find": "    lower_bound = jnp.vstack([action_space.low for _ in range(plan_horizon)])", "replace": "    lower_bound = jnp.repeat(jnp.asarray(action_space.low), plan_horizon).reshape(plan_horizon, -1)"},
    {"id": "c10-noise-clip-truthiness", "file": "rl_blox/algorithm/td3.py", "rule": "R2", "find": "    clipped_eps = jnp.clip(eps, -scaled_noise_clip, scaled_noise_clip)\n", "replace": "    clipped_eps = eps\n    if noise_clip:\n        clipped_eps = jnp.clip(eps, -scaled_noise_clip, scaled_noise_clip)\n"},
    {"id": "c10-cem-one-sided", "file": _C, "rule": "R4", "find": "        jnp.minimum((0.5 * lb_dist) ** 2, (0.5 * ub_dist) ** 2),", "replace": "        jnp.minimum((0.5 * lb_dist) ** 2, (0.5 * lb_dist) ** 2),"},
    {"id": "c10-no-clip", "file": _D, "rule": "R", "find": "    return jnp.clip(exploring_action, action_low, action_high)", "replace": "    return exploring_action"},
    {"id": "c10-clip-swapped", "file": _D, "rule": "R", "find": "    return jnp.clip(exploring_action, action_low, action_high)", "replace": "    return jnp.clip(exploring_action, action_high, action_low)"},
    {"id": "c10-scale-no-half", "file": _D, "rule": "R1", "find": "    action_scale = 0.5 * (action_space.high - action_space.low)", "replace": "    action_scale = action_space.high - action_space.low"},
    {"id": "c10-factory-order", "file": _D, "rule": "R1", "find": "            action_space.low,\n            action_space.high,\n            action_scale,\n            exploration_noise,\n        )", "replace": "            action_space.high,\n            action_space.low,\n            action_scale,\n            exploration_noise,\n        )"},
    {"id": "c10-noise-shape", "file": _D, "rule": "R2", "find": "        exploration_noise * action_scale * jax.random.normal(key, action.shape)\n    )\n    exploring_action", "replace": "        exploration_noise * jax.random.normal(key, action.shape)\n    )\n    exploring_action"},
    {"id": "c10-target-clip-sum", "file": _T, "rule": "R2", "find": "    clipped_eps = jnp.clip(eps, -scaled_noise_clip, scaled_noise_clip)\n    return jnp.clip(action + clipped_eps, action_low, action_high)", "replace": "    clipped = jnp.clip(action + eps, -scaled_noise_clip, scaled_noise_clip)\n    return jnp.clip(clipped, action_low, action_high)"},
    {"id": "c10-target-noise-clip-unscaled", "file": _T, "rule": "R2", "find": "    scaled_noise_clip = action_scale * noise_clip", "replace": "    scaled_noise_clip = noise_clip"},
    {"id": "c10-td3-raw-policy", "file": _T, "rule": "R1", "find": "            action = np.asarray(\n                _sample_actions(policy, jnp.asarray(obs), action_key)\n            )", "replace": "            action = np.asarray(policy(jnp.asarray(obs)))"},
    {"id": "c10-td3-other-space", "file": _T, "rule": "R1", "find": "    _sample_actions = make_sample_actions(env.action_space, exploration_noise)", "replace": "    _sample_actions = make_sample_actions(env.observation_space, exploration_noise)"},
    {"id": "c10-tanh-dropped", "file": _H, "rule": "R3", "find": "        return nnx.tanh(y) * jnp.broadcast_to(\n            self.action_scale.value, y.shape\n        ) + jnp.broadcast_to(self.action_bias.value, y.shape)", "replace": "        return y * jnp.broadcast_to(\n            self.action_scale.value, y.shape\n        ) + jnp.broadcast_to(self.action_bias.value, y.shape)"},
    {"id": "c10-tanh-scale-full-range", "file": _H, "rule": "R3", "nth": 0, "find": "            jnp.array((action_space.high - action_space.low) / 2.0)", "replace": "            jnp.array(action_space.high - action_space.low)"},
    {"id": "c10-tanh-bias-minus", "file": _H, "rule": "R3", "nth": 0, "find": "            jnp.array((action_space.high + action_space.low) / 2.0)", "replace": "            jnp.array((action_space.high - action_space.low) / 2.0)"},
    {"id": "c10-cem-raw-var", "file": _C, "rule": "R4", "find": "        * jnp.sqrt(constrained_var)[jnp.newaxis]", "replace": "        * jnp.sqrt(var)[jnp.newaxis]"},
    {"id": "c10-cem-trunc-3", "file": _C, "rule": "R4", "find": "            step_key, -2.0, 2.0, shape=(n_population,) + mean.shape", "replace": "            step_key, -3.0, 3.0, shape=(n_population,) + mean.shape"},
    {"id": "c10-cem-no-half", "file": _C, "rule": "R4", "find": "        jnp.minimum((0.5 * lb_dist) ** 2, (0.5 * ub_dist) ** 2),", "replace": "        jnp.minimum(lb_dist**2, ub_dist**2),"},
    {"id": "c10-cem-update-not-convex", "file": _C, "rule": "R5", "find": "    mean = alpha * mean + (1.0 - alpha) * jnp.mean(elites, axis=0)", "replace": "    mean = alpha * mean + (1.0 + alpha) * jnp.mean(elites, axis=0)"},
    {"id": "c10-pets-bounds-swapped", "file": _P, "rule": "R5", "find": "            lb=lower_bound,\n            ub=upper_bound,", "replace": "            lb=upper_bound,\n            ub=lower_bound,"},
    {"id": "c10-pets-avg-act", "file": _P, "rule": "R5", "find": "            0.5 * (env.action_space.high + env.action_space.low)", "replace": "            0.5 * (env.action_space.high - env.action_space.low)"},
    {"id": "c10-pets-last-plan-step", "file": _P, "rule": "R5", "find": "    return plan[0]", "replace": "    return plan[-1] + plan[0]"},
]
BENIGN = [
    {"id": "c10-b-bounds-tile", "file": "rl_blox/algorithm/pets.py", "find": "    lower_bound = jnp.vstack([action_space.low for _ in range(plan_horizon)])", "replace": "    lower_bound = jnp.tile(action_space.low, (plan_horizon, 1))"},
    {"id": "c10-b-bounds-repeat-axis0", "file": "rl_blox/algorithm/pets.py", "find": "    upper_bound = jnp.vstack([action_space.high for _ in range(plan_horizon)])", "replace": "    upper_bound = jnp.repeat(action_space.high[None], plan_horizon, axis=0)"},
    {"id": "c10-b-noise-clip-zero-branch", "file": "rl_blox/algorithm/td3.py", "find": "    clipped_eps = jnp.clip(eps, -scaled_noise_clip, scaled_noise_clip)\n", "replace": "    clipped_eps = 0.0 * eps\n    if noise_clip:\n        clipped_eps = jnp.clip(eps, -scaled_noise_clip, scaled_noise_clip)\n"},
    {"id": "c10-b-cem-clip-samples", "file": _C, "find": "    return samples\n\n\ndef cem_update(", "replace": "    return jnp.clip(samples, lb, ub)\n\n\ndef cem_update("},
    {"id": "c10-b-cem-quarter", "file": _C, "find": "        jnp.minimum((0.5 * lb_dist) ** 2, (0.5 * ub_dist) ** 2),", "replace": "        jnp.minimum(0.25 * lb_dist**2, 0.25 * jnp.square(ub_dist)),"},
    {"id": "c10-b-cem-update-rewritten", "file": _C, "find": "    mean = alpha * mean + (1.0 - alpha) * jnp.mean(elites, axis=0)", "replace": "    elite_mean = jnp.mean(elites, axis=0)\n    mean = elite_mean + alpha * (mean - elite_mean)"},
    {"id": "c10-b-scale-div2", "file": _D, "find": "    action_scale = 0.5 * (action_space.high - action_space.low)", "replace": "    action_scale = (action_space.high - action_space.low) / 2"},
    {"id": "c10-b-inline-explore", "file": _D, "find": "    exploring_action = action + eps\n    return jnp.clip(exploring_action, action_low, action_high)", "replace": "    return jnp.clip(eps + action, action_low, action_high)"},
    {"id": "c10-b-tanh-commuted", "file": _H, "find": "        return nnx.tanh(y) * jnp.broadcast_to(\n            self.action_scale.value, y.shape\n        ) + jnp.broadcast_to(self.action_bias.value, y.shape)", "replace": "        return jnp.broadcast_to(self.action_bias.value, y.shape) + jnp.broadcast_to(\n            self.action_scale.value, y.shape\n        ) * nnx.tanh(y)"},
    {"id": "c10-b-cem-local", "file": _C, "find": "    lb_dist = mean - lb\n    ub_dist = ub - mean\n", "replace": "    ub_dist = ub - mean\n    lb_dist = mean - lb\n"},
]
