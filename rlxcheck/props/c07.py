"""C07 - return and advantage estimates obey their recurrences and are causal."""
from __future__ import annotations

import ast

from ..cfg import CFG
from ..loops import dotted
from ..nf import NF, Scope, Poly, parse_expr
from ..repo import Repo, loc, short, AnalysisError, positional_params, param_names, bind_call
from ..shapes import ShapeEngine
from ..sem import closure_env
from ..sympath import enumerate_paths, PathEval

EXPLANATION = (
    "The loop / scan bodies of compute_gae, discounted_n_step_return and discounted_reward_to_go are evaluated once, symbolically, "
    "as polynomial normal forms over their carried values and compared with the defining recurrences (identity for all sequences, "
    "gamma, lambda). Reverse-scan symmetry, initial values and loop ranges are structural. Causality across environments: each "
    "compute_gae call is either applied under a vmap over the environment axis to (T, N) data whose successor values are the "
    "time-shifted values plus bootstrap, or receives per-trajectory data; provenance of the arguments is followed through callers "
    "to detect an environment-merging reshape. The MR.Q encoder roll-out is checked for mask discipline (every term weighted by the "
    "carried-in mask, the mask updated after all uses) and, with the symbolic shape engine, for per-sample mask broadcasting at every "
    "masked_mse_loss call site (no (B,)*(B,1) outer product, no reshape used as transpose). "
    "Forms read beyond the loops: a factor computed once before the loop (taking an element commutes with element-wise arithmetic), counting loops "
    "(`while` with a counter, loops over a range of indices: first index, step, last index), later helpers that hold a nested definition and therefore "
    "cannot be expanded in place (read where they stand, parameters bound to what the one call site passes), further per-step flag inputs of the GAE "
    "(the recurrence must hold in every 0/1 world of the flags a call site can produce: a sum of two flags is not a flag). Loop-free (vectorised) "
    "return code and a termination mask computed before the roll-out are evaluated exactly for every length 1..4 and every termination pattern on tiny "
    "arrays of polynomials: a difference is a counter-example (violation), agreement up to the bound is not a proof (undecided); a division by a power "
    "of gamma is a violation because gamma = 0 is inside the quantified range."
)
TRUSTED = ["jax.lax.scan / nnx.scan carry-and-stack semantics; jax.vmap in_axes semantics; x[::-1] reverses axis 0", "numpydoc shapes of masked_mse_loss",
           "numpy / jax.numpy semantics of the operations the small-length evaluation reads (basic indexing, broadcasting, concatenate / stack / hstack, cumsum, cumprod, sum, prod, flip, where, "
           "arange, power, zeros / ones / full and *_like, .at[].set); checked against numpy on random small arrays when the evaluator was written",
           "termination and truncation columns of a roll-out buffer are 0/1 flags that can both be 1 at the same step (gymnasium step API)"]
RULES = {
    "R1-gae": "scan body: delta == r + gamma*v'*(1-d) - v, A == delta + gamma*lambda*(1-d)*A_prev (carry == output); inputs all reversed along axis 0, output reversed back; returns == A + v; initial carry 0; "
              "with further per-step flag inputs the recurrence holds in every 0/1 world of the flags that a call site can produce",
    "R2-n-step": "loop body: G' == G + c*r_t, c' == c*gamma*(1-d_t) with G updated from the old c; G0 = 0, c0 = 1, t over the whole horizon; loop-free code: equal to the unrolled recurrence for every horizon 1..4 "
                 "and every termination pattern (a difference is a violation, agreement is undecided)",
    "R3-reward-to-go": "acc' == gamma*acc + r over reversed(rewards) (or a counting loop / index range that visits every reward from the last to the first), each acc' recorded, result reversed; acc0 = 0; "
                       "loop-free code: equal to the recurrence for every episode length 1..4 and defined for gamma = 0",
    "R4-per-trajectory": "compute_gae sees one trajectory at a time: vmapped over the environment axis of (T,N) data with time-shifted successor values, or fed per-trajectory data that passed no environment-merging reshape",
    "R5-post-terminal-mask": "every term of the encoder roll-out is weighted by the mask carried in, the mask is updated after all uses with not_done[:,t]; mask broadcasting is per sample (shape engine); "
                             "a mask computed before the roll-out for all steps is the product of the not-terminated flags of the earlier steps (horizons 1..4, every termination pattern)",
    "R6-env-index": "per-environment arrays are indexed by environment indices, not by positions in a filtered list",
}


def _env(fn):
    return {p: Poly.atom(p, {p}, {p}) for p in param_names(fn)}


def _unread(p: Poly) -> bool:
    """The value contains something the engine did not read: a merge of definitions, an opaque construct, a temporary of the helper expander."""
    import re
    t = p.canon()
    return "φ(" in t or "⟦" in t or "λ[" in t or re.search(r"__i\d+\b", t) is not None


def _decide(ck, rule, site, key, got: Poly, want: Poly, shown: str, why: str, where, extra=(), atoms=None):
    """Equal -> holds.  Different -> a violation only when the value that was read is built from the documented ingredients (then the
    two normal forms denote different functions); anything else is a form this rule does not read.  With ``atoms`` given, the value may
    only contain the atoms of the documented value and these (a projection / slice / call the documented value does not have is not
    an ingredient even when it is spelled with the same names)."""
    from ..sem import same_ingredients
    ok = got == want
    if not ok and (_unread(got) or not same_ingredients(got, want, extra) or (atoms is not None and not got.atoms() <= (want.atoms() | set(atoms)))):
        raise AnalysisError(f"{site}: {key} is `{got.canon()[:110]}` (unrecognised form)")
    ck.ob(rule, site, key, ok, shown, "" if ok else why, where)
    return ok


def _fn_of(nf, p: Poly):
    """(short function name, meta) of a value that is one call / subscript / projection atom, else ("", {})."""
    m = nf.meta.get(p.single_atom() or "", {}) if p is not None else {}
    return (m.get("fn") or "").split(".")[-1], m


def _components(nf, p: Poly):
    """(components, field names or None) of a value that is a tuple display or a freshly constructed record (NamedTuple / dataclass), else (None, None)."""
    if p is None:
        return None, None
    if p.elems is not None:
        return list(p.elems), None
    m = nf.meta.get(p.single_atom() or "", {})
    rec, args = m.get("record"), m.get("args", [])
    if rec and len(rec) == len(args):
        names = [next((k for k, v in rec.items() if v is a), None) for a in args]
        if None not in names and len(set(names)) == len(names):
            return list(args), names
    return None, None


_FILLS = {"zeros": 0, "zeros_like": 0, "ones": 1, "ones_like": 1}


def _fill_value(nf, p: Poly):
    """The value of every entry of ``p`` when its freshly filled arrays (zeros / ones / full and the *_like forms) are replaced by their fill
    value, and the metas of the filled arrays that were replaced."""
    sub, filled = {}, []
    for a in p.atoms():
        m = nf.meta.get(a, {})
        f = (m.get("fn") or "").split(".")[-1]
        if f in _FILLS:
            sub[a] = Poly.const(_FILLS[f])
            filled.append((a, f, m))
        elif f in ("full", "full_like"):
            v = m["args"][1] if len(m.get("args", [])) > 1 else m.get("kws", {}).get("fill_value")
            if v is not None and v.elems is None:
                sub[a] = v
                filled.append((a, f, m))
    return p.subst(sub), filled


def _orientation(nf, p: Poly, bases):
    """(number of reversals mod 2, base) between the sequence ``p`` and one of the plain sequences ``bases``: list / tuple / array wrappers
    are transparent, reversed(x) / x[::-1] / flip(x) turn the order round.  None when ``p`` is not such a chain."""
    flips = 0
    for _ in range(16):
        a = p.single_atom()
        if a is None:
            return None
        if (bases(a) if callable(bases) else a in bases):
            return flips % 2, a
        f, m = _fn_of(nf, p)
        args, kws = m.get("args", []), m.get("kws", {})
        if f == "flip" and ((len(args) == 2 and not kws and args[1].is_const() and args[1].const_value() == 0) or (len(args) == 1 and set(kws) == {"axis"} and kws["axis"].is_const() and kws["axis"].const_value() == 0)):
            args, kws = args[:1], {}          # flip along the first (time) axis
        if f in ("list", "tuple", "iter", "hstack", "stack", "array", "asarray") and len(args) == 1 and not (set(kws) - {"dtype"}):
            p = args[0]
        elif f in ("reversed", "flip") and len(args) == 1 and not kws:
            flips, p = flips + 1, args[0]
        elif f == "subscript" and a.endswith("[::-1]") and args:
            flips, p = flips + 1, args[0]
        else:
            return None
    return None


def _unwrap_seq(nf, p: Poly):
    """("flip" | "same", inner sequence) when ``p`` is one reversal (x[::-1], reversed(x), flip(x, 0)) or one transparent wrapper of a sequence."""
    a = p.single_atom()
    if a is None:
        return None
    f, m = _fn_of(nf, p)
    args, kws = m.get("args", []), m.get("kws", {})
    if f == "flip" and ((len(args) == 2 and not kws and args[1].is_const() and args[1].const_value() == 0) or (len(args) == 1 and set(kws) == {"axis"} and kws["axis"].is_const() and kws["axis"].const_value() == 0)):
        return "flip", args[0]
    if f in ("list", "tuple", "iter", "array", "asarray") and len(args) == 1 and not (set(kws) - {"dtype"}):
        return "same", args[0]
    if f in ("reversed", "flip") and len(args) == 1 and not kws:
        return "flip", args[0]
    if f == "subscript" and a.endswith("[::-1]") and args:
        return "flip", args[0]
    return None


def _optional_sequence(nf, cfg, sc, atom: str, extras):
    """The later parameter an atom `φ(name@defs)` stands for when its reaching definitions are that parameter itself and a freshly made
    all-zero array (`if x is None: x = zeros_like(...)`): in either case a value the parameter may take.  None when not that."""
    import re
    m = re.fullmatch(r"φ\((\w+)@([\d,]+)\)", atom)
    if not m or m.group(1) not in extras:
        return None
    name, alts = m.group(1), []
    for nid in m.group(2).split(","):
        ds = [d for d in cfg.nodes[int(nid)].defs if d.name == name]
        if len(ds) != 1:
            return None
        d = ds[0]
        if d.kind == "param":
            alts.append("param")
        elif d.kind == "assign" and d.value is not None:
            v, filled = _fill_value(nf, nf.poly(d.value, sc, d.node))
            if not (v.is_const() and v.const_value() == 0 and v.elems is None and len(filled) == 1):
                return None
            alts.append("zero")
        else:
            return None
    return name if sorted(alts) == ["param", "zero"] else None


def _passed_for(repo, nf, gfn, gq, pname):
    """What every call site of compute_gae passes for the (later, optional) parameter ``pname``: "absent", "column:<field>" - a column of a
    roll-out buffer, reached directly or through a wrapper mapped with vmap - or "?"."""
    import re
    out = []
    for qual, fn, mi in repo.all_functions():
        for c in ast.walk(fn):
            if not (isinstance(c, ast.Call) and isinstance(c.func, (ast.Name, ast.Attribute)) and repo.resolve_expr(mi, c.func) == gq):
                continue
            if next((a_ for a_ in _ancestors(c) if isinstance(a_, (ast.FunctionDef, ast.AsyncFunctionDef))), None) is not fn:
                continue
            if any(isinstance(a_, ast.Starred) for a_ in c.args) or any(k_.arg is None for k_ in c.keywords):
                out.append("?")
                continue
            a = bind_call(gfn, c).get(pname)
            if a is None:
                out.append("absent")
                continue
            val = None
            ip = positional_params(fn)
            if "<locals>" in qual and isinstance(a, ast.Name) and a.id in ip and not any(isinstance(x, ast.Name) and x.id == a.id and isinstance(x.ctx, ast.Store) for x in ast.walk(fn)):
                # the wrapper's parameter: what the one mapped application passes at that position
                outer_q = qual.split(".<locals>.")[0]
                ofn = repo.func(outer_q)
                ocfg = nf.cfg_of(ofn)
                apps = []
                for n_ in ocfg.nodes:
                    if n_.ast is None or n_.kind != "stmt":
                        continue
                    for x in ast.walk(n_.ast):
                        if not isinstance(x, ast.Call) or any(isinstance(y, ast.Starred) for y in x.args) or x.keywords:
                            continue
                        f_ = x.func
                        if isinstance(f_, ast.Name):
                            ds = ocfg.defs_of(n_.id, f_.id)
                            f_ = ds[0].value if len(ds) == 1 and ds[0].kind == "assign" else None
                        if isinstance(f_, ast.Call) and isinstance(f_.func, (ast.Name, ast.Attribute)) and repo.resolve_expr(mi, f_.func) in ("jax.vmap", "flax.nnx.vmap") and f_.args \
                                and isinstance(f_.args[0], ast.Name) and f_.args[0].id == fn.name:
                            apps.append((n_, x))
                if len(apps) == 1 and ip.index(a.id) < len(apps[0][1].args):
                    _afn, _aq, oenv = _anchored(repo, nf, ofn, outer_q)
                    val = nf.poly(apps[0][1].args[ip.index(a.id)], Scope(ocfg, mi, oenv, outer_q), apps[0][0].id)
            elif "<locals>" not in qual:
                cfg = nf.cfg_of(fn)
                val = nf.poly(a, Scope(cfg, mi, _env(fn), qual), cfg.node_of(c).id)
            m = re.fullmatch(r"[\w.]+\.buffer\['(\w+)'\]", val.canon()) if val is not None and val.elems is None else None
            out.append(f"column:{m.group(1)}" if m else "?")
    return out


def _flag_worlds(ck, repo, nf, q, fn, key, nm, got: Poly, want: Poly, used: dict, where):
    """The recurrence with further per-step flag inputs: in every world of the flags (termination and the further ones, each 0 or 1, as far
    as a call site can produce it) the value must be the documented one.  A world in which it is not is the evidence."""
    from itertools import product
    from ..sem import same_ingredients
    if _unread(got) or not same_ingredients(got, want, tuple(used.values())) or not got.atoms() <= (want.atoms() | set(used.values())):
        raise AnalysisError(f"{q}: {key} is `{got.canon()[:110]}` (unrecognised form)")
    gq = "rl_blox.blox.gae.compute_gae"
    ranges = {}
    for p_, x_ in used.items():
        passed = _passed_for(repo, nf, fn, gq, p_)
        if any(v_ in ("column:truncations",) for v_ in passed):
            ranges[x_] = (0, 1)               # a flag column that is independent of the termination column
        elif all(v_ == "absent" for v_ in passed):
            ranges[x_] = (0,)
        else:
            raise AnalysisError(f"{q}: `{p_}` receives {sorted(set(passed))} at the call sites (unrecognised form)")
    names = ["D"] + sorted(ranges)
    bad = []
    for vals in product(*[(0, 1)] + [ranges[x_] for x_ in names[1:]]):
        w = {a_: Poly.const(v_) for a_, v_ in zip(names, vals)}
        g_, w_ = got.subst(w), want.subst(w)
        if g_ != w_:
            one = {a_: Poly.const(1) for a_ in g_.atoms() | w_.atoms() if a_ != "A_prev"}
            fac = g_.subst(one).degree_split("A_prev").get(1, Poly.const(0))
            bad.append((dict(zip(names, vals)), g_, w_, fac))
    ok = not bad
    detail = ""
    if bad:
        bad.sort(key=lambda b_: not (b_[3].is_const() and b_[3].const_value() not in (0, 1)))
        wd, g_, w_, fac = bad[0]
        world = ", ".join(f"{'terminated' if a_ == 'D' else a_[2:]}={v_}" for a_, v_ in wd.items())
        detail = f"at a step with {world} the {nm} is `{g_.canon()[:80]}`, the recurrence gives `{w_.canon()[:80]}`"
        if fac.is_const() and fac.const_value() not in (0, 1):
            detail += f" (the continuation factor is {fac.canon()}: a sum of flags is not a flag)"
    ck.ob("R1-gae", q, key, ok, f"{nm} = {got.canon()[:150]}", detail, where, witness=[f"world {b_[0]}: {b_[1].canon()[:90]} instead of {b_[2].canon()[:90]}" for b_ in bad[:4]] or None)


def r1_gae(ck, repo, nf):
    """The scan body is evaluated with its per-step input bound to what the scan call really passes: element t of every sequence of
    the xs tuple (element-wise arithmetic on the sequences before the scan commutes with taking the element)."""
    q = "rl_blox.blox.gae.compute_gae"
    fn = repo.func(q)
    mi = fn._module
    ps = param_names(fn)
    ck.need(len(ps) >= 6, f"{q}: signature changed (anchor vanished)")
    PR, PV, PNV, PD, PG, PL = ps[:6]      # roles by position of the public signature
    ocfg = nf.cfg_of(fn)
    oenv = _env(fn)
    osc = Scope(ocfg, mi, oenv, q)
    calls = [(n, c) for n in ocfg.nodes if n.ast is not None and n.kind == "stmt" for c in ast.walk(n.ast) if isinstance(c, ast.Call) and (repo.resolve_expr(mi, c.func) if isinstance(c.func, (ast.Name, ast.Attribute)) else "") in ("jax.lax.scan", "flax.nnx.scan")]
    if len(calls) != 1:
        raise AnalysisError(f"{q}: expected one scan call, found {len(calls)} (unrecognised form)")
    n, c = calls[0]
    b = {"f": None, "init": None, "xs": None}
    if any(isinstance(a_, ast.Starred) for a_ in c.args) or any(kw.arg is None for kw in c.keywords):
        raise AnalysisError(f"{q}: scan call `{short(c, 100)}` passes packed arguments (unrecognised form)")
    for i_, k_ in enumerate(("f", "init", "xs")):
        if len(c.args) > i_:
            b[k_] = c.args[i_]
    for kw in c.keywords:
        if kw.arg in b:
            b[kw.arg] = kw.value
    reverse_kw = next((kw.value for kw in c.keywords if kw.arg == "reverse"), None)
    if reverse_kw is None and len(c.args) > 4:
        reverse_kw = c.args[4]            # scan(f, init, xs, length, reverse)
    unknown_kw = [kw.arg for kw in c.keywords if kw.arg not in ("f", "init", "xs", "reverse", "unroll", "length")]
    if unknown_kw or any(v is None for v in b.values()) or not isinstance(b["f"], ast.Name):
        raise AnalysisError(f"{q}: scan call `{short(c, 100)}` (unrecognised form)")
    body = next((x for x in ast.walk(fn) if isinstance(x, ast.FunctionDef) and x is not fn and x.name == b["f"].id), None)
    if body is None:
        raise AnalysisError(f"{q}: scan body `{b['f'].id}` not found (anchor vanished)")
    body._module = mi
    bp = positional_params(body)
    ck.need(len(bp) == 2, f"{q}: scan body must take (carry, inputs)")
    carry, inp = bp
    rev_flag = False
    if reverse_kw is not None:
        rvp = nf.poly(reverse_kw, osc, n.id)       # a literal, or a module-level constant
        if not rvp.is_const() or rvp.const_value() not in (0, 1):
            raise AnalysisError(f"{q}: scan(reverse={short(reverse_kw, 30)}) (unrecognised form)")
        rev_flag = rvp.const_value() == 1
    # the sequences: each xs element as a polynomial over the four role sequences; `s[::-1]` marks a reversed sequence
    xs = nf.poly(b["xs"], osc, n.id)
    if xs.elems is None:
        raise AnalysisError(f"{q}: scan inputs `{xs.canon()[:80]}` are not a tuple of sequences (unrecognised form)")
    roles = {PR: "R", PV: "V", PNV: "NV", PD: "D"}
    # sequences accepted beyond the recorded six parameters (optional ones added later): read as further per-step inputs
    extras = {p_: f"X_{p_}" for p_ in ps[6:]}
    seq_atoms = {**roles, **extras}
    elems, directions = [], set()

    def read_seq(p_, flips, depth=0):
        """A scanned sequence as element-wise arithmetic on the role sequences; turning a sequence round commutes with that arithmetic."""
        sub = {}
        for a_ in p_.atoms():
            if a_ in (PG, PL):
                continue
            o_ = _orientation(nf, Poly.atom(a_), set(seq_atoms))
            if o_ is not None:
                sub[a_] = Poly.atom(seq_atoms[o_[1]])
                directions.add("reversed" if (o_[0] + flips) % 2 else "forward")
                continue
            inner = _unwrap_seq(nf, Poly.atom(a_)) if depth < 6 else None
            if inner is not None and inner[1].elems is None:
                sub[a_] = read_seq(inner[1], flips + (1 if inner[0] == "flip" else 0), depth + 1)
                continue
            opt = _optional_sequence(nf, ocfg, osc, a_, extras) if depth < 6 else None
            if opt is not None:
                sub[a_] = Poly.atom(extras[opt])          # the parameter, or an all-zero array when it is not given: a value of the parameter's range
                directions.add("reversed" if flips % 2 else "forward")
                continue
            raise AnalysisError(f"{q}: scan input `{p_.canon()[:80]}` is not element-wise arithmetic on the four sequences (unrecognised form)")
        return p_.subst(sub)
    for e_ in xs.elems:
        elems.append(read_seq(e_, 0))
    if not directions:
        raise AnalysisError(f"{q}: scan inputs `{xs.canon()[:80]}` do not contain the four sequences (unrecognised form)")
    if len(directions) != 1:
        # some sequences run forwards and some backwards through the same scan: step t of one meets step T-1-t of another
        ck.ob("R1-gae", q, "reverse-scan-inputs", False, f"scan(..., {xs.canon()[:120]})", "the scanned sequences are only partly reversed: the body combines rewards, values and terminations of different time steps", loc(mi, c))
        return
    backwards = (directions == {"reversed"}) != rev_flag       # reversed inputs, or reverse=True on forward inputs - not both
    inp_val = Poly.atom("(" + ", ".join(x.canon() for x in elems) + ")")
    inp_val.elems = elems
    env = {carry: Poly.atom("A_prev"), inp: inp_val, PG: Poly.atom(PG), PL: Poly.atom(PL)}
    for k_, v_ in closure_env(nf, fn, body, mi, {p_: Poly.atom(p_, {p_}, {p_}) for p_ in param_names(fn)}, q).items():
        env.setdefault(k_, v_)
    cfg = nf.cfg_of(body)
    sc = Scope(cfg, mi, env, q + ".<locals>." + body.name)
    rets = [m for m in cfg.nodes if m.kind == "stmt" and isinstance(m.ast, ast.Return)]
    ck.need(len(rets) == 1 and rets[0].ast.value is not None, f"{q}: scan body has {len(rets)} returns")
    rp = nf.poly(rets[0].ast.value, sc, rets[0].id)
    if rp.elems is None or len(rp.elems) != 2:
        raise AnalysisError(f"{q}: scan body must return (carry, output)")
    want = nf.poly(parse_expr(f"R + {PG} * NV * (1 - D) - V + {PG} * {PL} * (1 - D) * A_prev"), Scope(None, mi, {}, q), None)
    where = loc(mi, body)
    for k, nm in ((0, "carry"), (1, "output")):
        # the carried value is the advantage itself (a pair / record as carry, a slice of it, ... is another way to organise the scan)
        used = sorted(p_ for p_, x_ in extras.items() if x_ in rp.elems[k].atoms())
        if used and rp.elems[k] != want:
            _flag_worlds(ck, repo, nf, q, fn, f"recurrence:{nm}", nm, rp.elems[k], want, {p_: extras[p_] for p_ in used}, where)
            continue
        _decide(ck, "R1-gae", q, f"recurrence:{nm}", rp.elems[k], want, f"{nm} = {rp.elems[k].canon()[:150]}", f"differs from delta + gamma*lambda*(1-d)*A_prev by `{(rp.elems[k] - want).canon()[:150]}`", where, atoms=())
    init = nf.poly(b["init"], osc, n.id)
    init_v, _filled = _fill_value(nf, init)           # 0.0, jnp.zeros(()), jnp.zeros_like(values[0]) all start the recursion at 0
    if init_v.elems is not None or _unread(init_v):
        raise AnalysisError(f"{q}: scan call `{short(c, 100)}` (unrecognised form)")
    ok = backwards and init_v.is_const() and init_v.const_value() == 0
    if not ok and not (init_v.is_const() or backwards is False):
        raise AnalysisError(f"{q}: scan call `{short(c, 100)}` (unrecognised form)")
    ck.ob("R1-gae", q, "reverse-scan-inputs", ok, f"scan({b['f'].id}, {init.canon()[:20]}, {xs.canon()[:100]}{', reverse=True' if rev_flag else ''})",
          "" if ok else "scan must run the body from carry 0 backwards in time over (rewards, values, next_values, terminateds): all sequences reversed (or reverse=True)", loc(mi, c))
    # the result: advantages = stacked outputs in time order, returns = advantages + values
    orets = [m for m in ocfg.nodes if m.kind == "stmt" and isinstance(m.ast, ast.Return)]
    ck.need(len(orets) == 1 and orets[0].ast.value is not None, f"{q}: expected one return")
    rv = nf.poly(orets[0].ast.value, osc, orets[0].id)
    parts = rv.elems
    if parts is None:
        m_ = nf.meta.get(rv.single_atom() or "", {})
        parts = m_.get("args") if len(m_.get("args", [])) == 2 and not m_.get("kws") else ([m_["kws"][k_] for k_ in ("advantages", "returns")] if set(m_.get("kws", {})) == {"advantages", "returns"} else None)
    if parts is None or len(parts) != 2:
        raise AnalysisError(f"{q}: result `{rv.canon()[:80]}` is not a pair (advantages, returns) (unrecognised form)")
    adv, ret = parts
    ac = adv.canon()
    # the stacked scan output, possibly turned round: the projection [1] of the one scan call of this routine
    o_ = _orientation(nf, adv, lambda a_: nf.meta.get(a_, {}).get("fn") == "proj" and a_.endswith("[1]") and bool(nf.meta[a_].get("args")) and _fn_of(nf, nf.meta[a_]["args"][0])[0] == "scan")
    if o_ is None:
        raise AnalysisError(f"{q}: advantages `{ac[:100]}` are not the stacked scan output (unrecognised form)")
    flipped_back = o_[0] == 1
    ok = flipped_back != rev_flag        # reversed inputs need the flip back; reverse=True returns time order already
    ck.ob("R1-gae", q, "output-reversed-back", ok, f"advantages = {ac[:120]}", "" if ok else "the stacked scan output must be in time order: reversed back when the inputs were reversed, as returned with reverse=True", loc(mi, orets[0].ast))
    _decide(ck, "R1-gae", q, "returns", ret, adv + Poly.atom(PV, {PV}, {PV}), f"returns = {ret.canon()[:120]}", "returns must be advantages + values", loc(mi, orets[0].ast), extra=("scan", "jax", "lax"), atoms=(PR, PV, PNV, PD))


def _loop_body_eval(nf, fn, mi, q, loop, env0):
    """Evaluate one iteration of ``loop`` (ast.For) symbolically; returns the PathEval after the body."""
    cfg = nf.cfg_of(fn)
    hdr = cfg.stmt_node[id(loop)]
    paths = enumerate_paths(cfg, hdr, {hdr}, first_label=True)
    if len(paths) != 1:
        raise AnalysisError(f"{q}: loop body has {len(paths)} paths (unrecognised idiom)")
    pe = PathEval(nf, cfg, mi, q, env0)
    pe.run(paths[0][:-1])
    return pe


def _loop_invariants(nf, cfg, mi, q, env, lp, hdr, skip=()):
    """Locals the loop reads but never rebinds, as the values that reach the loop header (a factor computed once before the loop is the
    same value as the expression written out in the body)."""
    stored = {x.id for x in ast.walk(lp) if isinstance(x, ast.Name) and isinstance(x.ctx, (ast.Store, ast.Del))}
    out = {}
    sc = Scope(cfg, mi, env, q)
    for x in ast.walk(lp):
        if isinstance(x, ast.Name) and isinstance(x.ctx, ast.Load) and x.id not in env and x.id not in stored and x.id not in skip and x.id not in out and cfg.defs_of(hdr, x.id):
            out[x.id] = nf.poly(ast.copy_location(ast.Name(id=x.id, ctx=ast.Load()), x), sc, hdr)
    return out


def _index_distributed(nf, p: Poly, arrays, scalars):
    """Taking an element commutes with element-wise arithmetic on arrays of one shape (and scalars): (g*(1 - d))[:, t] == g*(1 - d[:, t])."""
    arrays, scalars = set(arrays), set(scalars)
    sub = {}
    for a in p.atoms():
        m = nf.meta.get(a, {})
        if m.get("fn") != "subscript" or not m.get("args"):
            continue
        base = m["args"][0]
        bt = base.canon()
        if base.elems is not None or base.single_atom() is not None or not a.startswith(bt + "[") or not (base.atoms() & arrays) or not base.atoms() <= (arrays | scalars):
            continue
        idx = a[len(bt):]
        sub[a] = base.subst({x: nf._reg(Poly.atom(x + idx, m["deps"] | {x}, frozenset({x})), "subscript", [Poly.atom(x, {x}, {x})]) for x in base.atoms() & arrays})
    return p.subst(sub) if sub else p


# ---------------------------------------------------------------------------------------------------------------------------------
# Small-horizon evaluation of loop-free (vectorised) code.  Arrays are tiny concrete arrays of polynomials: the horizon axis has a
# concrete extent (1, 2, 3, 4), the batch axis is symbolic (one representative sample, kept as an axis of extent 1 that only meets
# itself or a broadcast 1), termination flags are the constants of one *world*.  Every library operation read here is evaluated exactly
# as numpy / jax.numpy define it; anything else makes the evaluation undecided.  A value that differs from the unrolled recurrence for
# one horizon and one termination pattern is a counter-example; agreement up to the bound is not a proof and is reported as undecided.

class _NotRead(Exception):
    pass


class _BatchExtent:
    def __repr__(self):
        return "B"


_B = _BatchExtent()
_DTYPE = "<dtype>"


class _Arr:
    __slots__ = ("shape", "flat", "batch")

    def __init__(self, shape, flat, batch=None):
        self.shape, self.flat, self.batch = tuple(shape), list(flat), batch
        n = 1
        for d in self.shape:
            n *= d
        if n != len(self.flat) or (batch is not None and self.shape[batch] != 1):
            raise _NotRead("array")

    @property
    def ndim(self):
        return len(self.shape)

    def public_shape(self):
        return tuple(_B if i == self.batch else d for i, d in enumerate(self.shape))


def _strides(shape):
    out, n = [], 1
    for d in reversed(shape):
        out.append(n)
        n *= d
    return out[::-1]


def _positions(shape):
    from itertools import product
    return product(*[range(d) for d in shape])


def _as_arr(v):
    if isinstance(v, _Arr):
        return v
    if isinstance(v, bool):
        return _Arr((), [Poly.const(int(v))])
    if isinstance(v, (int, float)):
        from fractions import Fraction
        return _Arr((), [Poly.const(Fraction(v))])
    if isinstance(v, Poly) and v.elems is None:
        return _Arr((), [v])
    if isinstance(v, (tuple, list)):
        items = [_as_arr(x) for x in v]
        if not items:
            return _Arr((0,), [])
        return _stack(items, 0)
    raise _NotRead("not a number or an array")


def _scalar_out(a: "_Arr"):
    return a.flat[0] if a.shape == () else a


def _broadcast(arrs):
    nd = max(a.ndim for a in arrs)
    shape, batch = [1] * nd, None
    for a in arrs:
        off = nd - a.ndim
        for i, d in enumerate(a.shape):
            j = off + i
            if a.batch == i:
                if batch not in (None, j):
                    raise _NotRead("two batch axes meet")
                batch = j
            elif d != 1:
                if shape[j] not in (1, d):
                    raise _NotRead("shapes do not broadcast")
                shape[j] = d
    if batch is not None and shape[batch] != 1:
        raise _NotRead("the batch axis meets another axis")
    # an axis of extent 0 wins over 1
    for a in arrs:
        off = nd - a.ndim
        for i, d in enumerate(a.shape):
            if d == 0:
                shape[off + i] = 0
    outs = []
    for a in arrs:
        off = nd - a.ndim
        st = _strides(a.shape)
        flat = []
        for pos in _positions(shape):
            k = 0
            for i, d in enumerate(a.shape):
                k += (pos[off + i] if d != 1 else 0) * st[i]
            flat.append(a.flat[k])
        outs.append(flat)
    return tuple(shape), batch, outs


def _elementwise(fn, *vals):
    arrs = [_as_arr(v) for v in vals]
    shape, batch, flats = _broadcast(arrs)
    return _scalar_out(_Arr(shape, [fn(*xs) for xs in zip(*flats)], batch))


def _axis(a: "_Arr", axis):
    if not isinstance(axis, int) or isinstance(axis, bool) or not -a.ndim <= axis < a.ndim:
        raise _NotRead("axis")
    axis %= a.ndim
    if axis == a.batch:
        raise _NotRead("operation along the batch axis")
    return axis


def _lines(a: "_Arr", axis):
    """Flat positions of every 1-d line of ``a`` along ``axis``."""
    st = _strides(a.shape)
    rest = [range(d) if i != axis else range(1) for i, d in enumerate(a.shape)]
    from itertools import product
    for pos in product(*rest):
        base = sum(p * s for p, s in zip(pos, st))
        yield [base + k * st[axis] for k in range(a.shape[axis])]


def _cumulative(a, axis, op):
    a = _as_arr(a)
    if axis is None:
        if a.ndim != 1:
            raise _NotRead("cumulative operation without axis")
        axis = 0
    axis = _axis(a, axis)
    flat = list(a.flat)
    for line in _lines(a, axis):
        acc = None
        for k in line:
            acc = flat[k] if acc is None else op(acc, flat[k])
            flat[k] = acc
    return _Arr(a.shape, flat, a.batch)


def _reduce(a, axis, op, unit, keepdims=False):
    a = _as_arr(a)
    if axis is None:
        if a.batch is not None:
            raise _NotRead("reduction over the batch axis")
        acc = unit
        for x in a.flat:
            acc = op(acc, x)
        return acc
    axis = _axis(a, axis)
    out = []
    for line in _lines(a, axis):
        acc = unit
        for k in line:
            acc = op(acc, a.flat[k])
        out.append(acc)
    shape = list(a.shape)
    shape[axis] = 1
    r = _Arr(shape, out, a.batch)
    if not keepdims:
        r = _Arr(shape[:axis] + shape[axis + 1:], out, None if a.batch is None else (a.batch - 1 if a.batch > axis else a.batch))
    return _scalar_out(r) if r.batch is None else r


def _take(a: "_Arr", key):
    """Basic indexing (ints, slices, None, Ellipsis); returns (shape, batch, flat positions in ``a``)."""
    if not isinstance(key, tuple):
        key = (key,)
    if sum(1 for k in key if k is Ellipsis) > 1:
        raise _NotRead("index")
    n_real = sum(1 for k in key if k is not None and k is not Ellipsis)
    if n_real > a.ndim:
        raise _NotRead("too many indices")
    if Ellipsis in key:
        i = key.index(Ellipsis)
        key = key[:i] + (slice(None),) * (a.ndim - n_real) + key[i + 1:]
    else:
        key = key + (slice(None),) * (a.ndim - n_real)
    shape, choices, batch, ax = [], [], None, 0
    for k in key:
        if k is None:
            shape.append(1)
            choices.append(None)
            continue
        d = a.shape[ax]
        if isinstance(k, slice):
            if any(x is not None and (not isinstance(x, int) or isinstance(x, bool)) for x in (k.start, k.stop, k.step)):
                raise _NotRead("slice bounds")
            if ax == a.batch:
                if k != slice(None):
                    raise _NotRead("slice of the batch axis")
                batch = len(shape)
                idx = [0]
            else:
                idx = list(range(*k.indices(d)))
            shape.append(len(idx))
            choices.append((ax, idx))
        elif isinstance(k, int) and not isinstance(k, bool):
            if ax == a.batch or not -d <= k < d:
                raise _NotRead("index out of range / into the batch axis")
            choices.append((ax, k % d))
        else:
            raise _NotRead("index")
        ax += 1
    st = _strides(a.shape)
    fixed = sum(c[1] * st[c[0]] for c in choices if c is not None and isinstance(c[1], int))
    var = [c for c in choices if c is None or not isinstance(c[1], int)]
    flat = []
    for pos in _positions(shape):
        k = fixed
        for p, c in zip(pos, var):
            if c is not None:
                k += c[1][p] * st[c[0]]
        flat.append(k)
    return tuple(shape), batch, flat


def _getitem(a: "_Arr", key):
    shape, batch, pos = _take(a, key)
    return _scalar_out(_Arr(shape, [a.flat[k] for k in pos], batch))


def _concat(items, axis):
    items = [_as_arr(x) for x in items]
    if not items or any(x.ndim != items[0].ndim or x.ndim == 0 for x in items):
        raise _NotRead("concatenate")
    nd = items[0].ndim
    if not isinstance(axis, int) or not -nd <= axis < nd:
        raise _NotRead("axis")
    axis %= nd
    batch = next((x.batch for x in items if x.batch is not None), None)
    if batch == axis:
        raise _NotRead("concatenation along the batch axis")
    ref = list(items[0].shape)
    for x in items:
        # an axis of extent 1 that is not the batch axis of this operand may not stand for the batch axis of another one
        if any(d != r for i, (d, r) in enumerate(zip(x.shape, ref)) if i != axis) or x.batch not in (batch,):
            raise _NotRead("concatenate: shapes")
    shape = list(ref)
    shape[axis] = sum(x.shape[axis] for x in items)
    flat = {}
    off = 0
    st = _strides(shape)
    for x in items:
        for k, pos in enumerate(_positions(x.shape)):
            p = list(pos)
            p[axis] += off
            flat[sum(i * s for i, s in zip(p, st))] = x.flat[k]
        off += x.shape[axis]
    n = 1
    for d in shape:
        n *= d
    return _Arr(shape, [flat[k] for k in range(n)], batch)


def _stack(items, axis):
    items = [_as_arr(x) for x in items]
    if any(x.shape != items[0].shape or x.batch != items[0].batch for x in items):
        raise _NotRead("stack: shapes")
    nd = items[0].ndim + 1
    if not isinstance(axis, int) or not -nd <= axis < nd:
        raise _NotRead("axis")
    axis %= nd
    key = (slice(None),) * axis + (None,)
    return _concat([_as_arr(_getitem(x, key)) if x.ndim else _Arr((1,), x.flat) for x in items], axis)


def _flip(a, axis):
    a = _as_arr(a)
    axis = _axis(a, axis)
    return _getitem(a, (slice(None),) * axis + (slice(None, None, -1),))


def _const_of(p):
    if isinstance(p, Poly) and p.elems is None and p.is_const():
        return p.const_value()
    raise _NotRead("a comparison / selection on a symbolic value")


class _Bounded:
    """Demand-driven evaluation of the loop-free part of one function for concrete small extents."""

    def __init__(self, repo, nf, fn, mi, q, env, zero_ok=()):
        self.repo, self.nf, self.fn, self.mi, self.q, self.env = repo, nf, fn, mi, q, dict(env)
        self.cfg = nf.cfg_of(fn)
        self.memo = {}
        self.depth = 0
        self.zero_ok = set(zero_ok)       # atoms whose documented range contains 0
        self.singular = []                # denominators that vanish inside the documented range

    # -- names --------------------------------------------------------------------------------------------------------------------
    def name(self, name, at):
        defs = self.cfg.defs_of(at, name) if at is not None else []
        if not defs:
            if name in self.env:
                return self.env[name]
            raise _NotRead(f"name `{name}`")
        if len(defs) != 1:
            raise _NotRead(f"`{name}` has several definitions")
        d = defs[0]
        key = ("def", d.node, d.name)
        if key in self.memo:
            return self.memo[key]
        if self.cfg.enclosing_loops(d.node) or self.depth > 60:
            raise _NotRead(f"`{name}` is defined in a loop")
        self.depth += 1
        try:
            if d.kind == "param":
                if name not in self.env:
                    raise _NotRead(f"parameter `{name}`")
                v = self.env[name]
            elif d.kind in ("assign", "walrus"):
                v = self.ev(d.value, d.node)
            elif d.kind == "unpack":
                v = self.ev(d.value, d.node)
                for i in d.path:
                    if not isinstance(i, int):
                        raise _NotRead("starred unpacking")
                    if isinstance(v, _Arr):
                        v = _getitem(v, i)
                    elif isinstance(v, (tuple, list)) and -len(v) <= i < len(v):
                        v = v[i]
                    else:
                        raise _NotRead("unpacking")
            elif d.kind == "aug":
                st = d.value
                if not isinstance(st.target, ast.Name):
                    raise _NotRead("augmented assignment")
                v = self.binop(self.name(name, d.node), self.ev(st.value, d.node), st.op)
            else:
                raise _NotRead(f"definition of `{name}`")
        finally:
            self.depth -= 1
        self.memo[key] = v
        return v

    # -- expressions --------------------------------------------------------------------------------------------------------------
    def ev(self, e, at):
        m = getattr(self, "e_" + type(e).__name__, None)
        if m is None:
            raise _NotRead(f"`{short(e, 40)}`")
        return m(e, at)

    def e_Constant(self, e, at):
        from fractions import Fraction
        if isinstance(e.value, float):
            return Poly.const(Fraction(e.value))
        return e.value

    def e_Name(self, e, at):
        if e.id in ("float", "int", "bool") and not self.cfg.defs_of(at, e.id) and e.id not in self.env:
            return _DTYPE
        return self.name(e.id, at)

    def e_Tuple(self, e, at):
        if any(isinstance(x, ast.Starred) for x in e.elts):
            raise _NotRead("starred display")
        return tuple(self.ev(x, at) for x in e.elts)

    e_List = e_Tuple

    def lib(self, func):
        r = self.repo.resolve_expr(self.mi, func) if isinstance(func, (ast.Name, ast.Attribute)) else None
        for pre in ("jax.numpy.", "numpy."):
            if r and r.startswith(pre) and "." not in r[len(pre):]:
                return r[len(pre):]
        return None

    def e_Attribute(self, e, at):
        txt = dotted(e)
        if txt and txt in self.env:
            return self.env[txt]
        lib = self.lib(e)
        if lib == "newaxis":
            return None
        if lib in ("float32", "float64", "float16", "bfloat16", "int32", "int64", "bool_", "float_"):
            return _DTYPE
        v = self.ev(e.value, at)
        if isinstance(v, _Arr):
            if e.attr == "shape":
                return v.public_shape()
            if e.attr == "ndim":
                return v.ndim
            if e.attr == "dtype":
                return _DTYPE
        raise _NotRead(f"`{short(e, 40)}`")

    def e_Subscript(self, e, at):
        v = self.ev(e.value, at)
        key = self.index(e.slice, at)
        if isinstance(v, _Arr):
            return _getitem(v, key)
        if isinstance(v, (tuple, list)) and (isinstance(key, slice) or (isinstance(key, int) and not isinstance(key, bool))):
            try:
                return v[key]
            except (IndexError, TypeError):
                raise _NotRead("index")
        raise _NotRead(f"`{short(e, 40)}`")

    def index(self, s, at):
        if isinstance(s, ast.Slice):
            return slice(*[None if x is None else self.as_int(self.ev(x, at)) for x in (s.lower, s.upper, s.step)])
        if isinstance(s, ast.Tuple):
            return tuple(self.index(x, at) for x in s.elts)
        v = self.ev(s, at)
        if v is None or v is Ellipsis or isinstance(v, slice):
            return v
        return self.as_int(v)

    @staticmethod
    def as_int(v):
        if isinstance(v, bool):
            raise _NotRead("index")
        if isinstance(v, int):
            return v
        if isinstance(v, Poly) and v.elems is None and v.is_const() and v.const_value().denominator == 1:
            return int(v.const_value())
        raise _NotRead("a symbolic index / extent")

    def e_UnaryOp(self, e, at):
        v = self.ev(e.operand, at)
        if isinstance(e.op, ast.USub):
            return -v if isinstance(v, (int, Poly)) and not isinstance(v, bool) else _elementwise(lambda x: -x, v)
        if isinstance(e.op, ast.UAdd):
            return v
        if isinstance(e.op, ast.Not) and isinstance(v, bool):
            return not v
        raise _NotRead("operator")       # `~x` is the logical negation for boolean arrays only

    def e_BinOp(self, e, at):
        return self.binop(self.ev(e.left, at), self.ev(e.right, at), e.op)

    def power(self, a, b):
        k = _const_of(b)
        if k.denominator != 1:
            raise _NotRead("fractional power")
        if int(k) < 0:
            return self.divide(Poly.const(1), a.pow(-int(k)))
        return a.pow(int(k))

    def divide(self, a, b):
        if b.is_const():
            if b.const_value() == 0:
                raise _NotRead("division by zero")
            return a.scale(1 / b.const_value())
        if len(b.terms) != 1 or a.is_zero():
            raise _NotRead("division by a polynomial")
        (mono, _c), = b.terms.items()
        zero_at = sorted(x for x, k in mono if k > 0 and x in self.zero_ok)
        if zero_at:
            self.singular.append((b, zero_at))
        return a * b.inv()

    def binop(self, a, b, op):
        plain = lambda v: isinstance(v, int) and not isinstance(v, bool)
        if plain(a) and plain(b):
            try:
                if isinstance(op, ast.Add):
                    return a + b
                if isinstance(op, ast.Sub):
                    return a - b
                if isinstance(op, ast.Mult):
                    return a * b
                if isinstance(op, ast.FloorDiv):
                    return a // b
                if isinstance(op, ast.Mod):
                    return a % b
                if isinstance(op, ast.Pow) and b >= 0:
                    return a ** b
            except ZeroDivisionError:
                raise _NotRead("division by zero")
        if isinstance(a, (tuple, list)) and isinstance(b, (tuple, list)) and isinstance(op, ast.Add):
            return tuple(a) + tuple(b)
        if a is _B or b is _B:
            raise _NotRead("arithmetic on the batch size")
        if isinstance(op, ast.Add):
            f = lambda x, y: x + y
        elif isinstance(op, ast.Sub):
            f = lambda x, y: x - y
        elif isinstance(op, ast.Mult):
            f = lambda x, y: x * y
        elif isinstance(op, ast.Div):
            f = self.divide
        elif isinstance(op, ast.Pow):
            f = self.power
        else:
            raise _NotRead("operator")
        return _elementwise(f, a, b)

    def e_Compare(self, e, at):
        if len(e.ops) != 1:
            raise _NotRead("chained comparison")
        a, b, op = self.ev(e.left, at), self.ev(e.comparators[0], at), e.ops[0]
        import operator
        tab = {ast.Lt: operator.lt, ast.LtE: operator.le, ast.Gt: operator.gt, ast.GtE: operator.ge, ast.Eq: operator.eq, ast.NotEq: operator.ne}
        if type(op) not in tab:
            raise _NotRead("comparison")
        if all(isinstance(v, int) for v in (a, b)):
            return tab[type(op)](a, b)
        return _elementwise(lambda x, y: Poly.const(int(tab[type(op)](_const_of(x), _const_of(y)))), a, b)

    def e_IfExp(self, e, at):
        c = self.ev(e.test, at)
        if isinstance(c, Poly):
            c = _const_of(c) != 0
        if not isinstance(c, (bool, int)):
            raise _NotRead("condition")
        return self.ev(e.body if c else e.orelse, at)

    # -- calls --------------------------------------------------------------------------------------------------------------------
    def e_Call(self, e, at):
        if any(isinstance(a, ast.Starred) for a in e.args) or any(k.arg is None for k in e.keywords):
            raise _NotRead("packed arguments")
        f = e.func
        # x.at[idx].set(v) / .add(v) / .multiply(v)
        if isinstance(f, ast.Attribute) and f.attr in ("set", "add", "multiply") and isinstance(f.value, ast.Subscript) and isinstance(f.value.value, ast.Attribute) and f.value.value.attr == "at" \
                and len(e.args) == 1 and not e.keywords:
            base = self.ev(f.value.value.value, at)
            if isinstance(base, _Arr):
                shape, batch, pos = _take(base, self.index(f.value.slice, at))
                sel = _Arr(shape, [base.flat[k] for k in pos], batch)
                new = _as_arr(_elementwise({"set": lambda x, y: y, "add": lambda x, y: x + y, "multiply": lambda x, y: x * y}[f.attr], sel, self.ev(e.args[0], at)))
                if new.shape != sel.shape or new.batch != sel.batch:
                    raise _NotRead("functional update: shapes")
                flat = list(base.flat)
                for k, v in zip(pos, new.flat):
                    flat[k] = v
                return _Arr(base.shape, flat, base.batch)
        args = [self.ev(a, at) for a in e.args]
        kws = {k.arg: self.ev(k.value, at) for k in e.keywords if k.arg != "dtype"}
        name = self.lib(f)
        if name is None and isinstance(f, ast.Name) and not self.cfg.defs_of(at, f.id) and f.id not in self.env and self.repo.resolve_name(self.mi, f.id) is None:
            name = "builtins." + f.id
        if name is None and isinstance(f, ast.Attribute):
            recv = self.ev(f.value, at)
            if isinstance(recv, _Arr) and f.attr in ("astype", "sum", "prod", "cumsum", "cumprod", "copy", "argmax", "argmin", "max", "min", "any", "all"):
                name, args = f.attr, [recv] + args
        if name is None:
            raise _NotRead(f"call `{short(e, 40)}`")
        return self.apply(name, args, kws)

    def shape_arg(self, s):
        if not isinstance(s, (tuple, list)):
            s = (s,)
        shape, batch = [], None
        for i, d in enumerate(s):
            if d is _B:
                if batch is not None:
                    raise _NotRead("shape")
                batch = i
                shape.append(1)
            else:
                shape.append(self.as_int(d))
                if shape[-1] < 0:
                    raise _NotRead("shape")
        return tuple(shape), batch

    def apply(self, name, args, kws):
        from fractions import Fraction
        kws = {k: v for k, v in kws.items() if k != "dtype"}
        arg = lambda i, kw, default=_NotRead: args[i] if len(args) > i else (kws[kw] if kw in kws else default)

        def only(n_max, *names):
            if len(args) > n_max or set(kws) - set(names):
                raise _NotRead(f"arguments of {name}")

        def need(v):
            if v is _NotRead:
                raise _NotRead(f"arguments of {name}")
            return v
        one, zero = Poly.const(1), Poly.const(0)
        if name in ("asarray", "array", "astype", "copy", "float32", "float64", "builtins.float", "float_"):
            only(2)
            v = need(arg(0, "a"))
            if len(args) == 2 and args[1] is not _DTYPE:
                raise _NotRead(f"arguments of {name}")
            if isinstance(v, (tuple, list)):
                return _as_arr(v)
            if isinstance(v, bool):
                raise _NotRead(f"arguments of {name}")
            if isinstance(v, (int, float)):
                return Poly.const(Fraction(v))
            return v
        if name in ("zeros", "ones", "full"):
            only(2 if name != "full" else 3, "shape", "fill_value")
            shape, batch = self.shape_arg(need(arg(0, "shape")))
            fill = {"zeros": zero, "ones": one}.get(name)
            if name == "full":
                fill = _as_arr(need(arg(1, "fill_value")))
                if fill.shape != ():
                    raise _NotRead("fill value")
                fill = fill.flat[0]
            elif len(args) == 2 and args[1] is not _DTYPE:
                raise _NotRead(f"arguments of {name}")
            n = 1
            for d in shape:
                n *= d
            return _Arr(shape, [fill] * n, batch)
        if name in ("zeros_like", "ones_like", "full_like"):
            only(1 if name != "full_like" else 2, "fill_value")
            a = _as_arr(args[0])
            fill = {"zeros_like": zero, "ones_like": one}.get(name)
            if name == "full_like":
                fill = _as_arr(need(arg(1, "fill_value")))
                if fill.shape != ():
                    raise _NotRead("fill value")
                fill = fill.flat[0]
            return _scalar_out(_Arr(a.shape, [fill] * len(a.flat), a.batch))
        if name == "arange":
            only(3)
            r = range(*[self.as_int(x) for x in args]) if 1 <= len(args) <= 3 else None
            if r is None:
                raise _NotRead("arange")
            return _Arr((len(r),), [Poly.const(k) for k in r])
        if name in ("builtins.len",):
            only(1)
            v = args[0]
            if isinstance(v, _Arr) and v.ndim and v.batch != 0:
                return v.shape[0]
            if isinstance(v, (tuple, list)):
                return len(v)
            raise _NotRead("len")
        if name in ("builtins.int",) and len(args) == 1 and not kws:
            return self.as_int(args[0])
        if name in ("concatenate", "stack"):
            only(2, "axis")
            items = need(arg(0, "arrays"))
            if not isinstance(items, (tuple, list)):
                raise _NotRead(name)
            return (_concat if name == "concatenate" else _stack)(items, arg(1, "axis", 0))
        if name == "hstack":
            only(1)
            items = [_as_arr(x) for x in (args[0] if isinstance(args[0], (tuple, list)) else ())]
            if not items:
                raise _NotRead(name)
            return _concat(items, 0 if items[0].ndim == 1 else 1)
        if name in ("cumsum", "cumprod"):
            only(2, "axis")
            return _cumulative(args[0], arg(1, "axis", None), (lambda x, y: x + y) if name == "cumsum" else (lambda x, y: x * y))
        if name in ("argmax", "argmin", "max", "min", "amax", "amin", "any", "all"):
            # reductions that SELECT: only on numeric entries (flags, counters); the first extremal position, like numpy
            only(2, "axis", "keepdims")
            if kws.get("keepdims", False) is not False:
                raise _NotRead("keepdims")
            a = _as_arr(args[0])
            ax = arg(1, "axis", None)
            if ax is None:
                if a.ndim != 1 or a.batch is not None:
                    raise _NotRead(f"{name} without axis")
                ax = 0
            ax = _axis(a, ax)
            out = []
            for line in _lines(a, ax):
                vals = [_const_of(a.flat[k]) for k in line]
                if name in ("argmax", "argmin"):
                    best = max(vals) if name == "argmax" else min(vals)
                    out.append(Poly.const(vals.index(best)))
                elif name in ("max", "amax", "min", "amin"):
                    out.append(Poly.const(max(vals) if name in ("max", "amax") else min(vals)))
                else:
                    out.append(Poly.const(int(any(v != 0 for v in vals)) if name == "any" else int(all(v != 0 for v in vals))))
            shape = list(a.shape)
            r = _Arr(shape[:ax] + shape[ax + 1:], out, None if a.batch is None else (a.batch - 1 if a.batch > ax else a.batch))
            return _scalar_out(r) if r.batch is None else r
        if name in ("sum", "prod"):
            only(2, "axis", "keepdims")
            kd = kws.get("keepdims", False)
            if not isinstance(kd, bool):
                raise _NotRead("keepdims")
            return _reduce(args[0], arg(1, "axis", None), (lambda x, y: x + y) if name == "sum" else (lambda x, y: x * y), zero if name == "sum" else one, kd)
        if name == "flip":
            only(2, "axis")
            a = _as_arr(args[0])
            ax = arg(1, "axis", None)
            if ax is None:
                if a.ndim != 1:
                    raise _NotRead("flip without axis")
                ax = 0
            return _flip(a, ax)
        if name == "expand_dims":
            only(2, "axis")
            a = _as_arr(args[0])
            ax = need(arg(1, "axis"))
            if not isinstance(ax, int) or not -(a.ndim + 1) <= ax <= a.ndim:
                raise _NotRead("axis")
            ax %= a.ndim + 1
            return _getitem(a, (slice(None),) * ax + (None,))
        if name == "where":
            only(3)
            if len(args) != 3:
                raise _NotRead("where")
            return _elementwise(lambda c, x, y: x if _const_of(c) != 0 else y, *args)
        if name in ("power", "multiply", "add", "subtract", "divide", "true_divide"):
            only(2)
            if len(args) != 2:
                raise _NotRead(name)
            return self.binop(args[0], args[1], {"power": ast.Pow(), "multiply": ast.Mult(), "add": ast.Add(), "subtract": ast.Sub(), "divide": ast.Div(), "true_divide": ast.Div()}[name])
        if name in ("minimum", "maximum", "logical_and", "logical_or"):
            only(2)
            if len(args) != 2:
                raise _NotRead(name)
            pick = {"minimum": min, "maximum": max, "logical_and": lambda x, y: int(bool(x) and bool(y)), "logical_or": lambda x, y: int(bool(x) or bool(y))}[name]
            return _elementwise(lambda x, y: Poly.const(pick(_const_of(x), _const_of(y))), *args)
        if name == "logical_not":
            only(1)
            return _elementwise(lambda x: Poly.const(0 if _const_of(x) != 0 else 1), args[0])
        if name in ("builtins.reversed",):
            only(1)
            v = args[0]
            if isinstance(v, (tuple, list)):
                return tuple(v)[::-1]
            if isinstance(v, _Arr) and v.ndim == 1:
                return _flip(v, 0)
            raise _NotRead("reversed")
        if name in ("builtins.list", "builtins.tuple"):
            only(1)
            if len(args) == 1 and isinstance(args[0], (tuple, list, _Arr)):
                return tuple(args[0]) if not isinstance(args[0], _Arr) else args[0]
            raise _NotRead(name)
        raise _NotRead(f"`{name}`")


def _bounded_value(ev, q, what, node):
    try:
        return ev.ev(node.ast.value, node.id)
    except _NotRead as e:
        raise AnalysisError(f"{q}: {what} is written without a loop and was not evaluated for a concrete length: {e} (unrecognised form)")


def _nstep_bounded(ck, repo, nf, q, fn, mi, PR, PD, PG):
    """discounted_n_step_return without a loop over the horizon: evaluated for every horizon 1..4 and every termination pattern."""
    from itertools import product
    cfg = nf.cfg_of(fn)
    rets = [n for n in cfg.nodes if n.kind == "stmt" and isinstance(n.ast, ast.Return) and n.ast.value is not None]
    ck.need(len(rets) == 1, f"{q}: expected one return")
    g = Poly.atom(PG, {PG}, {PG})
    found = {}
    for H in (1, 2, 3, 4):
        for world in product((0, 1), repeat=H):
            r = [Poly.atom(f"r{t}") for t in range(H)]
            ev = _Bounded(repo, nf, fn, mi, q, {PR: _Arr((1, H), r, 0), PD: _Arr((1, H), [Poly.const(d) for d in world], 0), PG: g}, zero_ok={PG})
            res = _bounded_value(ev, q, "the n-step return", rets[0])
            if not (isinstance(res, tuple) and len(res) == 2 and all(isinstance(x, _Arr) and x.shape == (1,) and x.batch == 0 for x in res)):
                raise AnalysisError(f"{q}: the result is not a pair of per-sample arrays for horizon {H} (unrecognised form)")
            G, c = Poly.const(0), Poly.const(1)
            for t in range(H):
                G, c = G + c * r[t], c * g * Poly.const(1 - world[t])
            for key, got, want in (("return", res[0].flat[0], G), ("discount", res[1].flat[0], c)):
                if got != want:
                    found.setdefault(key, (H, world, got, want))
            if ev.singular:
                found.setdefault("defined", (H, world, ev.singular[0][0], None))
    if not found:
        raise AnalysisError(f"{q}: written without a loop over the horizon; it agrees with the recurrence for every horizon up to 4 and every termination pattern, which is not a proof for all horizons (unrecognised form)")
    _bounded_report(ck, "R2-n-step", q, found, {"return": "n-step return", "discount": "residual discount"}, "terminated", "horizon", PG, loc(mi, fn))


def _bounded_report(ck, rule, q, found, names, flag_name, len_name, PG, where):
    for key, (H, world, got, want) in sorted(found.items()):
        at = f"{len_name} {H}" + (f", {flag_name} = {list(world)}" if world is not None else "")
        if key == "defined":
            ck.ob(rule, q, "bounded:defined-on-range", False, f"division by {got.canon()} ({at})", f"the value divides by `{got.canon()}`, which is 0 for {PG} = 0 - a discount factor the property quantifies over: the result is NaN / inf where the recurrence gives a finite value", where)
        else:
            ck.ob(rule, q, f"bounded:{key}", False, f"{names[key]} for {at}: {got.canon()[:120]}", f"the recurrence gives `{want.canon()[:120]}` for {at}; the code computes `{got.canon()[:120]}`", where,
                  witness=[f"{at}: got {got.canon()[:150]}", f"{at}: documented {want.canon()[:150]}"])


def _rtg_bounded(ck, repo, nf, q, fn, mi, RW, PG):
    """discounted_reward_to_go without a loop: evaluated for every episode length 1..4.  True when it agrees with the recurrence there."""
    cfg = nf.cfg_of(fn)
    rets = [n for n in cfg.nodes if n.kind == "stmt" and isinstance(n.ast, ast.Return) and n.ast.value is not None]
    ck.need(len(rets) == 1, f"{q}: expected one return")
    g = Poly.atom(PG, {PG}, {PG})
    found = {}
    for L in (1, 2, 3, 4):
        r = [Poly.atom(f"r{t}") for t in range(L)]
        ev = _Bounded(repo, nf, fn, mi, q, {RW: tuple(r), PG: g}, zero_ok={PG})
        res = _bounded_value(ev, q, "the reward-to-go", rets[0])
        res = _as_arr(res) if isinstance(res, (tuple, list)) else res
        if not (isinstance(res, _Arr) and res.shape == (L,) and res.batch is None):
            raise AnalysisError(f"{q}: the result is not one value per step for an episode of length {L} (unrecognised form)")
        acc, want = Poly.const(0), [None] * L
        for t in reversed(range(L)):
            acc = g * acc + r[t]
            want[t] = acc
        for t in range(L):
            if res.flat[t] != want[t]:
                found.setdefault("return", (L, None, res.flat[t], want[t]))
        if ev.singular:
            found.setdefault("defined", (L, None, ev.singular[0][0], None))
    if found:
        _bounded_report(ck, "R3-reward-to-go", q, found, {"return": "reward-to-go"}, "", "episode length", PG, loc(mi, fn))
    return not found


def _range_parts(nf, p: Poly):
    """(start, stop, step) of a `range(...)` value, else None."""
    f, m = _fn_of(nf, p)
    a = m.get("args", [])
    if f != "range" or m.get("kws") or not 1 <= len(a) <= 3 or any(x.elems is not None for x in a):
        return None
    return (Poly.const(0), a[0], Poly.const(1)) if len(a) == 1 else (a[0], a[1], a[2] if len(a) == 3 else Poly.const(1))


def r2_nstep(ck, repo, nf):
    q = "rl_blox.blox.return_estimates.discounted_n_step_return"
    fn = repo.func(q)
    mi = fn._module
    pp = positional_params(fn)
    ck.need(len(pp) >= 3, f"{q}: signature changed (anchor vanished)")
    PR, PD, PG = pp[:3]                   # rewards (B, H), terminations (B, H), discount factor: by position of the public signature
    loops = [n for n in fn.body if isinstance(n, (ast.For, ast.While))]
    if not any(isinstance(n, (ast.For, ast.While, ast.AsyncFor)) for n in ast.walk(fn)):
        return _nstep_bounded(ck, repo, nf, q, fn, mi, PR, PD, PG)
    ck.need(len(loops) == 1 and not loops[0].orelse, f"{q}: expected one loop over the horizon")
    lp = loops[0]
    where = loc(mi, lp)
    env = _env(fn)
    cfg = nf.cfg_of(fn)
    hdr = cfg.stmt_node[id(lp)]
    counter_stop = None
    if isinstance(lp, ast.While):
        # `t = 0; while t < H: ...; t += 1` is the same iteration as `for t in range(H)`: the counter is read like the loop variable
        ts = lp.test
        if isinstance(ts, ast.Compare) and len(ts.ops) == 1 and isinstance(ts.ops[0], ast.Lt) and isinstance(ts.left, ast.Name):
            counter_stop = (ts.left.id, ts.comparators[0])
        elif isinstance(ts, ast.Compare) and len(ts.ops) == 1 and isinstance(ts.ops[0], ast.Gt) and isinstance(ts.comparators[0], ast.Name):
            counter_stop = (ts.comparators[0].id, ts.left)
        else:
            # `while True:` whose first statement is the only exit `if not (t < H): break` goes on exactly while `t < H` holds at the top
            c_, rel_, bound_ = _while_exit(q, lp)
            if rel_ != "lt":
                raise AnalysisError(f"{q}: loop condition `{short(ts, 50)}` goes on while `{c_}` {rel_} `{short(bound_, 30)}` (unrecognised form)")
            counter_stop = (c_, bound_)
    rets = [n for n in cfg.nodes if n.kind == "stmt" and isinstance(n.ast, ast.Return) and n.ast.value is not None]
    ck.need(len(rets) == 1, f"{q}: expected one return")
    rv = rets[0].ast.value
    # the result carries (n_step_return, discount) in this order: a tuple display, or a freshly built plain record (NamedTuple / dataclass)
    # whose fields in constructor order are these two - callers unpack it by position or read the fields
    rsc = Scope(cfg, mi, env, q)
    carried_names = {x.id for x in ast.walk(lp) if isinstance(x, ast.Name) and isinstance(x.ctx, ast.Store)}
    rsc.opaque_names |= carried_names
    comps, _fields = _components(nf, nf.poly(rv, rsc, rets[0].id))
    if comps is None or len(comps) != 2 or any(x.single_atom() not in carried_names for x in comps):
        raise AnalysisError(f"{q}: must return (n_step_return, discount), returns `{short(rv, 60)}` (unrecognised form)")
    G, C = comps[0].single_atom(), comps[1].single_atom()
    for nm in (G, C):
        if not any(d.node in cfg.loop_body_nodes(hdr) for d in cfg.defs_of(rets[0].id, nm)):
            raise AnalysisError(f"{q}: the returned `{nm}` is not the value carried by the loop (unrecognised form)")
    env0 = dict(env)
    env0[G] = Poly.atom("G", {"G"}, {"G"})
    env0[C] = Poly.atom("c", {"c"}, {"c"})
    env0.update(_loop_invariants(nf, cfg, mi, q, env, lp, hdr, skip=(G, C)))
    if counter_stop is not None:
        t = counter_stop[0]
        ck.need(t not in (G, C) and t not in env, f"{q}: loop counter `{t}` (unrecognised form)")
        env0[t] = Poly.atom(t, {t}, {t})
        pe = _loop_body_eval(nf, fn, mi, q, lp, env0)
        t_val = env0[t]
    else:
        pe = _loop_body_eval(nf, fn, mi, q, lp, env0)
        t = lp.target.id if isinstance(lp.target, ast.Name) else None
        ck.need(t is not None, f"{q}: loop variable not a name")
        t_val = pe.env[t]
    ssc = Scope(None, mi, {**env, "G": env0[G], "c": env0[C], t: t_val}, q)
    wantG = nf.poly(parse_expr(f"G + c * {PR}[:, {t}]"), ssc, None)
    wantC = nf.poly(parse_expr(f"c * {PG} * (1 - {PD}[:, {t}])"), ssc, None)
    both = wantG.atoms() | wantC.atoms()
    for nm in (G, C):
        pe.env[nm] = _index_distributed(nf, pe.env[nm], (PR, PD), (PG,))
    if _fields is not None:
        # a record is also read by field name: when the two recurrences hold with the fields taken in the other order, which field is
        # the return is decided by the readers of the record, not by the constructor order
        swap = {"G": env0[C], "c": env0[G]}
        if pe.env[C].subst(swap) == wantG and pe.env[G].subst(swap) == wantC:
            raise AnalysisError(f"{q}: the returned record `{short(rv, 60)}` carries (discount, n_step_return) in constructor order (unrecognised form)")
    _decide(ck, "R2-n-step", q, "return-update", pe.env[G], wantG, f"G' = {pe.env[G].canon()[:120]}", f"expected G + c*r_t (with the discount *before* this step), difference `{(pe.env[G] - wantG).canon()[:120]}`", where, extra=(PG, PD), atoms=both)
    _decide(ck, "R2-n-step", q, "discount-update", pe.env[C], wantC, f"c' = {pe.env[C].canon()[:120]}", f"expected c*gamma*(1 - d_t), difference `{(pe.env[C] - wantC).canon()[:120]}`", where, extra=(PR,), atoms=both)
    # the loop runs t = 0 .. H-1: range(H), range(0, H), range(0, H, 1) with H the second axis of either (B, H) array
    if counter_stop is not None:
        it = f"range(...) as `while {ast.unparse(lp.test)}`"
        ds = [d for d in cfg.defs_of(hdr, t) if d.node not in cfg.loop_body_nodes(hdr)]
        if len(ds) != 1 or ds[0].kind != "assign" or t in {x.id for x in ast.walk(counter_stop[1]) if isinstance(x, ast.Name)}:
            raise AnalysisError(f"{q}: the loop counter `{t}` (unrecognised form)")
        rg = (nf.poly(ds[0].value, Scope(cfg, mi, env, q), ds[0].node), nf.poly(counter_stop[1], Scope(cfg, mi, env, q), hdr), pe.env[t] - env0[t])
        itp = Poly.atom(f"range({', '.join(x.canon() for x in rg)})")
        if any(d.name != t and d.node in cfg.loop_body_nodes(hdr) for x in ast.walk(counter_stop[1]) if isinstance(x, ast.Name) for d in cfg.defs_of(hdr, x.id)):
            raise AnalysisError(f"{q}: the loop bound `{short(counter_stop[1], 40)}` changes in the loop (unrecognised form)")
    else:
        it = ast.unparse(lp.iter)
        itp = nf.poly(lp.iter, Scope(cfg, mi, env, q), hdr)
        rg = _range_parts(nf, itp)
    if rg is None or any(_unread(x) or x.elems is not None for x in rg):
        raise AnalysisError(f"{q}: the loop iterates over `{itp.canon()[:80]}` (unrecognised form)")
    start, stop, step = rg
    horizons = [Poly.atom(f"{p_}.shape[{k_}]") for p_ in (PR, PD) for k_ in ("1", "-1")]
    ok = start.is_const() and start.const_value() == 0 and step.is_const() and step.const_value() == 1 and any(stop == h_ for h_ in horizons)
    if not ok:
        evidence = (start.is_const() and start.const_value() != 0) or (step.is_const() and step.const_value() != 1) or any((stop - h_).is_const() and not (stop - h_).is_zero() for h_ in horizons) \
            or stop.canon() in (f"{PR}.shape[0]", f"{PD}.shape[0]")
        if not evidence:
            raise AnalysisError(f"{q}: the loop iterates over `{itp.canon()[:80]}` (unrecognised form)")
    ck.ob("R2-n-step", q, "horizon-range", ok, f"for {t} in {it}", "" if ok else "the loop must cover every step of the sub-trajectory exactly once, in order", where)
    sc = Scope(cfg, mi, env, q)
    inits = {}
    for nm in (G, C):
        ds = [d for d in cfg.defs_of(hdr, nm) if d.node != hdr and not (set(cfg.enclosing_loops(d.node)) & {hdr})]
        if len(ds) != 1 or ds[0].kind != "assign":
            raise AnalysisError(f"{q}: initial value of `{nm}` is not a single assignment before the loop (unrecognised form)")
        inits[nm] = nf.poly(ds[0].value, sc, ds[0].node)
    shown = f"G0 = {inits[G].canon()[:50]}, c0 = {inits[C].canon()[:50]}"
    # value: every entry 0 / 1 (a wrong constant, or a value that varies with the arguments, is a different start); shape: one entry per
    # sub-trajectory, i.e. the first axis of either (B, H) array
    per_sample = {f"{p_}.shape[0]" for p_ in (PR, PD)} | {f"({p_}.shape[0])" for p_ in (PR, PD)} | {f"{p_}.shape[:1]" for p_ in (PR, PD)} | {f"{p_}.shape[:-1]" for p_ in (PR, PD)}
    other_shape = {f"{p_}.shape[{k_}]" for p_ in (PR, PD) for k_ in ("1", "-1")} | {f"({p_}.shape[{k_}])" for p_ in (PR, PD) for k_ in ("1", "-1")} | {f"{p_}.shape" for p_ in (PR, PD)}
    verdicts = []
    for nm, target in ((G, 0), (C, 1)):
        p_ = inits[nm]
        val, filled = _fill_value(nf, p_)
        if _unread(p_) or val.elems is not None:
            raise AnalysisError(f"{q}: initial values {shown} (unrecognised form)")
        if val.is_const():
            if val.const_value() != target:
                verdicts.append(False)
                continue
        else:
            from ..sem import ingredient_tokens
            if ingredient_tokens(val) <= set(pp) and val.atoms() <= set(pp):
                verdicts.append(False)         # a polynomial in the arguments themselves, not the constant
                continue
            raise AnalysisError(f"{q}: initial values {shown} (unrecognised form)")
        if len(filled) != 1 or p_.single_atom() != filled[0][0]:
            raise AnalysisError(f"{q}: initial values {shown} (unrecognised form)")
        _a, f_, m_ = filled[0]
        import re as _re
        if f_.endswith("_like"):
            like = m_["args"][0].canon() if m_.get("args") else ""
            if not any(_re.fullmatch(_re.escape(x_) + r"\[:, -?\d+\]", like) for x_ in (PR, PD)):
                raise AnalysisError(f"{q}: initial values {shown} (unrecognised form)")
            verdicts.append(True)
            continue
        shp = m_["args"][0] if m_.get("args") else m_.get("kws", {}).get("shape")
        stx = shp.canon() if shp is not None else ""
        if stx in per_sample:
            verdicts.append(True)
        elif stx in other_shape:
            verdicts.append(False)
        else:
            raise AnalysisError(f"{q}: initial values {shown} (unrecognised form)")
    ok = all(verdicts)
    ck.ob("R2-n-step", q, "initial-values", ok, shown, "" if ok else "G must start at 0 and the discount at 1, one entry per sub-trajectory", loc(mi, fn))


def _strip_seq_wrappers(repo, mi, e):
    """list(x) / tuple(x) / np.asarray(x) / np.array(x) of a sequence is the same sequence of elements."""
    while isinstance(e, ast.Call) and len(e.args) == 1 and not isinstance(e.args[0], ast.Starred) and not [k for k in e.keywords if k.arg != "dtype"]:
        r = repo.resolve_expr(mi, e.func) if isinstance(e.func, (ast.Name, ast.Attribute)) else None
        if (isinstance(e.func, ast.Name) and e.func.id in ("list", "tuple") and r is None) or r in ("numpy.array", "numpy.asarray", "jax.numpy.array", "jax.numpy.asarray"):
            e = e.args[0]
        else:
            break
    return e


def _binding_iter(node, name):
    """The iterable whose elements the comprehension / loop variable ``name`` (as seen from ``node``) ranges over, else None."""
    child, anc = node, getattr(node, "_parent", None)
    while anc is not None and not isinstance(anc, (ast.FunctionDef, ast.AsyncFunctionDef, ast.Lambda)):
        gens = anc.generators if isinstance(anc, (ast.ListComp, ast.GeneratorExp, ast.SetComp)) else ([anc] if isinstance(anc, ast.For) and child not in (anc.iter, anc.target) else [])
        for g in reversed(gens):
            if not any(isinstance(x, ast.Name) and x.id == name for x in ast.walk(g.target)):
                continue
            if isinstance(g.target, ast.Name):
                return g.iter
            if isinstance(g.target, ast.Tuple) and len(g.target.elts) == 2 and isinstance(g.target.elts[1], ast.Name) and g.target.elts[1].id == name \
                    and isinstance(g.iter, ast.Call) and isinstance(g.iter.func, ast.Name) and g.iter.func.id == "enumerate" and len(g.iter.args) == 1 and not g.iter.keywords:
                return g.iter.args[0]        # for i, x in enumerate(xs)
            return None
        child, anc = anc, getattr(anc, "_parent", None)
    return None


def _list_valued(e, cfg=None, at=None):
    if isinstance(e, (ast.ListComp, ast.List)):
        return True
    if isinstance(e, ast.Call) and isinstance(e.func, ast.Name) and e.func.id in ("list", "tuple") and len(e.args) <= 1:
        return True
    if isinstance(e, ast.Name) and cfg is not None and at is not None:
        ds = cfg.defs_of(at, e.id)
        return bool(ds) and all(d.kind == "assign" and _list_valued(d.value) for d in ds)
    return False


def _comp_grouping(x, episodes="self.episodes"):
    """A comprehension over the episodes: True - one inner list per episode; False - the steps of all episodes in one flat list; None - not read."""
    if not isinstance(x, ast.ListComp) or dotted(x.generators[0].iter) != episodes or any(g.ifs for g in x.generators):
        return None
    if len(x.generators) == 1:
        return True if _list_valued(x.elt) else None
    g0, g1 = x.generators[0], x.generators[1]
    if len(x.generators) == 2 and isinstance(g0.target, ast.Name) and isinstance(g1.iter, ast.Name) and g1.iter.id == g0.target.id and not _list_valued(x.elt):
        return False
    return None


def _rewards_grouping(nf, rw):
    """How the collection returned by ``_rewards`` is organised (see _comp_grouping)."""
    cfg = nf.cfg_of(rw)
    rets = [n for n in cfg.nodes if n.kind == "stmt" and isinstance(n.ast, ast.Return) and n.ast.value is not None]
    if len(rets) != 1:
        return None
    v = rets[0].ast.value
    if isinstance(v, ast.ListComp):
        return _comp_grouping(v)
    if not isinstance(v, ast.Name):
        return None
    ds = cfg.defs_of(rets[0].id, v.id)
    if len(ds) != 1 or ds[0].kind != "assign":
        return None
    if isinstance(ds[0].value, ast.ListComp):
        return _comp_grouping(ds[0].value)
    if not (isinstance(ds[0].value, ast.List) and not ds[0].value.elts) and not (isinstance(ds[0].value, ast.Call) and isinstance(ds[0].value.func, ast.Name) and ds[0].value.func.id == "list" and not ds[0].value.args):
        return None
    # built in a loop over the episodes: growth of the *returned* list by one list per episode (append) or by the steps themselves (extend / +=)
    verdicts = []
    for x in ast.walk(rw):
        grow = None
        if isinstance(x, ast.Call) and isinstance(x.func, ast.Attribute) and isinstance(x.func.value, ast.Name) and x.func.value.id == v.id and x.func.attr in ("append", "extend", "insert"):
            grow = (x.func.attr, x.args[0] if len(x.args) == 1 and not x.keywords else None, x)
        elif isinstance(x, ast.AugAssign) and isinstance(x.target, ast.Name) and x.target.id == v.id:
            grow = ("extend" if isinstance(x.op, ast.Add) else "?", x.value, x)
        if grow is None:
            continue
        kind, arg, at = grow
        anc = getattr(at, "_parent", None)
        while anc is not None and not isinstance(anc, (ast.For, ast.While, ast.FunctionDef)):
            anc = getattr(anc, "_parent", None)
        if not isinstance(anc, ast.For) or dotted(anc.iter) != "self.episodes" or arg is None:
            return None
        nid = cfg.node_of(at).id
        if kind == "append":
            verdicts.append(True if _list_valued(arg, cfg, nid) else None)
        elif kind == "extend":
            one_list = isinstance(arg, ast.List) and len(arg.elts) == 1 and _list_valued(arg.elts[0], cfg, nid)
            flat = isinstance(arg, (ast.ListComp, ast.GeneratorExp)) and len(arg.generators) == 1 and not _list_valued(arg.elt) and isinstance(anc.target, ast.Name) and dotted(arg.generators[0].iter) == anc.target.id
            verdicts.append(True if one_list else (False if flat else None))
        else:
            verdicts.append(None)
    if not verdicts or any(x is None for x in verdicts) or len(set(verdicts)) != 1:
        return None
    return verdicts[0]


_MIRROR = {ast.Lt: ast.Gt, ast.Gt: ast.Lt, ast.LtE: ast.GtE, ast.GtE: ast.LtE, ast.Eq: ast.Eq, ast.NotEq: ast.NotEq}
_NEGATE = {ast.Lt: ast.GtE, ast.GtE: ast.Lt, ast.Gt: ast.LtE, ast.LtE: ast.Gt, ast.Eq: ast.NotEq, ast.NotEq: ast.Eq}
_REL = {ast.Lt: "lt", ast.LtE: "le", ast.Gt: "gt", ast.GtE: "ge", ast.NotEq: "ne"}


def _while_exit(q, lp):
    """(counter, relation, bound expression): the loop goes on while `counter REL bound` holds at the top of an iteration.  Read are
    `while counter REL bound:` without break / continue and `while True:` whose first statement is the only exit `if counter REL' bound: break`."""
    jumps = [x for x in ast.walk(lp) if isinstance(x, (ast.Break, ast.Continue, ast.Return))]
    if lp.orelse or any(isinstance(x, (ast.For, ast.While)) for x in ast.walk(lp) if x is not lp):
        raise AnalysisError(f"{q}: loop `while {short(lp.test, 40)}` (unrecognised form)")
    if isinstance(lp.test, ast.Constant) and lp.test.value in (True, 1):
        first = lp.body[0]
        if not (isinstance(first, ast.If) and not first.orelse and len(first.body) == 1 and isinstance(first.body[0], ast.Break) and jumps == [first.body[0]]):
            raise AnalysisError(f"{q}: exits of the loop `while {short(lp.test, 40)}` (unrecognised form)")
        cmp, negate = first.test, True
    else:
        if jumps:
            raise AnalysisError(f"{q}: exits of the loop `while {short(lp.test, 40)}` (unrecognised form)")
        cmp, negate = lp.test, False
    if isinstance(cmp, ast.Name):
        cmp = ast.copy_location(ast.Compare(left=cmp, ops=[ast.NotEq()], comparators=[ast.copy_location(ast.Constant(value=0), cmp)]), cmp)       # `while n:` on a counter is `while n != 0:`
    if not (isinstance(cmp, ast.Compare) and len(cmp.ops) == 1 and type(cmp.ops[0]) in _MIRROR):
        raise AnalysisError(f"{q}: loop condition `{short(cmp, 50)}` (unrecognised form)")
    stored = {x.id for x in ast.walk(lp) if isinstance(x, ast.Name) and isinstance(x.ctx, (ast.Store, ast.Del))}
    names = lambda e: {x.id for x in ast.walk(e) if isinstance(x, ast.Name)}
    left, right, op = cmp.left, cmp.comparators[0], type(cmp.ops[0])
    if isinstance(left, ast.Name) and left.id in stored and not (names(right) & stored):
        counter, bound = left.id, right
    elif isinstance(right, ast.Name) and right.id in stored and not (names(left) & stored):
        counter, bound, op = right.id, left, _MIRROR[op]
    else:
        raise AnalysisError(f"{q}: loop condition `{short(cmp, 50)}` (unrecognised form)")
    if negate:
        op = _NEGATE[op]
    if op not in _REL:
        raise AnalysisError(f"{q}: loop condition `{short(cmp, 50)}` (unrecognised form)")
    return counter, _REL[op], bound


def _last_counter(rel, step, bound: Poly, start: Poly, length: Poly):
    """The counter value at the top of the last iteration of `c = start; while c REL bound: ...; c += step` (step +-1), None when not read."""
    one = Poly.const(1)
    if step == -1 and rel in ("gt", "ge"):
        return bound + one if rel == "gt" else bound
    if step == 1 and rel in ("lt", "le"):
        return bound - one if rel == "lt" else bound
    if rel == "ne":
        # the counter must reach the bound: it starts a non-negative number of steps away from it (a constant, or a length plus a constant)
        gap = (start - bound) if step == -1 else (bound - start)
        if not gap.is_const():
            gap = gap - length
        if gap.is_const() and gap.const_value() >= 0 and gap.const_value().denominator == 1:
            return bound + one if step == -1 else bound - one
    return None


def r3_rtg(ck, repo, nf):
    q = "rl_blox.algorithm.reinforce.discounted_reward_to_go"
    fn = repo.func(q)
    mi = fn._module
    pp = positional_params(fn)
    ck.need(len(pp) >= 2, f"{q}: signature changed (anchor vanished)")
    RW, PG = pp[:2]                        # the rewards of one episode, the discount factor: by position of the public signature
    loops = [n for n in fn.body if isinstance(n, (ast.For, ast.While))]
    if not any(isinstance(n, (ast.For, ast.While, ast.AsyncFor, ast.ListComp, ast.GeneratorExp)) for n in ast.walk(fn)):
        agrees = _rtg_bounded(ck, repo, nf, q, fn, mi, RW, PG)
        _r3_callers(ck, repo, nf, q, fn, RW)
        if agrees:
            raise AnalysisError(f"{q}: written without a loop; it agrees with the recurrence for every episode length up to 4, which is not a proof for all lengths (unrecognised form)")
        return
    ck.need(len(loops) == 1, f"{q}: expected one loop (anchor / idiom changed)")
    lp = loops[0]
    where = loc(mi, lp)
    env = _env(fn)
    cfg = nf.cfg_of(fn)
    hdr = cfg.stmt_node[id(lp)]
    inside = cfg.loop_body_nodes(hdr)
    if isinstance(lp, ast.For):
        ck.need(isinstance(lp.target, ast.Name), f"{q}: loop variable not a name")
        r, rel, bound = lp.target.id, None, None
    else:
        # a counting loop: the counter plays the part of the loop variable of `for t in range(...)`
        r, rel, bound = _while_exit(q, lp)
    # the recorded list: the one list grown in the loop; the accumulator: the one variable the loop body both reads from the previous
    # iteration and rebinds (defined before the loop and in it)
    apps = [c for c in ast.walk(lp) if isinstance(c, ast.Call) and isinstance(c.func, ast.Attribute) and c.func.attr == "append" and isinstance(c.func.value, ast.Name)]
    # ... or the one sequence whose slots the loop fills (`out[t] = acc`): the value of step t recorded at position t needs no reversal
    slots = [x for x in ast.walk(lp) if isinstance(x, ast.Subscript) and isinstance(x.ctx, ast.Store)]
    if not apps and len(slots) == 1 and isinstance(slots[0].value, ast.Name) and slots[0].value.id not in env:
        slot_mode = True
    else:
        slot_mode = False
        ck.need(len(apps) == 1 and len(apps[0].args) == 1 and not apps[0].keywords and not slots, f"{q}: expected one append of the accumulator")
    lst = slots[0].value.id if slot_mode else apps[0].func.value.id
    carried = sorted({d.name for nid in inside for d in cfg.nodes[nid].defs if d.name not in (r, lst) and any(d0.node not in inside and d0.node != hdr for d0 in cfg.defs_of(hdr, d.name))})
    if len(carried) != 1:
        raise AnalysisError(f"{q}: the loop carries {carried} from one step to the next, expected one accumulator (unrecognised form)")
    acc = carried[0]
    env0 = dict(env)
    env0[acc] = Poly.atom("acc", {"acc"}, {"acc"})
    env0.update(_loop_invariants(nf, cfg, mi, q, env, lp, hdr, skip=(acc, r, lst)))
    if rel is not None:
        ck.need(r not in env, f"{q}: loop counter `{r}` (unrecognised form)")
        env0[r] = Poly.atom(r, {r}, {r})
    pe = _loop_body_eval(nf, fn, mi, q, lp, env0)
    # what one iteration works on: the loop variable itself when the loop runs over the rewards, else the one element `rewards[t + k]`
    # (k a small constant) that the new accumulator reads, t being the loop variable / counter at the top of the iteration
    t0 = env0[r] if rel is not None else pe.env[r]
    itp = nf.poly(lp.iter, Scope(cfg, mi, env, q), hdr) if rel is None else None
    ittxt = ast.unparse(lp.iter) if rel is None else f"counter `{r}` while {ast.unparse(lp.test)}"
    o_ = _orientation(nf, itp, {RW}) if rel is None else None
    if o_ is not None:
        elem, offset = pe.env[r], None
    else:
        cands = [(k_, f"{RW}[{(t0 + Poly.const(k_)).canon()}]") for k_ in (-2, -1, 0, 1, 2)]
        hits = [(k_, a_) for k_, a_ in cands if a_ in pe.env[acc].atoms()]
        others = [a_ for a_ in pe.env[acc].atoms() if a_.startswith(RW + "[") and a_ not in {x_ for _, x_ in cands}]
        if len(hits) != 1 or others:
            raise AnalysisError(f"{q}: the reward read by one iteration in `{pe.env[acc].canon()[:80]}` (unrecognised form)")
        offset, elem = hits[0][0], Poly.atom(hits[0][1])
    want = nf.poly(parse_expr(f"{PG} * acc + elem__"), Scope(None, mi, {**env, "acc": env0[acc], "elem__": elem}, q), None)
    _decide(ck, "R3-reward-to-go", q, "recurrence", pe.env[acc], want, f"acc' = {pe.env[acc].canon()[:100]}", f"expected gamma*acc + r, difference `{(pe.env[acc] - want).canon()[:100]}`", where, atoms=())
    # the value recorded at each step: the argument of the append as the path evaluation saw it
    if slot_mode:
        # the slot written by one iteration is the position of the reward that iteration reads: the records are in time order
        effs = [e_ for e_ in pe.effects if e_[1] == lst]
        if len(effs) != 1 or len(pe.effects) != 1 or offset is None or effs[0][2] is None:
            raise AnalysisError(f"{q}: the slot of `{lst}` written by one iteration was not read (unrecognised form)")
        if effs[0][2] != (t0 + Poly.const(offset)).canon():
            raise AnalysisError(f"{q}: one iteration reads `{elem.canon()}` and records at `{lst}[{effs[0][2]}]` (unrecognised form)")
        rec, rec_shown = effs[0][3], f"{lst}[{effs[0][2]}] = {effs[0][3].canon()[:80]}"
    else:
        appended = [v for (nid, tgt, v) in pe.log if tgt == "<expr>" and (nf.meta.get(v.single_atom() or "", {}).get("fn") or "") == f"{lst}.append" and len(nf.meta[v.single_atom()].get("args", [])) == 1]
        if len(appended) != 1:
            raise AnalysisError(f"{q}: the value appended to `{lst}` was not read (unrecognised form)")
        rec, rec_shown = nf.meta[appended[0].single_atom()]["args"][0], f"{appended[0].canon()[:100]}"
    _decide(ck, "R3-reward-to-go", q, "records-updated-value", rec, want, rec_shown, "each step must record the accumulator after adding that step's reward", where, atoms=())
    # direction of the iteration: an odd number of reversals between the rewards and what the loop runs over
    if o_ is not None:
        ok = o_[0] == 1
        ck.ob("R3-reward-to-go", q, "backward-iteration", ok, f"for {r} in {ittxt}", "" if ok else "the accumulation must run backwards over the rewards", where)
    else:
        # the indices visited: first, step, last (of a counting loop or a loop over a range, possibly reversed)
        length = nf.poly(parse_expr(f"len({RW})"), Scope(None, mi, env, q), None)
        sc_ = Scope(cfg, mi, env, q)
        if rel is not None:
            step = pe.env[r] - env0[r]
            ds = [d for d in cfg.defs_of(hdr, r) if d.node not in inside and d.node != hdr]
            if len(ds) != 1 or ds[0].kind != "assign" or not step.is_const() or step.const_value() not in (1, -1):
                raise AnalysisError(f"{q}: the loop counter `{r}` (unrecognised form)")
            step = int(step.const_value())
            first = nf.poly(ds[0].value, sc_, ds[0].node)
            last = _last_counter(rel, step, nf.poly(bound, sc_, hdr), first, length)
        else:
            ob_ = _orientation(nf, itp, lambda a_: _fn_of(nf, Poly.atom(a_))[0] == "range")
            rg = _range_parts(nf, Poly.atom(ob_[1])) if ob_ is not None else None
            if rg is None or not rg[2].is_const() or rg[2].const_value() not in (1, -1):
                raise AnalysisError(f"{q}: the loop iterates over `{itp.canon()[:50]}` (unrecognised form)")
            step = int(rg[2].const_value())
            first, last = rg[0], rg[1] - Poly.const(step)
            if ob_[0]:
                first, last, step = last, first, -step
        if last is None or any(_unread(x_) or x_.elems is not None for x_ in (first, last)):
            raise AnalysisError(f"{q}: the range of the loop {ittxt} (unrecognised form)")
        first, last = first + Poly.const(offset), last + Poly.const(offset)
        top, zero = length - Poly.const(1), Poly.const(0)
        hi, lo = (first, last) if step == -1 else (last, first)
        shown = f"{ittxt}: {RW}[{first.canon()}], ..., {RW}[{last.canon()}] (step {step:+d})"
        if not ((hi - top).is_const() and lo.is_const()):
            raise AnalysisError(f"{q}: the range of the loop {shown} (unrecognised form)")
        ok = step == -1
        ck.ob("R3-reward-to-go", q, "backward-iteration", ok, shown, "" if ok else "the accumulation must run backwards over the rewards", where)
        ok = hi == top and lo == zero
        ck.ob("R3-reward-to-go", q, "covers-every-step", ok, shown, "" if ok else "the accumulation must visit every reward of the episode, from the last to the first", where)
    rets = [n for n in cfg.nodes if n.kind == "stmt" and isinstance(n.ast, ast.Return) and n.ast.value is not None]
    ck.need(len(rets) == 1, f"{q}: expected one return")
    txt = ast.unparse(rets[0].ast.value)
    # the recorded list is brought back into time order: an odd number of reversals between the list and the result (reversed(lst) /
    # lst[::-1] / np.array(lst)[::-1], through locals), counting lst.reverse() in place after the loop
    rsc = Scope(cfg, mi, env, q)
    rsc.opaque_names.add(lst)
    o_ = _orientation(nf, nf.poly(rets[0].ast.value, rsc, rets[0].id), {lst})
    if o_ is None:
        raise AnalysisError(f"{q}: the result `{txt[:60]}` (unrecognised form)")
    inplace = [s_ for s_ in ast.walk(fn) if isinstance(s_, ast.Expr) and isinstance(s_.value, ast.Call) and isinstance(s_.value.func, ast.Attribute) and s_.value.func.attr in ("reverse", "sort") and dotted(s_.value.func.value) == lst]
    if any(s_.value.func.attr != "reverse" or s_.value.args or s_.value.keywords or s_ not in fn.body or fn.body.index(s_) < fn.body.index(lp) for s_ in inplace):
        raise AnalysisError(f"{q}: `{lst}` is reordered in place in a way this rule does not read (unrecognised form)")
    if slot_mode:
        # one slot per reward: the sequence is made before the loop with the length of the rewards ([x] * n, zeros / empty (n), *_like(rewards))
        ds = [d for d in cfg.defs_of(hdr, lst) if d.node not in inside and d.node != hdr]
        if len(ds) != 1 or ds[0].kind != "assign" or ds[0].value is None or any(d.name == lst for nid in inside for d in cfg.nodes[nid].defs):
            raise AnalysisError(f"{q}: where the slots of `{lst}` come from (unrecognised form)")
        v_, count = ds[0].value, None
        isc_ = Scope(cfg, mi, env, q)
        length_ = nf.poly(parse_expr(f"len({RW})"), Scope(None, mi, env, q), None)
        if isinstance(v_, ast.BinOp) and isinstance(v_.op, ast.Mult) and sum(isinstance(x_, ast.List) and len(x_.elts) == 1 and not isinstance(x_.elts[0], ast.Starred) for x_ in (v_.left, v_.right)) == 1:
            count = nf.poly(v_.right if isinstance(v_.left, ast.List) else v_.left, isc_, ds[0].node)
        elif isinstance(v_, ast.Call) and len(v_.args) == 1 and not v_.keywords and not isinstance(v_.args[0], ast.Starred):
            f_ = ((repo.resolve_expr(mi, v_.func) if isinstance(v_.func, (ast.Name, ast.Attribute)) else None) or "").split(".")
            if f_[0] in ("numpy", "jax") and f_[-1] in ("zeros", "empty", "ones"):
                a_ = v_.args[0].elts[0] if isinstance(v_.args[0], (ast.Tuple, ast.List)) and len(v_.args[0].elts) == 1 else v_.args[0]
                count = nf.poly(a_, isc_, ds[0].node)
            elif f_[0] in ("numpy", "jax") and f_[-1] in ("zeros_like", "empty_like", "ones_like") and nf.poly(v_.args[0], isc_, ds[0].node).canon() == RW:
                count = length_
        if count is None or _unread(count) or count.elems is not None or not (count - length_).is_const():
            raise AnalysisError(f"{q}: the slots `{lst} = {short(v_, 50)}` (unrecognised form)")
        ok = count == length_
        ck.ob("R3-reward-to-go", q, "one-slot-per-step", ok, f"{lst} = {short(v_, 60)}", "" if ok else "the result must have one entry per reward of the episode", loc(mi, v_))
    ok = (o_[0] + len(inplace)) % 2 == (0 if slot_mode else 1)
    ck.ob("R3-reward-to-go", q, "result-reversed", ok, f"return {txt}" + (f" after {lst}.reverse()" if inplace else ""), "" if ok else ("the values recorded at their own time step are in time order already: they must not be turned round" if slot_mode else "the recorded values must be reversed back into time order"), loc(mi, rets[0].ast))
    ds = [d for d in cfg.defs_of(hdr, acc) if d.node not in inside and d.node != hdr]
    if len(ds) != 1 or ds[0].kind != "assign":
        raise AnalysisError(f"{q}: initial value of `{acc}` is not a single assignment before the loop (unrecognised form)")
    a0, _filled = _fill_value(nf, nf.poly(ds[0].value, Scope(cfg, mi, env, q), ds[0].node))
    if not a0.is_const() or a0.elems is not None:
        raise AnalysisError(f"{q}: initial value `{a0.canon()[:50]}` of the accumulator (unrecognised form)")
    ok = a0.const_value() == 0
    ck.ob("R3-reward-to-go", q, "initial-value", ok, f"{acc}0 = {ast.unparse(ds[0].value)}", "" if ok else "the accumulator must start at 0", loc(mi, fn))
    _r3_callers(ck, repo, nf, q, fn, RW)


def _r3_callers(ck, repo, nf, q, fn, RW):
    # every episode is processed separately by the caller
    cq = "rl_blox.algorithm.reinforce.EpisodeDataset.prepare_policy_gradient_dataset"
    m = repo.method("rl_blox.algorithm.reinforce.EpisodeDataset", "prepare_policy_gradient_dataset")
    ck.need(m is not None, f"{cq} not found")
    mmi = m[1]._module
    calls = [c for c in ast.walk(m[1]) if isinstance(c, ast.Call) and isinstance(c.func, (ast.Name, ast.Attribute)) and repo.resolve_expr(mmi, c.func) == q]
    if len(calls) != 1:
        raise AnalysisError(f"{cq}: expected one discounted_reward_to_go call, found {len(calls)}")
    call = calls[0]
    par = getattr(call, "_parent", None)
    if any(isinstance(a_, ast.Starred) for a_ in call.args) or any(k_.arg is None for k_ in call.keywords):
        raise AnalysisError(f"{cq}: `{short(call, 70)}` passes packed arguments (unrecognised form)")
    a0 = bind_call(fn, call).get(RW)       # by the signature of discounted_reward_to_go: positional or keyword
    if a0 is None:
        raise AnalysisError(f"{cq}: `{short(call, 70)}` does not pass the rewards (unrecognised form)")
    a0 = _strip_seq_wrappers(repo, mmi, a0)
    # the call is applied to each element of a collection of per-episode reward lists (comprehension or loop variable ranging over
    # `self._rewards()` or a local holding it); applying it once to everything concatenated would accumulate across episode boundaries
    mcfg = nf.cfg_of(m[1])
    at = mcfg.node_of(call).id
    per_episode, it_src = None, None
    if isinstance(a0, ast.Name):
        it_src = _binding_iter(call, a0.id)
        per_episode = True if it_src is not None else None
    elif isinstance(a0, ast.Call):
        r0 = (repo.resolve_expr(mmi, a0.func) if isinstance(a0.func, (ast.Name, ast.Attribute)) else None) or dotted(a0.func)
        joins = r0.split(".")[-1] in ("concatenate", "hstack", "chain", "from_iterable") or (isinstance(a0.func, ast.Name) and a0.func.id == "sum" and len(a0.args) == 2)

        def whole_collection(e):
            if isinstance(e, ast.Name):
                ds_ = mcfg.defs_of(at, e.id)
                return len(ds_) == 1 and ds_[0].kind == "assign" and ds_[0].value is not None and not isinstance(ds_[0].value, ast.Name) and whole_collection(ds_[0].value)
            return isinstance(e, ast.Call) and isinstance(e.func, ast.Attribute) and isinstance(e.func.value, ast.Name) and e.func.value.id == "self" and e.func.attr == "_rewards"
        # evidence for "across episodes": the rewards of all episodes joined into one sequence (and nothing that ranges over the episodes)
        if joins and any(whole_collection(y) for y in ast.walk(a0) if isinstance(y, (ast.Name, ast.Call))) and not any(isinstance(y, ast.Name) and _binding_iter(call, y.id) is not None for y in ast.walk(a0)):
            per_episode = False
    if per_episode is None:
        raise AnalysisError(f"{cq}: application of discounted_reward_to_go `{short(call, 70)}` not recognised")
    grouped_here = None
    if per_episode:
        src = it_src
        if isinstance(src, ast.Name):
            ds = mcfg.defs_of(at, src.id)
            src = ds[0].value if len(ds) == 1 and ds[0].kind == "assign" and ds[0].value is not None else None
        is_rewards = isinstance(src, ast.Call) and isinstance(src.func, ast.Attribute) and isinstance(src.func.value, ast.Name) and src.func.value.id == "self" and src.func.attr == "_rewards" and not src.args and not src.keywords
        if not is_rewards:
            grouped_here = _comp_grouping(src) if src is not None else None       # the collection written out in place
            if grouped_here is None:
                raise AnalysisError(f"{cq}: reward-to-go is computed over `{short(it_src, 60)}` (unrecognised idiom)")
    ok = bool(per_episode)
    ck.ob("R4-per-trajectory", cq, "per-episode-returns", ok, f"{short(par) if par is not None else None}", "" if ok else "reward-to-go must be computed per episode (one call per episode's reward list)", loc(mmi, m[1]))
    if not per_episode:
        return
    rwm = repo.method("rl_blox.algorithm.reinforce.EpisodeDataset", "_rewards")
    if grouped_here is None:
        ck.need(rwm is not None, "rl_blox.algorithm.reinforce.EpisodeDataset._rewards not found")
        rw = rwm[1]
        # _rewards returns one inner list per episode: nested comprehension / loop appending an inner list; a comprehension with two
        # generators, or extending the result with the steps, flattens the episodes
        grouped = _rewards_grouping(nf, rw)
        shown_, where_ = next((short(x.value, 80) for x in ast.walk(rw) if isinstance(x, ast.Return) and x.value is not None), None), loc(rw._module, rw)
        if grouped is None:
            raise AnalysisError("rl_blox.algorithm.reinforce.EpisodeDataset._rewards: structure of the returned collection not recognised")
    else:
        grouped, shown_, where_ = grouped_here, short(it_src, 80), loc(mmi, call)
    ck.ob("R4-per-trajectory", cq, "rewards-grouped-by-episode", grouped, f"{shown_}", "" if grouped else "_rewards must return one list per episode (a flat list makes the reward-to-go run across episode boundaries)", where_)


_LAYOUT_OPS = ("T(", "transpose(", "swapaxes(", "moveaxis(", "permute_dims(", "einsum(", "rearrange(")


def _axes_of(nf, e, sc, at):
    """in_axes as written: an int / None for all arguments, or a list of them per argument; "?" when not read."""
    if e is None:
        return 0
    if isinstance(e, ast.BinOp) and isinstance(e.op, ast.Mult):
        seq, k = (e.left, e.right) if isinstance(e.left, (ast.Tuple, ast.List)) else (e.right, e.left)
        kp = nf.poly(k, sc, at)
        inner = _axes_of(nf, seq, sc, at) if isinstance(seq, (ast.Tuple, ast.List)) else "?"
        if isinstance(inner, list) and kp.is_const() and kp.const_value().denominator == 1 and 0 <= kp.const_value() <= 16:
            return inner * int(kp.const_value())
        return "?"
    p = nf.poly(e, sc, at)

    def one(x):
        if x.is_const() and x.elems is None and x.const_value().denominator == 1:
            return int(x.const_value())
        return None if x.canon() == "None" else "?"
    if p.elems is not None:
        out = [one(x) for x in p.elems]
        return "?" if "?" in out else out
    return one(p)


def _buffer_field(p: Poly, owner: str):
    import re
    m = re.fullmatch(re.escape(owner) + r"\.buffer\['(\w+)'\]", p.canon()) if p.elems is None else None
    return m.group(1) if m else None


def _values_kind(nf, p: Poly, VF: str, RB: str):
    """How the critic's values reach the per-environment GAE: "ok" - as a (T, N) array; "flat" - still merged over (T, N); "swapped" -
    reshaped to (N, T); None - not read."""
    def vf_call(x):
        m_ = nf.meta.get(x.single_atom() or "", {})
        return m_ if m_.get("fn") == VF and len(m_.get("args", [])) == 1 and not m_.get("kws") else None
    f, m = _fn_of(nf, p)
    if f == "reshape" and len(m.get("args", [])) >= 2 and not m.get("kws"):
        inner, dims = m["args"][0], m["args"][1:]
        if len(dims) == 1 and dims[0].elems is not None:
            dims = dims[0].elems
        if vf_call(inner) is None:
            return None
        dtx = [d_.canon() for d_ in dims]
        if len(dtx) == 2 and all(x[:-3].endswith(".shape") and x[:-3] == dtx[0][:-3] for x in dtx):
            ax = (dtx[0][-3:], dtx[1][-3:])
            return "ok" if ax == ("[0]", "[1]") else ("swapped" if ax == ("[1]", "[0]") else None)
        if len(dtx) == 1 and dtx[0].endswith(".shape") and _buffer_field(Poly.atom(dtx[0][:-6]), RB) in ("rewards", "terminations", "truncations"):
            return "ok"
        return None
    m = vf_call(p)
    if m is not None:
        arg = m["args"][0]
        fa, ma = _fn_of(nf, arg)
        if fa == "reshape" and len(ma.get("args", [])) >= 2 and ma["args"][1].is_const() and ma["args"][1].const_value() == -1:
            return "flat"
        if _buffer_field(arg, RB) == "obs":
            return "ok"
    return None


def _shifted_kind(nf, p: Poly, vals, VF: str, LO: str):
    """Successor values: True - `vals[1:]` followed along time by the critic's value of the last observation; False - another window of
    the same values / another axis; None - not read.  With ``vals`` None the head only has to be a `[1:]` window of something."""
    f, m = _fn_of(nf, p)
    args, kws = m.get("args", []), m.get("kws", {})
    if f not in ("concatenate", "vstack") or not args or args[0].elems is None or len(args[0].elems) != 2 or (set(kws) - {"axis"}) or len(args) > 2:
        return None
    axis = kws.get("axis", args[1] if len(args) == 2 else Poly.const(0))
    if f == "vstack" and (kws or len(args) != 1):
        return None
    if not axis.is_const():
        return None
    head, tail = args[0].elems
    fh, mh = _fn_of(nf, head)
    if fh != "subscript" or not mh.get("args") or (vals is not None and mh["args"][0] != vals):
        return None
    window = head.single_atom()[len(mh["args"][0].canon()):]
    if _unread(tail) or f"{VF}({LO})" not in tail.canon():
        return None
    if window == "[1:]" and axis.const_value() == 0:
        return True
    import re
    return False if re.fullmatch(r"\[-?\d*:-?\d*\]", window) else None


def r4_callsites(ck, repo, nf):
    gq = "rl_blox.blox.gae.compute_gae"
    gfn = repo.func(gq)
    gps = positional_params(gfn)
    sites = []
    for qual, fn, mi in repo.all_functions():
        for c in ast.walk(fn):
            if isinstance(c, ast.Call) and isinstance(c.func, (ast.Name, ast.Attribute)) and repo.resolve_expr(mi, c.func) == gq:
                # innermost function only
                p = getattr(c, "_parent", None)
                while p is not None and not isinstance(p, (ast.FunctionDef, ast.AsyncFunctionDef)):
                    p = getattr(p, "_parent", None)
                if p is fn:
                    sites.append((qual, fn, mi, c))
    # compute_gae handed to vmap itself, without a wrapper: `vmap(compute_gae, in_axes=...)` in a routine or as a module-level constant
    maps = _direct_maps(repo, gq)

    def never_applied(qual, fn):
        """A nested wrapper whose name is not used anywhere in the routine that holds it: no data reaches compute_gae through it."""
        if "<locals>" not in qual or fn.decorator_list:
            return False
        ofn_ = repo.func(qual.split(".<locals>.")[0])
        return not any(isinstance(x, ast.Name) and x.id == fn.name and not any(a_ is fn for a_ in _ancestors(x)) for x in ast.walk(ofn_))
    sites = [s_ for s_ in sites if not never_applied(s_[0], s_[1])]
    ck.floor("compute_gae-call-sites", len(sites) + len(maps), 2)
    for vm_mi, vm in maps:
        _direct_mapped_site(ck, repo, nf, vm_mi, vm, gfn, gps)
    for qual, fn, mi, c in sites:
        where = loc(mi, c)
        if any(isinstance(a_, ast.Starred) for a_ in c.args) or any(k_.arg is None for k_ in c.keywords) or len(gps) < 6:
            raise AnalysisError(f"{qual}: `{short(c, 70)}` passes packed arguments (unrecognised form)")
        if any(isinstance(a_, ast.Lambda) for a_ in _ancestors(c)):
            raise AnalysisError(f"{qual}: compute_gae is called inside a lambda `{short(c, 60)}` (unrecognised form)")
        if "<locals>" in qual:
            _vmapped_site(ck, repo, nf, qual, fn, mi, c, gfn, gps)
        else:
            # direct call on rollout data: provenance through the callers must not contain an environment-merging reshape
            merged = _merged_provenance(repo, nf, qual, fn, mi, c, gfn, gps)
            ok = not merged
            ck.ob("R4-per-trajectory", qual, "no-merged-env-axis", ok, f"`{short(c, 80)}`",
                  "" if ok else f"the arguments are the environment-major *flattened* rollout ({merged}): the reverse scan runs across environment boundaries, so an "
                                "environment's advantages depend on the next environment's rewards", where)


_VMAPS = ("jax.vmap", "flax.nnx.vmap")


def _direct_maps(repo, gq):
    """Every `vmap(compute_gae, ...)` of the package: (module, the vmap call)."""
    out = []
    for mi in repo.modules.values():
        for x in ast.walk(mi.tree):
            if not (isinstance(x, ast.Call) and isinstance(x.func, (ast.Name, ast.Attribute)) and repo.resolve_expr(mi, x.func) in _VMAPS):
                continue
            f = x.args[0] if x.args else next((k_.value for k_ in x.keywords if k_.arg in ("fun", "f")), None)
            if isinstance(f, (ast.Name, ast.Attribute)) and repo.resolve_expr(mi, f) == gq:
                out.append((mi, x))
    return out


def _direct_mapped_site(ck, repo, nf, vm_mi, vm, gfn, gps):
    """compute_gae mapped with vmap as it stands: the mapped function's parameters are those of compute_gae, so the four sequences, gamma and
    lambda are what the one application passes at their positions; the same checks as for a mapped wrapper."""
    if any(isinstance(a_, ast.Starred) for a_ in vm.args) or any(k_.arg is None for k_ in vm.keywords) or len(gps) < 6:
        raise AnalysisError(f"{vm_mi.name}: `{short(vm, 70)}` passes packed arguments (unrecognised form)")
    apps = []
    for qual, fn, mi in repo.all_functions():
        cfg = None
        for x in ast.walk(fn):
            if not isinstance(x, ast.Call) or next((a_ for a_ in _ancestors(x) if isinstance(a_, (ast.FunctionDef, ast.AsyncFunctionDef, ast.Lambda))), None) is not fn:
                continue
            hit = x.func is vm
            if not hit and isinstance(x.func, ast.Name):
                cfg = cfg or nf.cfg_of(fn)
                try:
                    ds = cfg.defs_of(cfg.node_of(x).id, x.func.id)
                except Exception:
                    ds = []
                hit = len(ds) == 1 and ds[0].kind == "assign" and ds[0].value is vm
                local = bool(ds)
            else:
                local = False
            if not hit and not local and isinstance(x.func, (ast.Name, ast.Attribute)):
                # a module-level constant holding the mapped function
                r_ = repo.resolve_expr(mi, x.func)
                try:
                    node = repo.lookup(r_)[1] if r_ and r_.startswith(repo.PKG + ".") else None
                except AnalysisError:
                    node = None
                hit = isinstance(node, (ast.Assign, ast.AnnAssign)) and node.value is vm
            if hit:
                apps.append((qual, fn, mi, x))
    if len(apps) != 1 or "<locals>" in apps[0][0]:
        raise AnalysisError(f"{vm_mi.name}: `{short(vm, 70)}` is applied {len(apps)} times (unrecognised form)")
    qual, fn, mi, app = apps[0]
    where = loc(mi, app)
    if any(isinstance(a_, ast.Starred) for a_ in app.args) or app.keywords or len(app.args) < 6 or any(isinstance(a_, (ast.For, ast.While, ast.ListComp, ast.GeneratorExp, ast.DictComp, ast.SetComp)) for a_ in _ancestors(app)):
        raise AnalysisError(f"{qual}: `{short(app, 70)}` applies the mapped compute_gae with keyword / packed arguments or in a loop (unrecognised form)")
    ocfg = nf.cfg_of(fn)
    afn, anchor_q, oenv = _anchored(repo, nf, fn, qual)
    osc = Scope(ocfg, mi, oenv, qual)
    op = positional_params(afn)
    if len(op) < 6:
        raise AnalysisError(f"{anchor_q}: signature changed (anchor vanished)")
    n = ocfg.node_of(app)
    inside = any(a_ is fn for a_ in _ancestors(vm))
    vm_at, vm_sc = (ocfg.node_of(vm).id, osc) if inside else (None, Scope(None, vm_mi, {}, vm_mi.name))
    axes_e = vm.args[1] if len(vm.args) > 1 else next((k_.value for k_ in vm.keywords if k_.arg == "in_axes"), None)
    axes = _axes_of(nf, axes_e, vm_sc, vm_at)
    if not isinstance(axes, list) or len(axes) != len(app.args) or axes[4:] != [None] * (len(axes) - 4):
        raise AnalysisError(f"{qual}: in_axes of `{short(vm, 70)}`: gamma and lambda are not shared by all environments (unrecognised form)")
    ck.ob("R4-per-trajectory", anchor_q, "vmapped-per-environment", True, f"{short(vm)}", "", where)

    def g_of():
        return [nf.poly(app.args[4], osc, n.id).canon(), nf.poly(app.args[5], osc, n.id).canon()]
    _mapped_application(ck, repo, nf, qual, fn, ocfg, mi, anchor_q, osc, (op[0], op[1], op[2], op[4], op[5]), vm, vm_at, vm_sc, n, app, list(gps), list(gps[:4]), g_of, where, short(app, 70), "compute_gae")


def _vmapped_site(ck, repo, nf, qual, fn, mi, c, gfn, gps):
    """compute_gae called in a nested wrapper: the wrapper must be applied under vmap over the environment axis of (T, N) data."""
    where = loc(mi, c)
    outer_q = qual.split(".<locals>.")[0]
    ofn = repo.func(outer_q)
    ocfg = nf.cfg_of(ofn)
    afn, anchor_q, oenv = _anchored(repo, nf, ofn, outer_q)       # the recorded routine this code belongs to, and what the parameters stand for
    osc = Scope(ocfg, mi, oenv, outer_q)
    op = positional_params(afn)
    if len(op) < 6:
        raise AnalysisError(f"{anchor_q}: signature changed (anchor vanished)")
    RB, VF, LO, G_OUT, L_OUT = op[0], op[1], op[2], op[4], op[5]       # roles by position of the recorded signature
    # every use of the wrapper's name in the enclosing routine: mapped with vmap, called directly, or something else
    vmapped, direct, other = [], [], []
    for x in ast.walk(ofn):
        if not (isinstance(x, ast.Name) and x.id == fn.name and isinstance(x.ctx, ast.Load)) or any(a_ is fn for a_ in _ancestors(x)):
            continue
        par = getattr(x, "_parent", None)
        if isinstance(par, ast.Call) and par.func is x:
            direct.append(par)
        elif isinstance(par, ast.Call) and isinstance(par.func, (ast.Name, ast.Attribute)) and repo.resolve_expr(mi, par.func) in ("jax.vmap", "flax.nnx.vmap") and (par.args[:1] == [x]):
            vmapped.append(par)
        elif isinstance(par, ast.keyword) and par.arg in ("fun", "f") and isinstance(getattr(par, "_parent", None), ast.Call) and repo.resolve_expr(mi, par._parent.func) in ("jax.vmap", "flax.nnx.vmap"):
            vmapped.append(par._parent)
        else:
            other.append(x)
    if fn.decorator_list or other or (vmapped and direct) or len(vmapped) > 1 or not (vmapped or direct):
        raise AnalysisError(f"{outer_q}: how `{fn.name}` (which calls compute_gae) is applied was not read (unrecognised form)")
    ok = len(vmapped) == 1
    if not ok:
        # evidence for "not per environment": one plain call on whole arrays; a call per environment (in a loop / comprehension, on slices) is
        # another way to keep the environments apart that this rule does not read
        d0 = direct[0]
        if len(direct) != 1 or any(isinstance(a_, (ast.For, ast.While, ast.ListComp, ast.GeneratorExp, ast.Lambda, ast.DictComp, ast.SetComp)) for a_ in _ancestors(d0) if a_ is not ofn and ofn in _ancestors(a_)) \
                or any(isinstance(y, ast.Subscript) for a_ in list(d0.args) + [k_.value for k_ in d0.keywords] for y in ast.walk(a_)):
            raise AnalysisError(f"{outer_q}: `{short(d0, 70)}` applies `{fn.name}` without vmap (unrecognised form)")
    ck.ob("R4-per-trajectory", anchor_q, "vmapped-per-environment", ok, f"{short(vmapped[0]) if vmapped else short(direct[0], 80)}", "" if ok else f"{fn.name} (which calls compute_gae) must be applied with jax.vmap over the environment axis", where)
    if not ok:
        return
    vm = vmapped[0]
    if any(isinstance(a_, ast.Starred) for a_ in vm.args) or any(k_.arg is None for k_ in vm.keywords):
        raise AnalysisError(f"{outer_q}: `{short(vm, 70)}` passes packed arguments (unrecognised form)")
    # the application of the mapped function: `vmap(f, ...)(args)` or a local holding `vmap(f, ...)` called once
    apps = []
    for n_ in ocfg.nodes:
        if n_.ast is None or n_.kind != "stmt":
            continue
        for x in ast.walk(n_.ast):
            if isinstance(x, ast.Call) and x.func is vm:
                apps.append((n_, x))
            elif isinstance(x, ast.Call) and isinstance(x.func, ast.Name):
                ds = ocfg.defs_of(n_.id, x.func.id)
                if len(ds) == 1 and ds[0].kind == "assign" and ds[0].value is vm:
                    apps.append((n_, x))
    if len(apps) != 1:
        raise AnalysisError(f"{outer_q}: the vmapped `{fn.name}` is applied {len(apps)} times (unrecognised form)")
    n, app = apps[0]
    if any(isinstance(a_, ast.Starred) for a_ in app.args) or app.keywords:
        raise AnalysisError(f"{outer_q}: `{short(app, 70)}` passes keyword / packed arguments to the mapped function (unrecognised form)")
    # role -> wrapper parameter (binding of the inner call by the signature of compute_gae) -> argument of the mapped call
    ip = positional_params(fn)
    bnd = bind_call(gfn, c)
    fwd = [dotted(bnd.get(p_)) if bnd.get(p_) is not None else None for p_ in gps[:4]]
    if any(f_ is None or f_ not in ip for f_ in fwd) or len(app.args) > len(ip):
        raise AnalysisError(f"{outer_q}: `{short(c, 70)}` does not forward the wrapper's parameters for the four sequences (unrecognised form)")
    rebound = {x.id for x in ast.walk(fn) if isinstance(x, ast.Name) and isinstance(x.ctx, ast.Store)}
    if rebound & set(fwd):
        raise AnalysisError(f"{outer_q}: `{fn.name}` rebinds its parameters before forwarding them (unrecognised form)")
    ok = len(set(fwd)) == 4
    ck.ob("R4-per-trajectory", anchor_q, "forwarding", ok, f"compute_gae({', '.join(f'{p_}={f_}' for p_, f_ in zip(gps[:4], fwd))})", "" if ok else "rewards, values, next values and terminations must each be forwarded to their own role (one sequence is used in two roles)", where)
    if not ok:
        return
    def g_of():
        # gamma / lambda of the routine, in their roles
        isc = Scope(nf.cfg_of(fn), mi, {**_env(fn), **{k_: v_ for k_, v_ in closure_env(nf, ofn, fn, mi, oenv, outer_q).items() if k_ not in ip}, **{k_: v_ for k_, v_ in oenv.items() if k_ not in ip and k_ not in rebound}}, qual)
        g_e = [bnd.get(p_) for p_ in gps[4:6]]
        if any(x_ is None for x_ in g_e):
            raise AnalysisError(f"{outer_q}: `{short(c, 70)}` does not pass gamma / lambda (unrecognised form)")
        at_c = isc.cfg.node_of(c).id
        g = [nf.poly(x_, isc, at_c).canon() for x_ in g_e]
        # a value the wrapper receives as a parameter is what the mapped call passes for it
        g = [(nf.poly(app.args[ip.index(x_)], osc, n.id).canon() if ip.index(x_) < len(app.args) else x_) if x_ in ip else x_ for x_ in g]
        return g
    _mapped_application(ck, repo, nf, outer_q, ofn, ocfg, mi, anchor_q, osc, (RB, VF, LO, G_OUT, L_OUT), vm, ocfg.node_of(vm).id, osc, n, app, ip, fwd, g_of, where, short(c, 70), fn.name)


def _mapped_application(ck, repo, nf, outer_q, ofn, ocfg, mi, anchor_q, osc, roles, vm, vm_at, vm_sc, n, app, ip, fwd, g_of, where, call_shown, mapped_name):
    """The checks on one application of the GAE mapped with vmap: ``ip`` are the parameters of the mapped function, ``fwd`` those of them that
    reach the four sequences of compute_gae, ``g_of()`` reads what reaches gamma and lambda."""
    RB, VF, LO, G_OUT, L_OUT = roles
    axes_e = vm.args[1] if len(vm.args) > 1 else next((k_.value for k_ in vm.keywords if k_.arg == "in_axes"), None)
    axes = _axes_of(nf, axes_e, vm_sc, vm_at)
    if axes == "?" or (isinstance(axes, list) and len(axes) != len(app.args)):
        raise AnalysisError(f"{outer_q}: in_axes of `{short(vm, 70)}` was not read (unrecognised form)")
    idx = [ip.index(f_) for f_ in fwd]
    if any(i_ >= len(app.args) for i_ in idx):
        raise AnalysisError(f"{outer_q}: `{short(app, 70)}` does not pass the four sequences (unrecognised form)")
    nfl = NF(repo, inline_depth=3)
    nfl.keep_layout = {"reshape"}              # reshapes are part of what is decided here
    osc_l = Scope(ocfg, mi, _anchored(repo, nfl, ofn, outer_q)[2], outer_q)
    vals = [nfl.poly(app.args[i_], osc_l, n.id) for i_ in idx]          # rewards, values, next values, terminations as the GAE receives them
    role_axes = [axes[i_] if isinstance(axes, list) else axes for i_ in idx]
    ok = role_axes == [1, 1, 1, 1]
    if not ok and any(t_ in v_.canon() for v_ in vals for t_ in _LAYOUT_OPS):
        raise AnalysisError(f"{outer_q}: in_axes={role_axes} on re-laid-out arrays `{short(app, 70)}` (unrecognised form)")
    ck.ob("R4-per-trajectory", anchor_q, "vmap-axis", ok, f"in_axes={tuple(role_axes)}", "" if ok else "all four arguments must be mapped over axis 1 (the environment axis of (T, N) arrays)", loc(mi, vm))
    g = g_of()
    ok = g == [G_OUT, L_OUT]
    if not ok and not set(g) <= {G_OUT, L_OUT}:
        raise AnalysisError(f"{outer_q}: `{call_shown}` passes gamma <- {g[0][:30]}, lambda <- {g[1][:30]} (unrecognised form)")
    ck.ob("R4-per-trajectory", anchor_q, "gamma-lambda", ok, f"gamma <- {g[0]}, lmbda <- {g[1]}", "" if ok else "gamma and lambda must be passed in their roles (not swapped, not the same value twice)", where)
    # what each role receives: the buffer's rewards / terminations, the critic's values as (T, N), the values shifted by one step
    kinds = []
    for v_ in vals:
        bf = _buffer_field(v_, RB)
        vk = _values_kind(nfl, v_, VF, RB)
        kinds.append(f"buffer:{bf}" if bf else (f"values:{vk}" if vk else ("shifted" if _shifted_kind(nfl, v_, None, VF, LO) is not None else None)))
    for v_ in vals:
        if _unread(v_):
            raise AnalysisError(f"{outer_q}: argument `{v_.canon()[:80]}` of the per-environment GAE (unrecognised form)")
    ok = kinds[0] == "buffer:rewards" and kinds[3] == "buffer:terminations"
    if not ok and (kinds[0] is None or kinds[3] is None):
        raise AnalysisError(f"{outer_q}: rewards <- `{vals[0].canon()[:60]}`, terminations <- `{vals[3].canon()[:60]}` passed to the per-environment GAE (unrecognised form)")
    ck.ob("R4-per-trajectory", anchor_q, "reward-termination-roles", ok, f"rewards <- {vals[0].canon()[:50]}, terminations <- {vals[3].canon()[:50]}",
          "" if ok else "the vmapped GAE must receive the buffer's rewards and terminations", loc(mi, app))
    # values un-merged to (T, N) and successor values = values shifted by one step + bootstrap of the last observation
    ok = kinds[1] == "values:ok"
    if not ok and kinds[1] is None:
        raise AnalysisError(f"{outer_q}: values passed to the per-environment GAE `{vals[1].canon()[:100]}` (unrecognised form)")
    ck.ob("R4-per-trajectory", anchor_q, "values-unmerged", ok, f"values = {vals[1].canon()[:110]}", "" if ok else "values computed on the flattened batch must be reshaped back to (T, N) before the per-environment GAE", loc(mi, app))
    sh = _shifted_kind(nfl, vals[2], vals[1] if ok else None, VF, LO)
    if sh is None and (kinds[2] is None or kinds[2] == "shifted"):
        raise AnalysisError(f"{outer_q}: successor values passed to the per-environment GAE `{vals[2].canon()[:100]}` (unrecognised form)")
    ok = sh is True
    ck.ob("R4-per-trajectory", anchor_q, "successor-values-shifted", ok, f"next_values = {vals[2].canon()[:150]}", "" if ok else "successor values must be values[1:] followed by the bootstrap value of the last observation along time", loc(mi, app))


def _anchored(repo, nf, fn, qual, depth=0):
    """(recorded routine, its qualified name, values of the parameters of ``fn``).  A routine of the recorded surface is its own anchor and
    its parameters are themselves.  A helper introduced later (not part of the recorded surface) that could not be expanded in place - it
    holds a nested definition - is read where it stands: its parameters are bound, by its signature, to what its one call site passes,
    evaluated in the caller (transitively up to a recorded routine).  The analysis then sees the same values as before the extraction."""
    from ..expand import load_known
    if qual in load_known() or depth > 3:
        return fn, qual, _env(fn)
    sites = []
    for cq, cfn, cmi in repo.all_functions():
        if cfn is fn or any(a_ is fn for a_ in _ancestors(cfn)):
            continue
        for c in ast.walk(cfn):
            if isinstance(c, ast.Call) and isinstance(c.func, (ast.Name, ast.Attribute)) and repo.resolve_expr(cmi, c.func) == qual:
                p_ = next((a_ for a_ in _ancestors(c) if isinstance(a_, (ast.FunctionDef, ast.AsyncFunctionDef, ast.Lambda))), None)
                if p_ is cfn:
                    sites.append((cq, cfn, cmi, c))
    if len(sites) != 1:
        raise AnalysisError(f"{qual}: a helper outside the recorded surface with {len(sites)} call sites (unrecognised form)")
    cq, cfn, cmi, c = sites[0]
    if any(isinstance(a_, ast.Starred) for a_ in c.args) or any(k_.arg is None for k_ in c.keywords) or fn.args.vararg or fn.args.kwarg or fn.decorator_list \
            or positional_params(fn)[:1] in (["self"], ["cls"]) or "<locals>" in qual:
        raise AnalysisError(f"{cq}: `{short(c, 70)}` passes packed arguments (unrecognised form)")
    afn, aq, cenv = _anchored(repo, nf, cfn, cq, depth + 1)
    ccfg = nf.cfg_of(cfn)
    csc = Scope(ccfg, cmi, cenv, cq)
    at = ccfg.node_of(c).id
    bnd = bind_call(fn, c)
    pos = fn.args.posonlyargs + fn.args.args
    defaults = dict(zip([a_.arg for a_ in pos][len(pos) - len(fn.args.defaults):], fn.args.defaults))
    defaults.update({a_.arg: d_ for a_, d_ in zip(fn.args.kwonlyargs, fn.args.kw_defaults) if d_ is not None})
    env = {}
    for p_ in param_names(fn):
        if p_ in bnd and not isinstance(bnd[p_], list):
            env[p_] = nf.poly(bnd[p_], csc, at)
        elif p_ in defaults:
            env[p_] = nf.poly(defaults[p_], Scope(None, fn._module, {}, qual), None)
        else:
            raise AnalysisError(f"{cq}: `{short(c, 70)}` does not pass `{p_}` (unrecognised form)")
    return afn, aq, env


def _ancestors(x):
    p = getattr(x, "_parent", None)
    while p is not None:
        yield p
        p = getattr(p, "_parent", None)


def _merged_provenance(repo, nf, qual, fn, mi, call, gfn, gps):
    """Follow parameter arguments of a compute_gae call to the callers; report a reshape(-1, ...) on the way."""
    params = set(param_names(fn))
    bnd0 = bind_call(gfn, call)           # by the signature of compute_gae: positional or keyword
    names = [a.id for a in (bnd0.get(p_) for p_ in gps[:4]) if isinstance(a, ast.Name) and a.id in params]
    if not names:
        return ""
    # callers of `fn`
    for cq, cfn, cmi in repo.all_functions():
        for c in ast.walk(cfn):
            if isinstance(c, ast.Call) and isinstance(c.func, (ast.Name, ast.Attribute)) and repo.resolve_expr(cmi, c.func) == qual:
                b = bind_call(fn, c)
                ccfg = nf.cfg_of(cfn)
                try:
                    at = ccfg.node_of(c).id
                except KeyError:
                    continue
                for nm in names:
                    a = b.get(nm)
                    if not isinstance(a, ast.Name):
                        continue
                    for d in ccfg.defs_of(at, a.id):
                        if d.kind == "unpack" and isinstance(d.value, ast.Call) and isinstance(d.value.func, ast.Name):
                            pq = repo.resolve_name(cmi, d.value.func.id)
                            if pq and repo.has(pq):
                                pfn = repo.func(pq)
                                # element of the producer's result tuple
                                for r in ast.walk(pfn):
                                    if isinstance(r, ast.Return) and isinstance(r.value, ast.Call) and d.path and isinstance(d.path[0], int) and d.path[0] < len(r.value.args):
                                        el = r.value.args[d.path[0]]
                                        for x in ast.walk(el):
                                            if isinstance(x, ast.Call) and isinstance(x.func, ast.Name):
                                                for nd in ast.walk(pfn):
                                                    if isinstance(nd, ast.FunctionDef) and nd.name == x.func.id:
                                                        for y in ast.walk(nd):
                                                            if isinstance(y, ast.Call) and isinstance(y.func, ast.Attribute) and y.func.attr == "reshape" and y.args and ast.unparse(y.args[0]) == "-1":
                                                                return f"{pq.rsplit('.', 1)[1]}.{nd.name}: {short(y, 60)}"
                                            if isinstance(x, ast.Call) and isinstance(x.func, ast.Attribute) and x.func.attr == "reshape" and x.args and ast.unparse(x.args[0]) == "-1":
                                                return f"{pq.rsplit('.', 1)[1]}: {short(x, 60)}"
    return ""


def _has_product(nf, p: Poly, a1: str, a2: str, depth: int = 0) -> bool:
    """Some factor of ``p`` (at any call depth) is a product containing both atoms."""
    if p is None or depth > 8:
        return False
    for x in (p.elems or []):
        if _has_product(nf, x, a1, a2, depth + 1):
            return True
    for mono in p.terms:
        names = {a for a, _ in mono}
        if a1 in names and a2 in names:
            return True
        for a in names:
            m = nf.meta.get(a, {})
            for x in list(m.get("args", [])) + list(m.get("kws", {}).values()):
                if _has_product(nf, x, a1, a2, depth + 1):
                    return True
    return False


def _rollout_holder(repo, nf, fn, q):
    """The routine that holds the nested roll-out of the encoder loss: the recorded routine itself, or the one later helper it calls that
    could not be expanded in place because it holds the nested definition; with the values its parameters stand for (see _anchored)."""
    if any(isinstance(n, ast.FunctionDef) and n is not fn for n in ast.walk(fn)):
        return fn, q, _env(fn)
    holders = []
    for caller, helper in getattr(repo, "expand_failed", []):
        if caller == q and helper not in [h_ for h_, _ in holders] and repo.has(helper):
            h = repo.func(helper)
            if any(isinstance(n, ast.FunctionDef) and n is not h for n in ast.walk(h)):
                holders.append((helper, h))
    if len(holders) != 1:
        raise AnalysisError(f"{q}: roll-out body not found (anchor vanished)")
    hq, hfn = holders[0]
    for _q, f_, m_ in repo.all_functions():
        if f_ is hfn:
            hfn._module = m_
    _a, aq, henv = _anchored(repo, nf, hfn, hq)
    if aq != q:
        raise AnalysisError(f"{q}: roll-out body not found (anchor vanished)")
    return hfn, hq, henv


def _mentions(nf, p: Poly, atom: str, depth: int = 0) -> bool:
    """``atom`` occurs in ``p`` at any call depth."""
    if p is None or depth > 8:
        return False
    if any(_mentions(nf, x, atom, depth + 1) for x in (p.elems or [])):
        return True
    for a in p.atoms():
        if a == atom:
            return True
        m = nf.meta.get(a, {})
        if any(_mentions(nf, x, atom, depth + 1) for x in list(m.get("args", [])) + list(m.get("kws", {}).values())):
            return True
    return False


def _r5_hoisted_mask(ck, repo, nf, nf2, q, fn, hfn, hq, henv, body, bp, sc, rp, BT, mq, where):
    """The roll-out with the termination mask computed before the scan for all steps (`mask[:, t]` inside the body): every term must be
    weighted by the mask of its step, and the mask array - evaluated for every horizon 1..4 and every termination pattern - must be the
    running product of the not-terminated flags of all earlier steps."""
    from itertools import product
    mi = hfn._module
    # the mask of a step is what masked_mse_loss receives as its mask (role by the signature of masked_mse_loss): `M[:, t]` with M and t
    # parameters of the body
    import re
    mfn = repo.func(mq)
    mps = positional_params(mfn)
    masks = []
    for c in ast.walk(body):
        if isinstance(c, ast.Call) and isinstance(c.func, (ast.Name, ast.Attribute)) and repo.resolve_expr(mi, c.func) == mq:
            b = bind_call(mfn, c)
            if len(mps) < 3 or mps[2] not in b or any(isinstance(a_, ast.Starred) for a_ in c.args) or any(k_.arg is None for k_ in c.keywords):
                raise AnalysisError(f"{q}: `{short(c, 70)}` (unrecognised form)")
            masks.append((c, b, nf2.poly(b[mps[2]], sc, sc.cfg.node_of(c).id)))
    forms = {mp.canon() for _c, _b, mp in masks}
    mm = re.fullmatch(r"(\w+)\[:, (\w+)\]", next(iter(forms))) if len(forms) == 1 else None
    if mm is None or mm.group(1) not in bp[1:] or mm.group(2) not in bp[1:] or mm.group(1) == mm.group(2):
        raise AnalysisError(f"{q}: the masks {sorted(forms)} passed to masked_mse_loss in a roll-out that does not carry the mask (unrecognised form)")
    ND, TT = mm.group(1), mm.group(2)
    m_atom = f"{ND}[:, {TT}]"
    for nm, term in zip(["dynamics", "reward", "done", "reward_mse"], rp.elems[1:]):
        uses = _mentions(nf2, term, m_atom)
        if not uses and (ND in term.deps or _unread(term)):
            raise AnalysisError(f"{q}: loss term {nm} = `{term.canon()[:100]}` (unrecognised form)")
        ck.ob("R5-post-terminal-mask", q, f"term-masked:{nm}", uses, f"{nm} = {term.canon()[:130]}", "" if uses else "the term is not weighted by the termination mask: steps after a terminated step still contribute", where)
    for c, b, mp in masks:
        ck.ob("R5-post-terminal-mask", q, f"mask-arg:{short(b.get(mps[0]), 30) if b.get(mps[0]) is not None else '?'}", True, f"mask <- {mp.canon()}", "", loc(mi, c))
    # the mask array handed to the roll-out
    ocfg = nf.cfg_of(hfn)
    apps = [(n, c) for n in ocfg.nodes if n.ast is not None and n.kind == "stmt" for c in ast.walk(n.ast) if isinstance(c, ast.Call) and dotted(c.func) == body.name]
    ck.need(len(apps) == 1, f"{q}: roll-out call not found")
    n, app = apps[0]
    if any(isinstance(a_, ast.Starred) for a_ in app.args) or any(k_.arg is None for k_ in app.keywords):
        raise AnalysisError(f"{q}: `{short(app, 70)}` passes packed arguments (unrecognised form)")
    ab = bind_call(body, app)
    if ND not in ab or TT not in ab:
        raise AnalysisError(f"{q}: `{short(app, 70)}` does not pass the mask / the steps (unrecognised form)")
    osc = Scope(ocfg, mi, henv, hq)
    steps = nf.poly(ab[TT], osc, n.id)
    fs, ms = _fn_of(nf, steps)
    if fs != "arange" or len(ms.get("args", [])) != 1 or (set(ms.get("kws", {})) - {"dtype"}):
        raise AnalysisError(f"{q}: the roll-out runs over `{steps.canon()[:60]}` (unrecognised form)")
    holders = [p_ for p_, v_ in henv.items() if v_.canon() == BT]
    if len(holders) != 1:
        raise AnalysisError(f"{q}: the sampled batch inside `{hq}` (unrecognised form)")
    found = None
    for H in (1, 2, 3, 4):
        for world in product((0, 1), repeat=H):
            ev = _Bounded(repo, nf, hfn, mi, hq, {f"{holders[0]}.terminated": _Arr((1, H), [Poly.const(d) for d in world], 0)})
            try:
                got = ev.ev(ab[ND], n.id)
            except _NotRead as e:
                raise AnalysisError(f"{q}: the mask `{short(ab[ND], 50)}` handed to the roll-out was not evaluated for a concrete horizon: {e} (unrecognised form)")
            if not (isinstance(got, _Arr) and got.shape == (1, H) and got.batch == 0):
                raise AnalysisError(f"{q}: the mask `{short(ab[ND], 50)}` handed to the roll-out is not one value per sample and step (unrecognised form)")
            alive = 1
            for t in range(H):
                if found is None and got.flat[t] != Poly.const(alive):
                    found = (H, world, t, got.flat[t], alive)
                alive *= 1 - world[t]
    if found is None:
        raise AnalysisError(f"{q}: the termination mask is computed before the roll-out; it is the running product of the earlier not-terminated flags for every horizon up to 4 and every "
                            "termination pattern, which is not a proof for all horizons (unrecognised form)")
    H, world, t, got, want = found
    ck.ob("R5-post-terminal-mask", q, "mask-update", False, f"mask = {short(ab[ND], 60)}: step {t} of horizon {H}, terminated = {list(world)}: {got.canon()}",
          f"with terminated = {list(world)} the mask of step {t} is {got.canon()} but " + ("a step before it has terminated the sub-trajectory: it must be 0 (cumulative: nothing after the first terminated step counts)" if want == 0 else
                                                                                           "no earlier step has terminated: it must be 1 (the terminated step itself still counts; the mask is the product over the steps before it)"), loc(mi, app),
          witness=[f"horizon {H}, terminated = {list(world)}: mask[{t}] = {got.canon()}, documented {want}"])


def r5_encoder(ck, repo, nf):
    q = "rl_blox.blox.embedding.model_based_encoder.model_based_encoder_loss"
    fn = repo.func(q)
    mi = fn._module
    op = positional_params(fn)
    ck.need(len(op) >= 8, f"{q}: signature changed (anchor vanished)")
    ENC, ENC_T, BT, WEIGHTS = op[0], op[1], op[3], op[5:8]           # roles by position of the recorded signature
    hfn, hq, henv = _rollout_holder(repo, nf, fn, q)
    mi = hfn._module
    body = next((n for n in ast.walk(hfn) if isinstance(n, ast.FunctionDef) and n is not hfn), None)
    ck.need(body is not None, f"{q}: roll-out body not found (anchor vanished)")
    body._module = mi
    where = loc(mi, body)
    bp = positional_params(body)
    ck.need(len(bp) >= 8, f"{q}: roll-out body must take (carry, encoder, bins, batch, next_zs, not_done, environment_terminates, t)")
    ND, TT = bp[5], bp[7]
    env = {p: Poly.atom(p, {p}, {p}) for p in bp}
    mq = "rl_blox.blox.losses.masked_mse_loss"
    nf2 = NF(repo, no_inline={mq, "rl_blox.blox.preprocessing.two_hot_cross_entropy_loss", "rl_blox.blox.preprocessing.two_hot_decoding"})
    sc = Scope(nf2.cfg_of(body), mi, env, q + ".<locals>." + body.name)
    rets = [n for n in sc.cfg.nodes if n.kind == "stmt" and isinstance(n.ast, ast.Return)]
    ck.need(len(rets) == 1 and rets[0].ast.value is not None, f"{q}: roll-out body has {len(rets)} returns")
    rp = nf2.poly(rets[0].ast.value, sc, rets[0].id)
    shape_msg = f"{q}: roll-out body must return ((zs, mask), dyn, rew, done, rew_mse)"
    ck.need(rp.elems is not None and len(rp.elems) in (2, 5), shape_msg)
    carry_c, carry_f = _components(nf2, rp.elems[0])
    if carry_c is None and len(rp.elems) == 5 and not _unread(rp.elems[0]):
        # the carry is the latent state alone: the mask is not threaded through the scan but handed in for all steps at once
        return _r5_hoisted_mask(ck, repo, nf, nf2, q, fn, hfn, hq, henv, body, bp, sc, rp, BT, mq, where)
    ck.need(carry_c is not None and len(carry_c) == 2, shape_msg)
    if carry_f is not None:
        # the carry is a record (NamedTuple): reading a field of the carried-in record is reading that component (same leaf as carry[i])
        comp = {f_: Poly.atom(f"{bp[0]}[{i_}]", {f"{bp[0]}[{i_}]"}, {f"{bp[0]}[{i_}]"}) for i_, f_ in enumerate(carry_f)}
        nf2.meta[bp[0]] = {"deps": frozenset({bp[0]}), "gdeps": frozenset({bp[0]}), "fn": "", "args": [], "kws": {}, "record": comp}
        rp = nf2.poly(rets[0].ast.value, sc, rets[0].id)
        carry_c, _f = _components(nf2, rp.elems[0])
        ck.need(carry_c is not None and len(carry_c) == 2, shape_msg)
    out_fields = None
    if len(rp.elems) == 5:
        outs = list(rp.elems[1:])
    else:
        outs, out_fields = _components(nf2, rp.elems[1])       # the four terms as one tuple / record
        ck.need(outs is not None and len(outs) == 4, shape_msg)
    carry_in = f"{bp[0]}[1]"
    flag = f"{ND}[:, {TT}]"
    mask_out = carry_c[1]
    want = nf2.poly(parse_expr(f"{ND}[:, {TT}] * {bp[0]}[1]"), Scope(None, mi, env, q), None)
    _decide(ck, "R5-post-terminal-mask", q, "mask-update", mask_out, want, f"mask' = {mask_out.canon()[:90]}", "the carried mask must become not_done[:, t] * mask (cumulative: nothing after the first terminated step counts)", where, atoms=())
    names = ["dynamics", "reward", "done", "reward_mse"]
    for k, nm in enumerate(names, start=1):
        term = outs[k - 1]
        txt = term.canon()
        # weighted by the mask carried in: the term depends on it (no dataflow from the mask to the term is the evidence for "unmasked")
        # and no factor of it is the mask already multiplied with this step's flag
        uses_in = carry_in in term.deps
        uses_out = _has_product(nf2, term, flag, carry_in)
        ok = uses_in and not uses_out
        if not uses_in and _unread(term):
            raise AnalysisError(f"{q}: loss term {nm} = `{txt[:100]}` (unrecognised form)")
        ck.ob("R5-post-terminal-mask", q, f"term-masked:{nm}", ok, f"{nm} = {txt[:130]}",
              "" if ok else ("the term is not weighted by the termination mask: steps after a terminated step still contribute" if not uses_in else "the term uses the mask *after* it was updated with this step's termination flag"), where)
    # masked_mse_loss receives the mask carried in
    mfn = repo.func(mq)
    mps = positional_params(mfn)
    ck.need(len(mps) >= 3, f"{mq}: signature changed (anchor vanished)")
    for c in ast.walk(body):
        if isinstance(c, ast.Call) and isinstance(c.func, (ast.Name, ast.Attribute)) and repo.resolve_expr(mi, c.func) == mq:
            at = sc.cfg.node_of(c).id
            b = bind_call(mfn, c)
            if mps[2] not in b or any(isinstance(a_, ast.Starred) for a_ in c.args) or any(k_.arg is None for k_ in c.keywords):
                raise AnalysisError(f"{q}: `{short(c, 70)}` (unrecognised form)")
            mp = nf2.poly(b[mps[2]], sc, at)
            m = mp.canon()
            ok = m == carry_in
            if not ok and not (mp == want or _has_product(nf2, mp, flag, carry_in) or (carry_in not in mp.deps and not _unread(mp))):
                raise AnalysisError(f"{q}: mask `{m[:80]}` passed to masked_mse_loss (unrecognised form)")
            ck.ob("R5-post-terminal-mask", q, f"mask-arg:{short(b.get(mps[0]), 30) if b.get(mps[0]) is not None else '?'}", ok, f"mask <- {m}", "" if ok else "masked_mse_loss must receive the carried-in termination mask", loc(mi, c))
    # the initial mask is all ones and the initial latent state is the encoding of the first observation
    ocfg = nf.cfg_of(hfn)
    osc = Scope(ocfg, mi, henv, hq)
    apps = [(n, c) for n in ocfg.nodes if n.ast is not None and n.kind == "stmt" for c in ast.walk(n.ast) if isinstance(c, ast.Call) and dotted(c.func) == body.name]
    ck.need(len(apps) == 1, f"{q}: roll-out call not found")
    n, app = apps[0]
    if any(isinstance(a_, ast.Starred) for a_ in app.args) or any(k_.arg is None for k_ in app.keywords):
        raise AnalysisError(f"{q}: `{short(app, 70)}` passes packed arguments (unrecognised form)")
    ab = bind_call(body, app)             # by the signature of the roll-out body: positional or keyword
    if bp[0] not in ab or ND not in ab:
        raise AnalysisError(f"{q}: `{short(app, 70)}` does not pass the carry / not_done (unrecognised form)")
    init = nf.poly(ab[bp[0]], osc, n.id)
    init_c, _f = _components(nf, init)
    if init_c is None or len(init_c) != 2 or _unread(init):
        raise AnalysisError(f"{q}: initial carry `{init.canon()[:100]}` (unrecognised form)")
    import re
    m0, _filled = _fill_value(nf, init_c[1])
    f0, mz = _fn_of(nf, init_c[0])
    z_arg = mz["args"][0].canon() if len(mz.get("args", [])) == 1 and not mz.get("kws") else ""
    first_obs = re.fullmatch(re.escape(BT) + r"(?:\.observation|\[0\])\[:, 0\]", z_arg) is not None
    ok = m0.is_const() and m0.const_value() == 1 and mz.get("fn") == f"{ENC}.encode_zs" and first_obs
    if not ok:
        evidence = (m0.is_const() and m0.const_value() != 1) or mz.get("fn") == f"{ENC_T}.encode_zs" \
            or (mz.get("fn") == f"{ENC}.encode_zs" and re.fullmatch(re.escape(BT) + r"(?:\.\w+|\[\d\])(?:\[:, -?\d+\])?", z_arg) is not None and not first_obs)
        if not evidence:
            raise AnalysisError(f"{q}: initial carry `{init.canon()[:100]}` (unrecognised form)")
    ck.ob("R5-post-terminal-mask", q, "initial-carry", ok, f"({init.canon()[:130]}", "" if ok else "roll-out must start from encode_zs(observation[:, 0]) with an all-ones mask", loc(mi, app))
    ndp = nf.poly(ab[ND], osc, n.id)
    wsc = Scope(None, mi, _env(fn), q)
    wants = [nf.poly(parse_expr(f"1 - {BT}.terminated"), wsc, None), nf.poly(parse_expr(f"1 - {BT}[4]"), wsc, None)]
    if ndp in wants:
        ck.ob("R5-post-terminal-mask", q, "not-done-definition", True, f"not_done = {ndp.canon()}", "", loc(mi, app))
    else:
        _decide(ck, "R5-post-terminal-mask", q, "not-done-definition", ndp, wants[0], f"not_done = {ndp.canon()[:100]}", "not_done must be 1 - terminated (truncation does not cut the learning signal)", loc(mi, app), extra=("truncated",),
                atoms=(f"{BT}.truncated", f"{BT}[5]", f"{BT}[4]", f"{BT}.terminated"))
    tot = nf.return_poly(q, _env(fn))
    if tot.elems is None or not tot.elems:
        raise AnalysisError(f"{q}: result `{tot.canon()[:80]}` is not (total, components) (unrecognised form)")
    t0 = tot.elems[0]
    # total = w_dyn * sum(dyn) + w_rew * sum(rew) + w_done * sum(done): every monomial is one weight times the summed roll-out output of its
    # position (outputs 1, 2, 3 of the roll-out)
    pairs, readable = [], True          # (the roll-out's own arguments inside the summed atoms are not part of this reading)
    hparts = None
    if hfn is not fn:
        # the roll-out is called by a later helper: a component of the helper's result (by field or position) is the value the helper returns there
        hrets = [n_ for n_ in ocfg.nodes if n_.kind == "stmt" and isinstance(n_.ast, ast.Return) and n_.ast.value is not None]
        if len(hrets) == 1:
            hparts = _components(nf, nf.poly(hrets[0].ast.value, osc, hrets[0].id))

    def through_holder(a_):
        m_ = nf.meta.get(a_ or "", {})
        base = m_["args"][0] if m_.get("fn") in ("attr", "proj") and m_.get("args") else None
        if hparts is None or hparts[0] is None or base is None or nf.meta.get(base.single_atom() or "", {}).get("fn") != hq:
            return a_
        sel = a_[len(base.canon()):]
        comps, names_ = hparts
        if names_ is not None and sel.startswith(".") and sel[1:] in names_:
            return comps[names_.index(sel[1:])].single_atom()
        if re.fullmatch(r"\[\d\]", sel) and int(sel[1:-1]) < len(comps):
            return comps[int(sel[1:-1])].single_atom()
        return a_
    for mono, coef in t0.terms.items():
        ws = [(a, k) for a, k in mono if a in WEIGHTS]
        rest = [(a, k) for a, k in mono if a not in WEIGHTS]
        out_k = None
        if len(rest) == 1 and rest[0][1] == 1:
            fr, mr = _fn_of(nf, Poly.atom(rest[0][0]))
            src = mr["args"][0].single_atom() if fr == "sum" and len(mr.get("args", [])) == 1 and not mr.get("kws") else None
            src = through_holder(src) if hfn is not fn else src
            if src is not None and f".<locals>.{body.name}(" in src:
                mm = re.search(r"\)\[(\d)\]$", src) if out_fields is None and len(rp.elems) == 5 else None
                ms = re.search(r"\)\[\('\*', (\d)\)\]\[(\d)\]$", src) if out_fields is None and len(rp.elems) == 5 else None
                if ms and int(ms.group(1)) + int(ms.group(2)) < 10:
                    # `a, *rest = roll_out(...)`: rest[k] is the result's component i + k (i: position of the starred target)
                    mm = re.search(r"(\d)$", str(int(ms.group(1)) + int(ms.group(2))))
                mn = re.search(r"\)\[1\]\[(\d)\]$", src) if len(rp.elems) == 2 else None
                mf = re.search(r"\)\[1\]\.(\w+)$", src) if out_fields is not None else None
                out_k = int(mm.group(1)) if mm else (int(mn.group(1)) + 1 if mn else (out_fields.index(mf.group(1)) + 1 if mf and mf.group(1) in out_fields else None))
        if out_k is None:
            readable = False
        pairs.append((coef, ws, out_k))
    ok = readable and len(pairs) == 3 and all(coef == 1 and len(ws) == 1 and ws[0][1] == 1 and out_k == WEIGHTS.index(ws[0][0]) + 1 for coef, ws, out_k in pairs) and len({ws[0][0] for _, ws, _ in pairs}) == 3
    if not ok and not readable:
        raise AnalysisError(f"{q}: total loss `{t0.canon()[:100]}` (unrecognised form)")
    shown = " + ".join(f"{'' if coef == 1 else str(coef) + '*'}{'*'.join(a_ if k_ == 1 else f'{a_}^{k_}' for a_, k_ in ws) or '1'}*sum(roll-out output {out_k})" for coef, ws, out_k in pairs) if readable else t0.canon()[:150]
    ck.ob("R5-post-terminal-mask", q, "weighted-sum", ok, f"total = {shown}", "" if ok else "total loss must be w_dyn*sum(dyn) + w_rew*sum(rew) + w_done*sum(done)", where)


def r5_shapes(ck, repo, nf):
    """Per-sample mask broadcasting and axis discipline in the encoder loss, independent of how the roll-out is organised."""
    q = "rl_blox.blox.embedding.model_based_encoder.model_based_encoder_loss"
    fn = repo.func(q)
    mi = fn._module
    op = positional_params(fn)
    ck.need(len(op) >= 4, f"{q}: signature changed (anchor vanished)")
    ENC, ENC_T, BINS, BT = op[:4]          # roles by position of the recorded signature
    class _Engine(ShapeEngine):
        """Keeps the variable shapes of the outermost routine (they are what a later helper holding the roll-out receives)."""
        top = None

        def block(self, stmts, env, ctx):
            if self.top is None:
                self.top = (env, ctx)
            return super().block(stmts, env, ctx)
    se = _Engine(repo)
    H = "$encoder_horizon"
    fields = {"observation": ("B", H, "O"), "action": ("B", H, "A"), "reward": ("B", H), "next_observation": ("B", H, "O"), "terminated": ("B", H), "truncated": ("B", H)}
    senv = {**{f"{BT}.{k_}": v_ for k_, v_ in fields.items()}, BINS: ("K",)}
    se.module_out = {f"{ENC}.encode_zs": "Z", f"{ENC_T}.encode_zs": "Z", f"{ENC_T}.zs": "Z"}
    se.analyse(fn, mi, q, senv)
    hfn, hq, _henv = _rollout_holder(repo, nf, fn, q)
    if hfn is not fn:
        # the roll-out lives in a later helper: it is typed with the shapes of the arguments at its call; the batch and the encoders
        # keep their field / method shapes under the helper's own parameter names
        call = next(c for c in ast.walk(fn) if isinstance(c, ast.Call) and isinstance(c.func, (ast.Name, ast.Attribute)) and repo.resolve_expr(mi, c.func) == hq)
        env_, ctx_ = se.top
        harg = {}
        for p_, a_ in bind_call(hfn, call).items():
            if isinstance(a_, list):
                continue
            harg[p_] = se.ev(a_, env_, ctx_)
            if isinstance(a_, ast.Name) and a_.id == BT:
                harg.update({f"{p_}.{k_}": v_ for k_, v_ in fields.items()})
            for role, outs in ((ENC, ("encode_zs",)), (ENC_T, ("encode_zs", "zs"))):
                if isinstance(a_, ast.Name) and a_.id == role:
                    se.module_out.update({f"{p_}.{k_}": "Z" for k_ in outs})
        n_before = len(se.trace)
        se.analyse(hfn, hfn._module, hq, harg)
        if len(se.trace) - n_before < 8:
            raise AnalysisError(f"{hq}: the shapes of the roll-out were not inferred (unrecognised form)")
    nested = {x.name for x in ast.walk(hfn) if isinstance(x, ast.FunctionDef) and x is not hfn}
    if se.alarms and any(isinstance(x, ast.Call) and isinstance(x.func, ast.Name) and x.func.id in nested and x.keywords for x in ast.walk(hfn)):
        # the shape engine binds the arguments of the scanned roll-out by position only
        raise AnalysisError(f"{q}: the roll-out is called with keyword arguments (unrecognised form)")
    _shape_obligations(ck, se, "R5-post-terminal-mask", q, mi, fn, f"symbolic shapes with batch fields (B,{H},..), bins (K,)")
    # masked_mse_loss itself under its documented shapes
    mq = "rl_blox.blox.losses.masked_mse_loss"
    mfn = repo.func(mq)
    mps = positional_params(mfn)
    ck.need(len(mps) >= 3, f"{mq}: signature changed (anchor vanished)")
    se2 = ShapeEngine(repo)
    r = se2.analyse(mfn, mfn._module, mq, {mps[0]: ("B", "F"), mps[1]: ("B", "F"), mps[2]: ("B",)})
    _shape_obligations(ck, se2, "R5-post-terminal-mask", mq, mfn._module, mfn, "documented shapes (B,F),(B,F),(B,)")
    if r is None or (isinstance(r, tuple) and any(d_ is None for d_ in r)):
        raise AnalysisError(f"{mq}: the shape of the result was not inferred (unrecognised form)")
    ck.ob("R5-post-terminal-mask", mq, "scalar-result", r == (), f"result shape {r}", "" if r == () else "masked loss must reduce to a scalar", loc(mfn._module, mfn))


def _shape_obligations(ck, se, rule, site, mi, fn, what):
    if not se.alarms:
        ck.ob(rule, site, "shapes", True, f"no shape alarm ({what}; {len(se.trace)} expressions typed)", "", loc(mi, fn))
    for (rel, line, kind, text, qual) in se.alarms:
        ck.ob(rule, site, f"shape:{kind}:{qual.rsplit('.', 1)[-1]}", False, f"{kind} in {qual}", text, f"{rel}:{line}")


def r6_env_index(ck, repo, nf):
    q = "rl_blox.algorithm.ppo.collect_trajectories"
    fn = repo.func(q)
    mi = fn._module
    cfg = nf.cfg_of(fn)
    n_sites = 0
    for n in cfg.nodes:
        if n.ast is None or n.kind != "stmt":
            continue
        for c in ast.walk(n.ast):
            if isinstance(c, ast.Call) and isinstance(c.func, ast.Attribute) and c.func.attr == "set" and isinstance(c.func.value, ast.Subscript) \
                    and isinstance(c.func.value.value, ast.Attribute) and c.func.value.value.attr == "at":
                idx = c.func.value.slice
                if not isinstance(idx, ast.Name):
                    continue
                n_sites += 1
                ds = cfg.defs_of(n.id, idx.id)
                ok, why = True, ""
                for d in ds:
                    if d.kind != "for":
                        continue
                    it = d.value
                    # `for i, x in enumerate(L)`: i is a position in L; L must not be a filtered list
                    if isinstance(it, ast.Call) and isinstance(it.func, ast.Name) and it.func.id == "enumerate" and it.args and d.path == (0,):
                        src = it.args[0]
                        if isinstance(src, ast.Name):
                            sd = cfg.defs_of(d.node, src.id)
                            src = sd[0].value if len(sd) == 1 and sd[0].kind == "assign" else src
                        if isinstance(src, ast.ListComp) and any(g.ifs for g in src.generators):
                            ok, why = False, "the index enumerates a *filtered* list (only finished environments), so it is not the environment's slot: the wrong environment's observation is overwritten"
                    # `for i, ... in L` with L = [(i, ...) for i, ... in enumerate(zip(...)) if f]: fine (index travels with the element)
                ck.ob("R6-env-index", q, f"index:{idx.id}", ok, f"`{short(c, 60)}`", why, loc(mi, c))
    if not n_sites:
        # the substitution of the final observation is written in a way this rule does not read: nothing was checked, nothing is claimed
        raise AnalysisError(f"{q}: no per-environment `.at[i].set(...)` write found (unrecognised form)")
    ck.ob("R6-env-index", q, "sites", True, f"{n_sites} per-environment write(s)", "", loc(mi, fn))


def _unroll_sized_unpacks(fn: ast.FunctionDef) -> bool:
    """`a, b, c = (f(x) for x in rest)` with `rest` the starred target of one unpacking (`head, *rest = value`): the unpacking into three
    names takes exactly three items, so it is `a, b, c = (f(rest[0]), f(rest[1]), f(rest[2]))` (the same reading the helper expander
    gives to a comprehension over a literal tuple).  Rewritten in the parsed tree of this run only."""
    from ..expand import clone, _Rename
    stores = {}
    for n in ast.walk(fn):
        if isinstance(n, ast.Name) and isinstance(n.ctx, (ast.Store, ast.Del)):
            stores[n.id] = stores.get(n.id, 0) + 1
    starred = {n.value.id for n in ast.walk(fn) if isinstance(n, ast.Starred) and isinstance(n.ctx, ast.Store) and isinstance(n.value, ast.Name)}
    changed = False
    for n in ast.walk(fn):
        if not (isinstance(n, ast.Assign) and len(n.targets) == 1 and isinstance(n.targets[0], (ast.Tuple, ast.List)) and all(isinstance(x, ast.Name) for x in n.targets[0].elts)):
            continue
        v = n.value
        if not (isinstance(v, (ast.GeneratorExp, ast.ListComp)) and len(v.generators) == 1):
            continue
        g = v.generators[0]
        if g.ifs or g.is_async or not isinstance(g.target, ast.Name) or not isinstance(g.iter, ast.Name) or g.iter.id not in starred or stores.get(g.iter.id) != 1:
            continue
        if any(isinstance(x, (ast.Lambda, ast.GeneratorExp, ast.ListComp, ast.SetComp, ast.DictComp, ast.NamedExpr)) for x in ast.walk(v.elt)):
            continue
        elts = [_Rename({g.target.id: ast.Subscript(value=ast.Name(id=g.iter.id, ctx=ast.Load()), slice=ast.Constant(value=k_), ctx=ast.Load())}).visit(clone(v.elt)) for k_ in range(len(n.targets[0].elts))]
        n.value = ast.copy_location(ast.Tuple(elts=elts, ctx=ast.Load()), v)
        changed = True
    if changed:
        ast.fix_missing_locations(fn)
        for parent in ast.walk(fn):
            for child in ast.iter_child_nodes(parent):
                child._parent = parent
    return changed


def run(ck, repo: Repo, tier: str):
    for q_ in ("rl_blox.blox.embedding.model_based_encoder.model_based_encoder_loss",):
        if repo.has(q_):
            _unroll_sized_unpacks(repo.func(q_))
    nf = NF(repo, inline_depth=3)
    for group in (r1_gae, r2_nstep, r3_rtg, r4_callsites, r5_shapes, r5_encoder, r6_env_index, r2_call_roles):
        ck.guard(group, ck, repo, nf)


def r2_call_roles(ck, repo, nf):
    # mrq_loss hands the sampled rewards / terminations / gamma to the n-step return (binding by the callee's signature)
    q = "rl_blox.algorithm.mrq.mrq_loss"
    fn = repo.func(q)
    rq = "rl_blox.blox.return_estimates.discounted_n_step_return"
    rfn = repo.func(rq)
    calls = [c for c in ast.walk(fn) if isinstance(c, ast.Call) and isinstance(c.func, (ast.Name, ast.Attribute)) and repo.resolve_expr(fn._module, c.func) == rq]
    if not calls:
        raise AnalysisError(f"{q}: expected one call of discounted_n_step_return, found {len(calls)}")
    cfgq = nf.cfg_of(fn)
    scq = Scope(cfgq, fn._module, {p: Poly.atom(p, {p}, {p}) for p in param_names(fn)}, q)
    gots = []
    for c_ in calls:
        if any(isinstance(a_, ast.Starred) for a_ in c_.args) or any(k_.arg is None for k_ in c_.keywords):
            raise AnalysisError(f"{q}: `{short(c_, 70)}` passes packed arguments (unrecognised form)")
        atq = cfgq.node_of(c_).id
        gots.append({k: (nf.poly(v, scq, atq).canon() if v is not None and not isinstance(v, list) else None) for k, v in bind_call(rfn, c_).items()})
    # the same call written (or, after a helper that reads two fields of its result was expanded in place, repeated) several times is one call
    if any(g_ != gots[0] for g_ in gots[1:]):
        raise AnalysisError(f"{q}: expected one call of discounted_n_step_return, found {len(calls)} with different arguments (unrecognised form)")
    got = gots[0]
    pr = positional_params(rfn)
    pq = positional_params(fn)
    if len(pr) < 3 or len(pq) < 7 or any(got.get(p_) is None for p_ in pr[:3]):
        raise AnalysisError(f"{q}: `{short(calls[0], 70)}` does not pass rewards, terminations and gamma (unrecognised form)")
    BT, GM = pq[5], pq[6]                  # the sampled batch and the discount factor: by position of the recorded signature
    import re
    fields = ["observation", "action", "reward", "next_observation", "terminated", "truncated"]

    def batch_field(txt):
        m_ = re.fullmatch(re.escape(BT) + r"(?:\[(\d)\]|\.(\w+))", txt)
        if not m_:
            return None
        return fields[int(m_.group(1))] if m_.group(1) is not None and int(m_.group(1)) < len(fields) else m_.group(2)
    roles = [batch_field(got[pr[0]]), batch_field(got[pr[1]]), got[pr[2]]]
    ok = roles == ["reward", "terminated", GM]
    if not ok and (roles[0] is None or roles[1] is None or (roles[2] != GM and roles[2] not in pq)):
        raise AnalysisError(f"{q}: discounted_n_step_return({', '.join(f'{k}={v}' for k, v in got.items())}) (unrecognised form)")
    ck.ob("R2-n-step", q, "call-roles", ok, f"discounted_n_step_return({', '.join(f'{k}={v}' for k, v in got.items())})", "" if ok else "the critic target must use the n-step return of the sampled rewards and terminations with the configured gamma", loc(fn._module, calls[0]))


_G, _R, _RE, _E, _A2, _P, _M = "rl_blox/blox/gae.py", "rl_blox/blox/return_estimates.py", "rl_blox/algorithm/reinforce.py", "rl_blox/blox/embedding/model_based_encoder.py", "rl_blox/algorithm/a2c.py", "rl_blox/algorithm/ppo.py", "rl_blox/algorithm/mrq.py"
_NSTEP_LOOP = '    n_step_return = jnp.zeros(reward.shape[0], dtype=jnp.float32)\n    discount = jnp.ones(reward.shape[0], dtype=jnp.float32)\n    for t in range(reward.shape[1]):\n        n_step_return += discount * reward[:, t]\n        discount *= gamma * (1 - terminated[:, t])\n    return n_step_return, discount'
_RTG_LOOP = '    discounted_returns = []\n    accumulated_return = 0.0\n    for r in reversed(rewards):\n        accumulated_return *= gamma\n        accumulated_return += r\n        discounted_returns.append(accumulated_return)\n    return np.array(list(reversed(discounted_returns)))'
MUTANTS = [
    {"id": "c07-nstep-vectorised-argmax-zero-means-none", "file": "rl_blox/blox/return_estimates.py", "rule": "R2", "find": '    n_step_return = jnp.zeros(reward.shape[0], dtype=jnp.float32)\n    discount = jnp.ones(reward.shape[0], dtype=jnp.float32)\n    for t in range(reward.shape[1]):\n        n_step_return += discount * reward[:, t]\n        discount *= gamma * (1 - terminated[:, t])\n    return n_step_return, discount\n', "replace": '    horizon = reward.shape[1]\n    steps = jnp.arange(horizon)\n    hit = jnp.any(terminated > 0, axis=1)\n    first = jnp.argmax(terminated > 0, axis=1)\n    last = jnp.where(first > 0, first, horizon - 1)\n    live = steps[None, :] <= last[:, None]\n    n_step_return = jnp.sum(jnp.where(live, gamma ** steps[None, :] * reward, 0.0), axis=1)\n    discount = jnp.where(hit, 0.0, gamma ** horizon)\n    return n_step_return, discount\n'},
    {"id": "c07-gae-no-cut", "file": _G, "rule": "R1", "find": "        gae = delta + gamma * lmbda * (1 - terminated) * gae", "replace": "        gae = delta + gamma * lmbda * gae"},
    {"id": "c07-gae-delta-no-mask", "file": _G, "rule": "R1", "find": "        delta = reward + gamma * next_value * (1 - terminated) - value", "replace": "        delta = reward + gamma * next_value - value"},
    {"id": "c07-gae-carry-cut", "file": _G, "rule": "R1", "find": "        return gae, gae", "replace": "        return gae * (1 - terminated), gae"},
    {"id": "c07-gae-not-reversed", "file": _G, "rule": "R1", "find": "(rewards[::-1], values[::-1], next_values[::-1], terminateds[::-1])", "replace": "(rewards, values, next_values, terminateds)"},
    {"id": "c07-gae-one-not-reversed", "file": _G, "rule": "R1", "find": "next_values[::-1], terminateds[::-1])", "replace": "next_values[::-1], terminateds)"},
    {"id": "c07-gae-output-not-reversed", "file": _G, "rule": "R1", "find": "    advantages = advantages[::-1]\n", "replace": ""},
    {"id": "c07-gae-returns", "file": _G, "rule": "R1", "find": "    returns = advantages + values", "replace": "    returns = advantages + next_values"},
    {"id": "c07-nstep-order", "file": _R, "rule": "R2", "find": "        n_step_return += discount * reward[:, t]\n        discount *= gamma * (1 - terminated[:, t])", "replace": "        discount *= gamma * (1 - terminated[:, t])\n        n_step_return += discount * reward[:, t]"},
    {"id": "c07-nstep-no-cut", "file": _R, "rule": "R2", "find": "        discount *= gamma * (1 - terminated[:, t])", "replace": "        discount *= gamma"},
    {"id": "c07-nstep-range", "file": _R, "rule": "R2", "find": "    for t in range(reward.shape[1]):", "replace": "    for t in range(reward.shape[1] - 1):"},
    {"id": "c07-nstep-init", "file": _R, "rule": "R2", "find": "    discount = jnp.ones(reward.shape[0], dtype=jnp.float32)", "replace": "    discount = gamma * jnp.ones(reward.shape[0], dtype=jnp.float32)"},
    {"id": "c07-rtg-order", "file": _RE, "rule": "R3", "find": "        accumulated_return *= gamma\n        accumulated_return += r\n        discounted_returns.append(accumulated_return)", "replace": "        discounted_returns.append(accumulated_return)\n        accumulated_return *= gamma\n        accumulated_return += r"},
    {"id": "c07-rtg-forward", "file": _RE, "rule": "R3", "find": "    for r in reversed(rewards):", "replace": "    for r in rewards:"},
    {"id": "c07-rtg-discount-reward", "file": _RE, "rule": "R3", "find": "        accumulated_return *= gamma\n        accumulated_return += r\n", "replace": "        accumulated_return += r\n        accumulated_return *= gamma\n"},
    {"id": "c07-a2c-no-vmap", "file": _A2, "rule": "R4", "find": "    gae_result = jax.vmap(get_gae_for_env, in_axes=(1, 1, 1, 1))(\n        rewards, values, all_next_values, terminations\n    )", "replace": "    gae_result = get_gae_for_env(\n        rewards.T.reshape(-1), values.T.reshape(-1), all_next_values.T.reshape(-1), terminations.T.reshape(-1)\n    )"},
    {"id": "c07-a2c-axis0", "file": _A2, "rule": "R4", "find": "in_axes=(1, 1, 1, 1)", "replace": "in_axes=(0, 0, 0, 0)"},
    {"id": "c07-a2c-next-values-unshifted", "file": _A2, "rule": "R4", "find": "    all_next_values = jnp.concatenate([values[1:], bootstrap_expanded], axis=0)", "replace": "    all_next_values = jnp.concatenate([values[:-1], bootstrap_expanded], axis=0)"},
    {"id": "c07-a2c-truncations-as-terminations", "file": _A2, "rule": "R4", "find": "    terminations = jnp.asarray(rollout_buffer.buffer[\"terminations\"])", "replace": "    terminations = jnp.asarray(rollout_buffer.buffer[\"truncations\"])"},
    {"id": "c07-enc-mask-before-use", "file": _E, "rule": "R5", "find": "        pred_zs_t, prev_not_done = zs_t_and_prev_not_done\n", "replace": "        pred_zs_t, prev_not_done = zs_t_and_prev_not_done\n        prev_not_done = not_done[:, t] * prev_not_done\n"},
    {"id": "c07-enc-reward-unmasked", "file": _E, "rule": "R5", "find": "            )\n            * prev_not_done\n        )", "replace": "            )\n        )"},
    {"id": "c07-enc-mask-not-cumulative", "file": _E, "rule": "R5", "find": "        prev_not_done = not_done[:, t] * prev_not_done\n", "replace": "        prev_not_done = not_done[:, t]\n"},
    {"id": "c07-enc-done-rank1", "file": _E, "rule": "R5", "find": "                pred_done_t[:, jnp.newaxis],\n                target_done_t[:, jnp.newaxis],", "replace": "                pred_done_t,\n                target_done_t,"},
    {"id": "c07-enc-truncated-mask", "file": _E, "rule": "R5", "find": "    not_done = 1 - batch.terminated", "replace": "    not_done = 1 - batch.truncated"},
    {"id": "c07-masked-mse-no-newaxis", "file": "rl_blox/blox/losses.py", "rule": "R5", "find": "        * mask[:, jnp.newaxis]\n", "replace": "        * mask[jnp.newaxis]\n"},
    {"id": "c07-gae-init-one", "file": _G, "rule": "R1", "find": "        calc_advantage_per_step,\n        0.0,\n", "replace": "        calc_advantage_per_step,\n        1.0,\n"},
    {"id": "c07-nstep-init-shape", "file": _R, "rule": "R2", "find": "    n_step_return = jnp.zeros(reward.shape[0], dtype=jnp.float32)", "replace": "    n_step_return = jnp.zeros(reward.shape[1], dtype=jnp.float32)"},
    {"id": "c07-nstep-while-start1", "file": _R, "rule": "R2", "find": "    for t in range(reward.shape[1]):\n        n_step_return += discount * reward[:, t]\n        discount *= gamma * (1 - terminated[:, t])\n", "replace": "    t = 1\n    while t < reward.shape[1]:\n        n_step_return += discount * reward[:, t]\n        discount *= gamma * (1 - terminated[:, t])\n        t += 1\n"},
    {"id": "c07-mrq-truncated-as-terminated", "file": _M, "rule": "R2", "find": "    observation, action, reward, next_observation, terminated, _ = batch\n", "replace": "    observation, action, reward, next_observation, _, terminated = batch\n"},
    {"id": "c07-rtg-result-not-reversed", "file": _RE, "rule": "R3", "find": "    return np.array(list(reversed(discounted_returns)))", "replace": "    return np.array(discounted_returns)"},
    {"id": "c07-rtg-init", "file": _RE, "rule": "R3", "find": "    accumulated_return = 0.0\n", "replace": "    accumulated_return = 1.0\n"},
    {"id": "c07-rtg-concatenated-episodes", "file": _RE, "rule": "R4", "find": "        returns = jnp.hstack(\n            [discounted_reward_to_go(R, gamma) for R in self._rewards()]\n        )", "replace": "        returns = jnp.asarray(discounted_reward_to_go(np.concatenate(self._rewards()), gamma))"},
    {"id": "c07-rtg-rewards-flat", "file": _RE, "rule": "R4", "find": "            rewards.append([r for _, _, _, r in episode])", "replace": "            rewards.extend([r for _, _, _, r in episode])"},
    {"id": "c07-a2c-gamma-lambda-swapped", "file": _A2, "rule": "R4", "find": "compute_gae(rewards, vals, next_val, terms, gamma, lmbda)", "replace": "compute_gae(rewards, vals, next_val, terms, lmbda, gamma)"},
    {"id": "c07-a2c-values-flat", "file": _A2, "rule": "R4", "find": "    values = values.reshape(T, N)\n", "replace": ""},
    {"id": "c07-a2c-forwarding-duplicate", "file": _A2, "rule": "R4", "find": "compute_gae(rewards, vals, next_val, terms, gamma, lmbda)", "replace": "compute_gae(rewards, vals, vals, terms, gamma, lmbda)"},
    {"id": "c07-a2c-forwarding-swapped", "file": _A2, "rule": "R4", "find": "compute_gae(rewards, vals, next_val, terms, gamma, lmbda)", "replace": "compute_gae(rewards, next_val, vals, terms, gamma, lmbda)"},
    {"id": "c07-enc-initial-mask-zeros", "file": _E, "rule": "R5", "find": "    prev_not_done = jnp.ones_like(not_done[:, 0])", "replace": "    prev_not_done = jnp.zeros_like(not_done[:, 0])"},
    {"id": "c07-enc-mask-arg-fresh-ones", "file": _E, "rule": "R5", "find": "        dynamics_loss = masked_mse_loss(pred_zs_t, target_zs_t, prev_not_done)", "replace": "        dynamics_loss = masked_mse_loss(pred_zs_t, target_zs_t, jnp.ones(pred_zs_t.shape[0]))"},
    {"id": "c07-enc-weights-swapped", "file": _E, "rule": "R5", "find": "        dynamics_weight * dynamics_loss\n        + reward_weight * reward_loss\n", "replace": "        dynamics_weight * reward_loss\n        + reward_weight * dynamics_loss\n"},
    {"id": "c07-ppo-filtered-index", "file": _P, "rule": "R6", "edits": [
        ("                (i, r, l, o)\n                for i, (r, l, o, f) in enumerate(\n                    zip(\n                        info[\"episode\"][\"r\"],\n                        info[\"episode\"][\"l\"],\n                        info[\"final_obs\"],\n                        info[\"_episode\"],\n                        strict=True,\n                    )\n                )\n                if f\n            ]\n            for i, r, l, o in finished_reward_len_obs:",
         "                (r, l, o)\n                for r, l, o, f in zip(\n                    info[\"episode\"][\"r\"],\n                    info[\"episode\"][\"l\"],\n                    info[\"final_obs\"],\n                    info[\"_episode\"],\n                    strict=True,\n                )\n                if f\n            ]\n            for i, (r, l, o) in enumerate(finished_reward_len_obs):")]},
    # forms read since the triage of the third seed batch: a factor computed before the loop, counting loops, helpers that hold a nested
    # definition (read where they stand), further per-step flag inputs of the GAE (flag worlds), loop-free code evaluated for small lengths
    {"id": "c07-nstep-hoisted-flag-not-inverted", "file": _R, "rule": "R2", "find": "    for t in range(reward.shape[1]):\n        n_step_return += discount * reward[:, t]\n        discount *= gamma * (1 - terminated[:, t])\n",
     "replace": "    shrink = gamma * terminated\n    for t in range(reward.shape[1]):\n        n_step_return += discount * reward[:, t]\n        discount *= shrink[:, t]\n"},
    {"id": "c07-rtg-while-forward", "file": _RE, "rule": "R3",
     "edits": [("    for r in reversed(rewards):\n        accumulated_return *= gamma\n        accumulated_return += r\n        discounted_returns.append(accumulated_return)\n",
                "    k = 0\n    while k < len(rewards):\n        accumulated_return = gamma * accumulated_return + rewards[k]\n        discounted_returns.append(accumulated_return)\n        k += 1\n")]},
    {"id": "c07-rtg-while-skips-first-step", "file": _RE, "rule": "R3",
     "edits": [("    for r in reversed(rewards):\n        accumulated_return *= gamma\n        accumulated_return += r\n        discounted_returns.append(accumulated_return)\n",
                "    k = len(rewards) - 1\n    while k > 0:\n        accumulated_return = gamma * accumulated_return + rewards[k]\n        discounted_returns.append(accumulated_return)\n        k -= 1\n")]},
    {"id": "c07-a2c-helper-axis0", "file": _A2, "rule": "R4",
     "edits": [("    def get_gae_for_env(rewards, vals, next_val, terms):\n        return compute_gae(rewards, vals, next_val, terms, gamma, lmbda)\n\n    gae_result = jax.vmap(get_gae_for_env, in_axes=(1, 1, 1, 1))(\n        rewards, values, all_next_values, terminations\n    )\n",
                "    gae_result = _advantages_of_each_env(gamma, lmbda, terminations, rewards, values, all_next_values)\n"),
               ("def a2c_policy_gradient(", "def _advantages_of_each_env(discount, trace, dones, rews, vals, succ_vals):\n    def one_env(r, v, nv, d):\n        return compute_gae(r, v, nv, d, discount, trace)\n\n    return jax.vmap(one_env, in_axes=(0, 0, 0, 0))(rews, vals, succ_vals, dones)\n\n\ndef a2c_policy_gradient(")]},
    {"id": "c07-enc-helper-mask-not-cumulative", "file": _E, "rule": "R5",
     "edits": [("    pred_zs_t = encoder.encode_zs(batch.observation[:, 0])\n    not_done = 1 - batch.terminated\n",
                "    parts = _roll_out_losses(batch, encoder, next_zs, the_bins, environment_terminates, encoder_horizon)\n    dynamics_loss = jnp.sum(parts[0])\n    reward_loss = jnp.sum(parts[1])\n    done_loss = jnp.sum(parts[2])\n    reward_mse = jnp.sum(parts[3])\n    total_loss = dynamics_weight * dynamics_loss + reward_weight * reward_loss + done_weight * done_loss\n    return total_loss, (dynamics_loss, reward_loss, done_loss, reward_mse)\n\n\n"
                "def _roll_out_losses(batch, encoder, next_zs, the_bins, environment_terminates, encoder_horizon):\n    pred_zs_t = encoder.encode_zs(batch.observation[:, 0])\n    not_done = 1 - batch.terminated\n"),
               ("        prev_not_done = not_done[:, t] * prev_not_done\n", "        prev_not_done = not_done[:, t]\n"),
               ("    dynamics_loss = jnp.sum(dynamics_loss)\n    reward_loss = jnp.sum(reward_loss)\n    done_loss = jnp.sum(done_loss)\n    reward_mse = jnp.sum(reward_mse)\n\n    total_loss = (\n        dynamics_weight * dynamics_loss\n        + reward_weight * reward_loss\n        + done_weight * done_loss\n    )\n\n    return total_loss, (dynamics_loss, reward_loss, done_loss, reward_mse)",
                "    return dynamics_loss, reward_loss, done_loss, reward_mse")]},
    {"id": "c07-gae-sum-of-two-flags", "file": _G, "rule": "R1",
     "edits": [("    lmbda: float = 0.95,\n)", "    lmbda: float = 0.95,\n    timeouts: jnp.ndarray | None = None,\n)"),
               ("    def calc_advantage_per_step(carry, inputs):\n        gae = carry\n        reward, value, next_value, terminated = inputs\n", "    if timeouts is None:\n        timeouts = jnp.zeros_like(terminateds)\n    episode_over = timeouts + terminateds\n\n    def calc_advantage_per_step(carry, inputs):\n        gae = carry\n        reward, value, next_value, terminated, over = inputs\n"),
               ("        gae = delta + gamma * lmbda * (1 - terminated) * gae", "        gae = delta + gamma * lmbda * (1 - over) * gae"),
               ("(rewards[::-1], values[::-1], next_values[::-1], terminateds[::-1])", "(rewards[::-1], values[::-1], next_values[::-1], terminateds[::-1], episode_over[::-1])"),
               ("@jax.jit\ndef compute_gae(", "def gae_of_rollout(rollout_buffer, values, next_values, gamma, lmbda):\n    return compute_gae(rollout_buffer.buffer[\"rewards\"], values, next_values, rollout_buffer.buffer[\"terminations\"], gamma, lmbda, rollout_buffer.buffer[\"truncations\"])\n\n\n@jax.jit\ndef compute_gae(")]},
    {"id": "c07-nstep-vectorised-discounts-own-reward", "file": _R, "rule": "R2", "find": _NSTEP_LOOP,
     "replace": "    keep = gamma * (1 - terminated)\n    running = jnp.cumprod(keep, axis=1)\n    n_step_return = jnp.sum(running * reward, axis=1)\n    return n_step_return, running[:, -1]"},
    {"id": "c07-nstep-vectorised-last-flag-dropped", "file": _R, "rule": "R2", "find": _NSTEP_LOOP,
     "replace": "    keep = gamma * (1 - terminated)\n    before = jnp.cumprod(jnp.concatenate([jnp.ones_like(keep[:, :1]), keep[:, :-1]], axis=1), axis=1)\n    n_step_return = (before * reward).sum(axis=1)\n    return n_step_return, gamma * before[:, -1]"},
    {"id": "c07-rtg-vectorised-divides-by-discount", "file": _RE, "rule": "R3", "find": _RTG_LOOP,
     "replace": "    steps = np.arange(len(rewards))\n    weights = np.power(gamma, steps)\n    tail_sums = np.flip(np.cumsum(np.flip(np.asarray(rewards) * weights)))\n    return tail_sums / weights"},
    {"id": "c07-rtg-vectorised-forward-cumsum", "file": _RE, "rule": "R3", "find": _RTG_LOOP,
     "replace": "    weights = gamma ** np.arange(len(rewards))\n    return np.cumsum(np.asarray(rewards) * weights)"},
    {"id": "c07-enc-mask-hoisted-previous-step-only", "file": _E, "rule": "R5",
     "edits": [("    prev_not_done = jnp.ones_like(not_done[:, 0])\n", "    mask_per_step = jnp.hstack([jnp.ones_like(not_done[:, :1]), not_done[:, :-1]])\n"),
               ("        zs_t_and_prev_not_done,\n        encoder,", "        pred_zs_t,\n        encoder,"),
               ("        pred_zs_t, prev_not_done = zs_t_and_prev_not_done\n", "        prev_not_done = not_done[:, t]\n"),
               ("        # Update termination mask\n        prev_not_done = not_done[:, t] * prev_not_done\n", ""),
               ("            (pred_zs_t, prev_not_done),\n            dynamics_loss,", "            pred_zs_t,\n            dynamics_loss,"),
               ("        (pred_zs_t, prev_not_done),\n        encoder,\n        the_bins,\n        batch,\n        next_zs,\n        not_done,", "        pred_zs_t,\n        encoder,\n        the_bins,\n        batch,\n        next_zs,\n        mask_per_step,")]},
    {"id": "c07-enc-mask-hoisted-includes-own-step", "file": _E, "rule": "R5",
     "edits": [("    prev_not_done = jnp.ones_like(not_done[:, 0])\n", "    mask_per_step = jnp.cumprod(not_done, axis=1)\n"),
               ("        zs_t_and_prev_not_done,\n        encoder,", "        pred_zs_t,\n        encoder,"),
               ("        pred_zs_t, prev_not_done = zs_t_and_prev_not_done\n", "        prev_not_done = not_done[:, t]\n"),
               ("        # Update termination mask\n        prev_not_done = not_done[:, t] * prev_not_done\n", ""),
               ("            (pred_zs_t, prev_not_done),\n            dynamics_loss,", "            pred_zs_t,\n            dynamics_loss,"),
               ("        (pred_zs_t, prev_not_done),\n        encoder,\n        the_bins,\n        batch,\n        next_zs,\n        not_done,", "        pred_zs_t,\n        encoder,\n        the_bins,\n        batch,\n        next_zs,\n        mask_per_step,")]},
    # --- round 2: forms read anew (while-True counting loop and record result of the n-step return; slots filled by index in the reward-to-go; compute_gae handed to vmap itself)
    {"id": "c07-nstep-while-true-leaves-last-step", "file": _R, "rule": "R2", "find": _NSTEP_LOOP,
     "replace": "    n_step_return = jnp.zeros(reward.shape[0], dtype=jnp.float32)\n    discount = jnp.ones(reward.shape[0], dtype=jnp.float32)\n    k = 0\n    while True:\n        if k >= reward.shape[1] - 1:\n            break\n        n_step_return += discount * reward[:, k]\n        discount *= gamma * (1 - terminated[:, k])\n        k += 1\n    return n_step_return, discount"},
    {"id": "c07-nstep-record-return-uses-new-discount", "file": _R, "rule": "R2",
     "edits": [("import jax.numpy as jnp\n", "from typing import NamedTuple\n\nimport jax.numpy as jnp\n\n\nclass TruncatedReturn(NamedTuple):\n    value: jnp.ndarray\n    bootstrap_discount: jnp.ndarray\n"),
               ("        n_step_return += discount * reward[:, t]\n        discount *= gamma * (1 - terminated[:, t])\n    return n_step_return, discount", "        discount *= gamma * (1 - terminated[:, t])\n        n_step_return += discount * reward[:, t]\n    return TruncatedReturn(value=n_step_return, bootstrap_discount=discount)")]},
    {"id": "c07-rtg-slots-accumulated-forwards", "file": _RE, "rule": "R3", "find": _RTG_LOOP,
     "replace": "    out = [0.0] * len(rewards)\n    running = 0.0\n    i = 0\n    while i < len(rewards):\n        running = gamma * running + rewards[i]\n        out[i] = running\n        i += 1\n    return np.array(out)"},
    {"id": "c07-rtg-slots-turned-round", "file": _RE, "rule": "R3", "find": _RTG_LOOP,
     "replace": "    out = [0.0] * len(rewards)\n    running = 0.0\n    for i in reversed(range(len(rewards))):\n        running = gamma * running + rewards[i]\n        out[i] = running\n    return np.array(out[::-1])"},
    {"id": "c07-rtg-slots-one-too-many", "file": _RE, "rule": "R3", "find": _RTG_LOOP,
     "replace": "    out = np.zeros(len(rewards) + 1)\n    running = 0.0\n    for i in reversed(range(len(rewards))):\n        running = gamma * running + rewards[i]\n        out[i] = running\n    return np.array(out)"},
    {"id": "c07-a2c-direct-vmap-over-time", "file": _A2, "rule": "R4", "find": "    gae_result = jax.vmap(get_gae_for_env, in_axes=(1, 1, 1, 1))(\n        rewards, values, all_next_values, terminations\n    )",
     "replace": "    gae_result = jax.vmap(compute_gae, in_axes=(0, 0, 0, 0, None, None))(\n        rewards, values, all_next_values, terminations, gamma, lmbda\n    )"},
    {"id": "c07-a2c-direct-vmap-lambda-for-gamma", "file": _A2, "rule": "R4", "find": "    gae_result = jax.vmap(get_gae_for_env, in_axes=(1, 1, 1, 1))(\n        rewards, values, all_next_values, terminations\n    )",
     "replace": "    per_env_gae = jax.vmap(compute_gae, in_axes=(1, 1, 1, 1, None, None))\n    gae_result = per_env_gae(rewards, values, all_next_values, terminations, lmbda, gamma)"},
]
BENIGN = [
    {"id": "c07-b-gae-commuted", "file": _G, "find": "        gae = delta + gamma * lmbda * (1 - terminated) * gae", "replace": "        not_done = 1 - terminated\n        gae = delta + lmbda * gamma * gae * not_done"},
    {"id": "c07-b-nstep-explicit", "file": _R, "find": "        n_step_return += discount * reward[:, t]\n        discount *= gamma * (1 - terminated[:, t])", "replace": "        n_step_return = n_step_return + reward[:, t] * discount\n        discount = discount * (1 - terminated[:, t]) * gamma"},
    {"id": "c07-b-rtg-one-line", "file": _RE, "find": "        accumulated_return *= gamma\n        accumulated_return += r\n", "replace": "        accumulated_return = r + gamma * accumulated_return\n"},
    {"id": "c07-b-enc-rename-mask", "file": _E, "all": True, "find": "prev_not_done", "replace": "alive_mask"},
    # the same computations written differently (audit of the rules for false-alarm risk): equivalent spellings of ranges / initial values / reversals,
    # keyword and reordered arguments, locals and module-level constants, a while loop, a NamedTuple carry, renamed parameters of nested functions
    {"id": "c07-b-gae-flip-module-record", "file": _G, "edits": [("@jax.jit\ndef compute_gae(", "GAE = namedtuple(\"GAE\", [\"advantages\", \"returns\"])\n\n\n@jax.jit\ndef compute_gae("),
                                                                ("        calc_advantage_per_step,\n        0.0,\n        (rewards[::-1], values[::-1], next_values[::-1], terminateds[::-1]),\n    )\n    advantages = advantages[::-1]\n",
                                                                 "        f=calc_advantage_per_step,\n        init=0.0,\n        xs=(jnp.flip(rewards, 0), jnp.flip(values, 0), jnp.flip(next_values, 0), jnp.flip(terminateds, 0)),\n    )\n    advantages = jnp.flip(advantages, axis=0)\n"),
                                                                ("    return namedtuple(\"GAE\", [\"advantages\", \"returns\"])(advantages, returns)", "    return GAE(returns=returns, advantages=advantages)")]},
    {"id": "c07-b-nstep-range-forms", "file": _R, "edits": [("    n_step_return = jnp.zeros(reward.shape[0], dtype=jnp.float32)\n    discount = jnp.ones(reward.shape[0], dtype=jnp.float32)\n    for t in range(reward.shape[1]):",
                                                            "    batch_size, horizon = terminated.shape\n    n_step_return = jnp.zeros((batch_size,), dtype=jnp.float32)\n    discount = jnp.full(reward.shape[:1], 1.0, dtype=jnp.float32)\n    for t in range(0, horizon, 1):")]},
    {"id": "c07-b-nstep-while", "file": _R, "find": "    for t in range(reward.shape[1]):\n        n_step_return += discount * reward[:, t]\n        discount *= gamma * (1 - terminated[:, t])\n",
     "replace": "    horizon = reward.shape[1]\n    t = 0\n    while t < horizon:\n        n_step_return = n_step_return + discount * reward[:, t]\n        not_terminated = 1 - terminated[:, t]\n        discount = discount * (gamma * not_terminated)\n        t += 1\n"},
    {"id": "c07-b-mrq-keywords", "file": _M, "find": "        reward, terminated, gamma\n    )", "replace": "        gamma=gamma, terminated=batch[4], reward=batch[2]\n    )"},
    {"id": "c07-b-rtg-locals-and-constant", "file": _RE, "edits": [("def discounted_reward_to_go(rewards: list[float], gamma: float) -> np.ndarray:", "_ZERO_RETURN = 0.0\n\n\ndef discounted_reward_to_go(rewards: list[float], gamma: float) -> np.ndarray:"),
                                                                   ("    accumulated_return = 0.0\n    for r in reversed(rewards):\n", "    accumulated_return = _ZERO_RETURN\n    backwards = list(reversed(rewards))\n    for r in backwards:\n"),
                                                                   ("        discounted_returns.append(accumulated_return)\n    return np.array(list(reversed(discounted_returns)))", "        return_from_here = accumulated_return\n        discounted_returns.append(return_from_here)\n    in_time_order = discounted_returns[::-1]\n    return np.array(in_time_order)")]},
    {"id": "c07-b-rtg-result-flipped-array", "file": _RE, "find": "    return np.array(list(reversed(discounted_returns)))", "replace": "    return np.array(discounted_returns)[::-1]"},
    {"id": "c07-b-rtg-caller-keywords", "file": _RE, "edits": [("            [discounted_reward_to_go(R, gamma) for R in self._rewards()]\n", "            [discounted_reward_to_go(gamma=gamma, rewards=list(R)) for _i, R in enumerate(episode_rewards)]\n"),
                                                               ("        returns = jnp.hstack(\n", "        episode_rewards = self._rewards()\n        returns = jnp.hstack(\n")]},
    {"id": "c07-b-rtg-rewards-inner-list", "file": _RE, "find": "            rewards.append([r for _, _, _, r in episode])", "replace": "            episode_rewards = []\n            episode_rewards.extend(r for _, _, _, r in episode)\n            rewards.append(episode_rewards)"},
    {"id": "c07-b-a2c-vmap-local-scalar-axes", "file": _A2, "edits": [("    gae_result = jax.vmap(get_gae_for_env, in_axes=(1, 1, 1, 1))(\n", "    gae_per_env = jax.vmap(get_gae_for_env, 1)\n    gae_result = gae_per_env(\n"),
                                                                      ("    bootstrap_expanded = jnp.expand_dims(next_values_bootstrap, 0)\n", "    bootstrap_expanded = next_values_bootstrap[None]\n"),
                                                                      ("jnp.concatenate([values[1:], bootstrap_expanded], axis=0)", "jnp.concatenate([values[1:], bootstrap_expanded])"),
                                                                      ("    values = values.reshape(T, N)\n", "    values = jnp.reshape(values, rewards.shape)\n")]},
    {"id": "c07-b-a2c-wrapper-reordered", "file": _A2, "edits": [("def prepare_a2c_batch(", "_ENV_AXIS = 1\n\n\ndef prepare_a2c_batch("),
                                                                 ("    def get_gae_for_env(rewards, vals, next_val, terms):\n        return compute_gae(rewards, vals, next_val, terms, gamma, lmbda)", "    discount = gamma\n    trace_decay = lmbda\n\n    def get_gae_for_env(terms, rewards, vals, next_val):\n        return compute_gae(rewards, vals, terminateds=terms, next_values=next_val, lmbda=trace_decay, gamma=discount)"),
                                                                 ("in_axes=(1, 1, 1, 1)", "in_axes=(_ENV_AXIS,) * 4"),
                                                                 ("        rewards, values, all_next_values, terminations\n    )", "        terminations, rewards, values, all_next_values\n    )")]},
    {"id": "c07-b-enc-body-params-renamed", "file": _E, "edits": [("        not_done,\n        environment_terminates,\n        t,\n    ):", "        alive,\n        environment_terminates,\n        step,\n    ):"),
                                                                  ("            pred_zs_t, batch.action[:, t]\n", "            pred_zs_t, batch.action[:, step]\n"),
                                                                  ("        target_zs_t = next_zs[:, t]\n        target_reward_t = batch.reward[:, t]\n        target_done_t = batch.terminated[:, t]", "        target_zs_t = next_zs[:, step]\n        target_reward_t = batch.reward[:, step]\n        target_done_t = batch.terminated[:, step]"),
                                                                  ("        dynamics_loss = masked_mse_loss(pred_zs_t, target_zs_t, prev_not_done)", "        dynamics_loss = masked_mse_loss(mask=prev_not_done, predictions=pred_zs_t, targets=target_zs_t)"),
                                                                  ("        prev_not_done = not_done[:, t] * prev_not_done\n", "        prev_not_done = alive[:, step] * prev_not_done\n"),
                                                                  ("    prev_not_done = jnp.ones_like(not_done[:, 0])", "    prev_not_done = jnp.ones(not_done.shape[0], dtype=not_done.dtype)")]},
    {"id": "c07-b-enc-carry-namedtuple", "file": _E, "edits": [("from functools import partial\n", "from functools import partial\nfrom typing import NamedTuple\n"),
                                                               ("def model_based_encoder_loss(", "class _RolloutCarry(NamedTuple):\n    pred_zs: jnp.ndarray\n    still_running: jnp.ndarray\n\n\ndef model_based_encoder_loss("),
                                                               ("        pred_zs_t, prev_not_done = zs_t_and_prev_not_done\n", "        pred_zs_t = zs_t_and_prev_not_done.pred_zs\n        prev_not_done = zs_t_and_prev_not_done.still_running\n"),
                                                               ("            (pred_zs_t, prev_not_done),\n            dynamics_loss,", "            _RolloutCarry(pred_zs=pred_zs_t, still_running=prev_not_done),\n            dynamics_loss,"),
                                                               ("        (pred_zs_t, prev_not_done),\n        encoder,", "        _RolloutCarry(pred_zs_t, prev_not_done),\n        encoder,")]},
    {"id": "c07-b-nstep-factor-before-loop", "file": _R, "find": "    for t in range(reward.shape[1]):\n        n_step_return += discount * reward[:, t]\n        discount *= gamma * (1 - terminated[:, t])\n",
     "replace": "    keep = 1 - terminated\n    shrink = keep * gamma\n    steps = reward.shape[1]\n    for t in range(steps):\n        n_step_return += discount * reward[:, t]\n        discount = discount * shrink[:, t]\n"},
    {"id": "c07-b-rtg-while-countdown", "file": _RE,
     "edits": [("    for r in reversed(rewards):\n        accumulated_return *= gamma\n        accumulated_return += r\n        discounted_returns.append(accumulated_return)\n    return np.array(list(reversed(discounted_returns)))",
                "    k = len(rewards) - 1\n    while k >= 0:\n        accumulated_return = rewards[k] + gamma * accumulated_return\n        discounted_returns.append(accumulated_return)\n        k -= 1\n    discounted_returns.reverse()\n    return np.array(discounted_returns)")]},
    {"id": "c07-b-rtg-while-not-equal", "file": _RE,
     "edits": [("    for r in reversed(rewards):\n        accumulated_return *= gamma\n        accumulated_return += r\n        discounted_returns.append(accumulated_return)\n",
                "    left = len(rewards)\n    while left != 0:\n        left = left - 1\n        accumulated_return = rewards[left] + gamma * accumulated_return\n        discounted_returns.append(accumulated_return)\n")]},
    {"id": "c07-b-rtg-reversed-range", "file": _RE,
     "edits": [("    for r in reversed(rewards):\n        accumulated_return *= gamma\n        accumulated_return += r\n", "    for k in reversed(range(len(rewards))):\n        accumulated_return *= gamma\n        accumulated_return += rewards[k]\n")]},
    {"id": "c07-b-rtg-descending-range", "file": _RE,
     "edits": [("    for r in reversed(rewards):\n        accumulated_return *= gamma\n        accumulated_return += r\n", "    for k in range(len(rewards) - 1, -1, -1):\n        accumulated_return = accumulated_return * gamma + rewards[k]\n")]},
    {"id": "c07-b-a2c-gae-helper-with-nested-wrapper", "file": _A2,
     "edits": [("    def get_gae_for_env(rewards, vals, next_val, terms):\n        return compute_gae(rewards, vals, next_val, terms, gamma, lmbda)\n\n    gae_result = jax.vmap(get_gae_for_env, in_axes=(1, 1, 1, 1))(\n        rewards, values, all_next_values, terminations\n    )\n",
                "    gae_result = _advantages_of_each_env(gamma, lmbda, terminations, rewards, values, all_next_values)\n"),
               ("def a2c_policy_gradient(", "def _advantages_of_each_env(discount, trace, dones, rews, vals, succ_vals):\n    def one_env(r, v, nv, d):\n        return compute_gae(r, v, nv, d, discount, trace)\n\n    return jax.vmap(one_env, in_axes=(1, 1, 1, 1))(rews, vals, succ_vals, dones)\n\n\ndef a2c_policy_gradient(")]},
    {"id": "c07-b-enc-roll-out-in-helper", "file": _E,
     "edits": [("    pred_zs_t = encoder.encode_zs(batch.observation[:, 0])\n    not_done = 1 - batch.terminated\n",
                "    parts = _roll_out_losses(batch, encoder, next_zs, the_bins, environment_terminates, encoder_horizon)\n    dynamics_loss = jnp.sum(parts[0])\n    reward_loss = jnp.sum(parts[1])\n    done_loss = jnp.sum(parts[2])\n    reward_mse = jnp.sum(parts[3])\n    total_loss = dynamics_weight * dynamics_loss + reward_weight * reward_loss + done_weight * done_loss\n    return total_loss, (dynamics_loss, reward_loss, done_loss, reward_mse)\n\n\n"
                "def _roll_out_losses(batch, encoder, next_zs, the_bins, environment_terminates, encoder_horizon):\n    pred_zs_t = encoder.encode_zs(batch.observation[:, 0])\n    not_done = 1 - batch.terminated\n"),
               ("    dynamics_loss = jnp.sum(dynamics_loss)\n    reward_loss = jnp.sum(reward_loss)\n    done_loss = jnp.sum(done_loss)\n    reward_mse = jnp.sum(reward_mse)\n\n    total_loss = (\n        dynamics_weight * dynamics_loss\n        + reward_weight * reward_loss\n        + done_weight * done_loss\n    )\n\n    return total_loss, (dynamics_loss, reward_loss, done_loss, reward_mse)",
                "    return dynamics_loss, reward_loss, done_loss, reward_mse")]},
    {"id": "c07-b-enc-starred-unpack-summed", "file": _E,
     "edits": [("    _, dynamics_loss, reward_loss, done_loss, reward_mse = model_rollout(\n", "    _final_carry, *per_step = model_rollout(\n"),
               ("    dynamics_loss = jnp.sum(dynamics_loss)\n    reward_loss = jnp.sum(reward_loss)\n    done_loss = jnp.sum(done_loss)\n    reward_mse = jnp.sum(reward_mse)\n", "    dynamics_loss, reward_loss, done_loss, reward_mse = [jnp.sum(x) for x in per_step]\n")]},
    {"id": "c07-b-gae-optional-flags-never-passed", "file": _G,
     "edits": [("    lmbda: float = 0.95,\n)", "    lmbda: float = 0.95,\n    timeouts: jnp.ndarray | None = None,\n)"),
               ("    def calc_advantage_per_step(carry, inputs):\n        gae = carry\n        reward, value, next_value, terminated = inputs\n", "    if timeouts is None:\n        timeouts = jnp.zeros_like(terminateds)\n    episode_over = timeouts + terminateds\n\n    def calc_advantage_per_step(carry, inputs):\n        gae = carry\n        reward, value, next_value, terminated, over = inputs\n"),
               ("        gae = delta + gamma * lmbda * (1 - terminated) * gae", "        gae = delta + gamma * lmbda * (1 - over) * gae"),
               ("(rewards[::-1], values[::-1], next_values[::-1], terminateds[::-1])", "(rewards[::-1], values[::-1], next_values[::-1], terminateds[::-1], episode_over[::-1])")]},
    {"id": "c07-b-gae-flags-passed-but-recurrence-unchanged", "file": _G,
     "edits": [("    lmbda: float = 0.95,\n)", "    lmbda: float = 0.95,\n    timeouts: jnp.ndarray | None = None,\n)"),
               ("@jax.jit\ndef compute_gae(", "def gae_of_rollout(rollout_buffer, values, next_values, gamma, lmbda):\n    return compute_gae(rollout_buffer.buffer[\"rewards\"], values, next_values, rollout_buffer.buffer[\"terminations\"], gamma, lmbda, rollout_buffer.buffer[\"truncations\"])\n\n\n@jax.jit\ndef compute_gae(")]},
    {"id": "c07-b-rtg-while-truthy-counter", "file": _RE,
     "edits": [("    for r in reversed(rewards):\n        accumulated_return *= gamma\n        accumulated_return += r\n        discounted_returns.append(accumulated_return)\n",
                "    remaining = len(rewards)\n    while remaining:\n        remaining -= 1\n        accumulated_return = accumulated_return * gamma\n        accumulated_return = accumulated_return + rewards[remaining]\n        discounted_returns.append(accumulated_return)\n")]},
    # --- round 2
    {"id": "c07-b-nstep-while-true-record", "file": _R,
     "edits": [("import jax.numpy as jnp\n", "from typing import NamedTuple\n\nimport jax.numpy as jnp\n\n\nclass TruncatedReturn(NamedTuple):\n    value: jnp.ndarray\n    bootstrap_discount: jnp.ndarray\n"),
               ("    for t in range(reward.shape[1]):\n        n_step_return += discount * reward[:, t]\n        discount *= gamma * (1 - terminated[:, t])\n    return n_step_return, discount",
                "    k = 0\n    while True:\n        if k >= reward.shape[-1]:\n            break\n        r_k, alive_k = reward[:, k], 1 - terminated[:, k]\n        n_step_return = n_step_return + discount * r_k\n        discount = discount * gamma * alive_k\n        k = k + 1\n    return TruncatedReturn(n_step_return, discount)")]},
    {"id": "c07-b-rtg-slots-reversed-range", "file": _RE, "find": _RTG_LOOP,
     "replace": "    out = np.empty(len(rewards))\n    running = 0.0\n    for i in reversed(range(len(rewards))):\n        running = gamma * running + rewards[i]\n        out[i] = running\n    return out"},
    {"id": "c07-b-rtg-slots-descending-range", "file": _RE, "find": _RTG_LOOP,
     "replace": "    n = len(rewards)\n    out = n * [0.0]\n    running = 0.0\n    for i in range(n - 1, -1, -1):\n        running *= gamma\n        running += rewards[i]\n        out[i] = running\n    return np.asarray(out)"},
    {"id": "c07-b-rtg-slots-counter-ne-zero", "file": _RE, "find": _RTG_LOOP,
     "replace": "    left = len(rewards)\n    out = [None] * left\n    running = 0.0\n    while left != 0:\n        running = rewards[left - 1] + gamma * running\n        out[left - 1] = running\n        left -= 1\n    return np.array(out)"},
    {"id": "c07-b-a2c-direct-vmap-local", "file": _A2, "find": "    gae_result = jax.vmap(get_gae_for_env, in_axes=(1, 1, 1, 1))(\n        rewards, values, all_next_values, terminations\n    )",
     "replace": "    per_env_gae = jax.vmap(compute_gae, in_axes=(1, 1, 1, 1, None, None))\n    gae_result = per_env_gae(rewards, values, all_next_values, terminations, gamma, lmbda)"},
    {"id": "c07-b-a2c-direct-vmap-module-constant", "file": _A2,
     "edits": [("\n\ndef collect_trajectories(", "\n\nGAE_OVER_ENVS = jax.vmap(compute_gae, (1, 1, 1, 1, None, None))\n\n\ndef collect_trajectories("),
               ("    gae_result = jax.vmap(get_gae_for_env, in_axes=(1, 1, 1, 1))(\n        rewards, values, all_next_values, terminations\n    )", "    gae_result = GAE_OVER_ENVS(rewards, values, all_next_values, terminations, gamma, lmbda)")]},
    {"id": "c07-b-mrq-nstep-called-for-each-part", "file": _M, "find": "    n_step_return, discount = discounted_n_step_return(\n        reward, terminated, gamma\n    )",
     "replace": "    n_step_return = discounted_n_step_return(reward, terminated, gamma)[0]\n    discount = discounted_n_step_return(reward=reward, gamma=gamma, terminated=terminated)[1]"},
]
