"""C07 - return and advantage estimates obey their recurrences and are causal."""
from __future__ import annotations

import ast

from ..cfg import CFG
from ..loops import dotted
from ..nf import NF, Scope, Poly, parse_expr
from ..repo import Repo, loc, short, AnalysisError, positional_params, param_names, bind_call
from ..shapes import ShapeEngine
from ..sem import closure_env
from ..sympath import enumerate_paths, PathEval

EXPLANATION = (
    "The loop / scan bodies of compute_gae, discounted_n_step_return and discounted_reward_to_go are evaluated once, symbolically, "
    "as polynomial normal forms over their carried values and compared with the defining recurrences (identity for all sequences, "
    "gamma, lambda). Reverse-scan symmetry, initial values and loop ranges are structural. Causality across environments: each "
    "compute_gae call is either applied under a vmap over the environment axis to (T, N) data whose successor values are the "
    "time-shifted values plus bootstrap, or receives per-trajectory data; provenance of the arguments is followed through callers "
    "to detect an environment-merging reshape. The MR.Q encoder roll-out is checked for mask discipline (every term weighted by the "
    "carried-in mask, the mask updated after all uses) and, with the symbolic shape engine, for per-sample mask broadcasting at every "
    "masked_mse_loss call site (no (B,)*(B,1) outer product, no reshape used as transpose)."
)
TRUSTED = ["jax.lax.scan / nnx.scan carry-and-stack semantics; jax.vmap in_axes semantics; x[::-1] reverses axis 0", "numpydoc shapes of masked_mse_loss"]
RULES = {
    "R1-gae": "scan body: delta == r + gamma*v'*(1-d) - v, A == delta + gamma*lambda*(1-d)*A_prev (carry == output); inputs all reversed along axis 0, output reversed back; returns == A + v; initial carry 0",
    "R2-n-step": "loop body: G' == G + c*r_t, c' == c*gamma*(1-d_t) with G updated from the old c; G0 = 0, c0 = 1, t over the whole horizon",
    "R3-reward-to-go": "acc' == gamma*acc + r over reversed(rewards), each acc' recorded, result reversed; acc0 = 0",
    "R4-per-trajectory": "compute_gae sees one trajectory at a time: vmapped over the environment axis of (T,N) data with time-shifted successor values, or fed per-trajectory data that passed no environment-merging reshape",
    "R5-post-terminal-mask": "every term of the encoder roll-out is weighted by the mask carried in, the mask is updated after all uses with not_done[:,t]; mask broadcasting is per sample (shape engine)",
    "R6-env-index": "per-environment arrays are indexed by environment indices, not by positions in a filtered list",
}


def _env(fn):
    return {p: Poly.atom(p, {p}, {p}) for p in param_names(fn)}


def _decide(ck, rule, site, key, got: Poly, want: Poly, shown: str, why: str, where, extra=()):
    """Equal -> holds.  Different -> a violation only when the value that was read is built from the documented ingredients (then the
    two normal forms denote different functions); anything else is a form this rule does not read."""
    from ..sem import same_ingredients
    ok = got == want
    if not ok and ("φ(" in got.canon() or "⟦" in got.canon() or not same_ingredients(got, want, extra)):
        raise AnalysisError(f"{site}: {key} is `{got.canon()[:110]}` (unrecognised form)")
    ck.ob(rule, site, key, ok, shown, "" if ok else why, where)
    return ok


def r1_gae(ck, repo, nf):
    """The scan body is evaluated with its per-step input bound to what the scan call really passes: element t of every sequence of
    the xs tuple (element-wise arithmetic on the sequences before the scan commutes with taking the element)."""
    q = "rl_blox.blox.gae.compute_gae"
    fn = repo.func(q)
    mi = fn._module
    ps = param_names(fn)
    ck.need(len(ps) >= 6, f"{q}: signature changed (anchor vanished)")
    PR, PV, PNV, PD, PG, PL = ps[:6]      # roles by position of the public signature
    ocfg = nf.cfg_of(fn)
    oenv = _env(fn)
    osc = Scope(ocfg, mi, oenv, q)
    calls = [(n, c) for n in ocfg.nodes if n.ast is not None and n.kind == "stmt" for c in ast.walk(n.ast) if isinstance(c, ast.Call) and (repo.resolve_expr(mi, c.func) if isinstance(c.func, (ast.Name, ast.Attribute)) else "") in ("jax.lax.scan", "flax.nnx.scan")]
    if len(calls) != 1:
        raise AnalysisError(f"{q}: expected one scan call, found {len(calls)} (unrecognised form)")
    n, c = calls[0]
    b = {"f": None, "init": None, "xs": None}
    for i_, k_ in enumerate(("f", "init", "xs")):
        if len(c.args) > i_:
            b[k_] = c.args[i_]
    for kw in c.keywords:
        if kw.arg in b:
            b[kw.arg] = kw.value
    reverse_kw = next((kw.value for kw in c.keywords if kw.arg == "reverse"), None)
    unknown_kw = [kw.arg for kw in c.keywords if kw.arg not in ("f", "init", "xs", "reverse", "unroll", "length")]
    if unknown_kw or any(v is None for v in b.values()) or not isinstance(b["f"], ast.Name):
        raise AnalysisError(f"{q}: scan call `{short(c, 100)}` (unrecognised form)")
    body = next((x for x in ast.walk(fn) if isinstance(x, ast.FunctionDef) and x is not fn and x.name == b["f"].id), None)
    if body is None:
        raise AnalysisError(f"{q}: scan body `{b['f'].id}` not found (anchor vanished)")
    body._module = mi
    bp = positional_params(body)
    ck.need(len(bp) == 2, f"{q}: scan body must take (carry, inputs)")
    carry, inp = bp
    rev_flag = isinstance(reverse_kw, ast.Constant) and reverse_kw.value is True
    if reverse_kw is not None and not isinstance(reverse_kw, ast.Constant):
        raise AnalysisError(f"{q}: scan(reverse={short(reverse_kw, 30)}) (unrecognised form)")
    # the sequences: each xs element as a polynomial over the four role sequences; `s[::-1]` marks a reversed sequence
    xs = nf.poly(b["xs"], osc, n.id)
    if xs.elems is None:
        raise AnalysisError(f"{q}: scan inputs `{xs.canon()[:80]}` are not a tuple of sequences (unrecognised form)")
    roles = {PR: "R", PV: "V", PNV: "NV", PD: "D"}
    elems, directions = [], set()
    for e_ in xs.elems:
        sub = {}
        for a_ in e_.atoms():
            base = a_[:-6] if a_.endswith("[::-1]") else a_
            if base in roles:
                sub[a_] = Poly.atom(roles[base])
                directions.add("reversed" if a_.endswith("[::-1]") else "forward")
            elif a_ in (PG, PL):
                continue
            else:
                raise AnalysisError(f"{q}: scan input `{e_.canon()[:80]}` is not element-wise arithmetic on the four sequences (unrecognised form)")
        elems.append(e_.subst(sub))
    if len(directions) != 1:
        # some sequences run forwards and some backwards through the same scan: step t of one meets step T-1-t of another
        ck.ob("R1-gae", q, "reverse-scan-inputs", False, f"scan(..., {xs.canon()[:120]})", "the scanned sequences are only partly reversed: the body combines rewards, values and terminations of different time steps", loc(mi, c))
        return
    backwards = (directions == {"reversed"}) != rev_flag       # reversed inputs, or reverse=True on forward inputs - not both
    inp_val = Poly.atom("(" + ", ".join(x.canon() for x in elems) + ")")
    inp_val.elems = elems
    env = {carry: Poly.atom("A_prev"), inp: inp_val, PG: Poly.atom(PG), PL: Poly.atom(PL)}
    for k_, v_ in closure_env(nf, fn, body, mi, {p_: Poly.atom(p_, {p_}, {p_}) for p_ in param_names(fn)}, q).items():
        env.setdefault(k_, v_)
    cfg = nf.cfg_of(body)
    sc = Scope(cfg, mi, env, q + ".<locals>." + body.name)
    rets = [m for m in cfg.nodes if m.kind == "stmt" and isinstance(m.ast, ast.Return)]
    ck.need(len(rets) == 1, f"{q}: scan body has {len(rets)} returns")
    rp = nf.poly(rets[0].ast.value, sc, rets[0].id)
    if rp.elems is None or len(rp.elems) != 2:
        raise AnalysisError(f"{q}: scan body must return (carry, output)")
    want = nf.poly(parse_expr(f"R + {PG} * NV * (1 - D) - V + {PG} * {PL} * (1 - D) * A_prev"), Scope(None, mi, {}, q), None)
    where = loc(mi, body)
    for k, nm in ((0, "carry"), (1, "output")):
        _decide(ck, "R1-gae", q, f"recurrence:{nm}", rp.elems[k], want, f"{nm} = {rp.elems[k].canon()[:150]}", f"differs from delta + gamma*lambda*(1-d)*A_prev by `{(rp.elems[k] - want).canon()[:150]}`", where)
    init = nf.poly(b["init"], osc, n.id)
    ok = backwards and init.is_const() and init.const_value() == 0
    if not ok and not (init.is_const() or backwards is False):
        raise AnalysisError(f"{q}: scan call `{short(c, 100)}` (unrecognised form)")
    ck.ob("R1-gae", q, "reverse-scan-inputs", ok, f"scan({b['f'].id}, {init.canon()[:20]}, {xs.canon()[:100]}{', reverse=True' if rev_flag else ''})",
          "" if ok else "scan must run the body from carry 0 backwards in time over (rewards, values, next_values, terminateds): all sequences reversed (or reverse=True)", loc(mi, c))
    # the result: advantages = stacked outputs in time order, returns = advantages + values
    orets = [m for m in ocfg.nodes if m.kind == "stmt" and isinstance(m.ast, ast.Return)]
    ck.need(len(orets) == 1 and orets[0].ast.value is not None, f"{q}: expected one return")
    rv = nf.poly(orets[0].ast.value, osc, orets[0].id)
    parts = rv.elems
    if parts is None:
        m_ = nf.meta.get(rv.single_atom() or "", {})
        parts = m_.get("args") if len(m_.get("args", [])) == 2 and not m_.get("kws") else ([m_["kws"][k_] for k_ in ("advantages", "returns")] if set(m_.get("kws", {})) == {"advantages", "returns"} else None)
    if parts is None or len(parts) != 2:
        raise AnalysisError(f"{q}: result `{rv.canon()[:80]}` is not a pair (advantages, returns) (unrecognised form)")
    adv, ret = parts
    ac = adv.canon()
    stacked = ac[:-6] if ac.endswith("[::-1]") else ac
    flipped_back = ac.endswith("[::-1]")
    if not ("scan(" in stacked and stacked.endswith("[1]")):
        raise AnalysisError(f"{q}: advantages `{ac[:100]}` are not the stacked scan output (unrecognised form)")
    ok = flipped_back != rev_flag        # reversed inputs need the flip back; reverse=True returns time order already
    ck.ob("R1-gae", q, "output-reversed-back", ok, f"advantages = {ac[:120]}", "" if ok else "the stacked scan output must be in time order: reversed back when the inputs were reversed, as returned with reverse=True", loc(mi, orets[0].ast))
    _decide(ck, "R1-gae", q, "returns", ret, adv + Poly.atom(PV, {PV}, {PV}), f"returns = {ret.canon()[:120]}", "returns must be advantages + values", loc(mi, orets[0].ast), extra=("scan", "jax", "lax"))


def _loop_body_eval(nf, fn, mi, q, loop, env0):
    """Evaluate one iteration of ``loop`` (ast.For) symbolically; returns the PathEval after the body."""
    cfg = nf.cfg_of(fn)
    hdr = cfg.stmt_node[id(loop)]
    paths = enumerate_paths(cfg, hdr, {hdr}, first_label=True)
    if len(paths) != 1:
        raise AnalysisError(f"{q}: loop body has {len(paths)} paths (unrecognised idiom)")
    pe = PathEval(nf, cfg, mi, q, env0)
    pe.run(paths[0][:-1])
    return pe


def r2_nstep(ck, repo, nf):
    q = "rl_blox.blox.return_estimates.discounted_n_step_return"
    fn = repo.func(q)
    mi = fn._module
    loops = [n for n in fn.body if isinstance(n, ast.For)]
    ck.need(len(loops) == 1, f"{q}: expected one loop over the horizon")
    lp = loops[0]
    where = loc(mi, lp)
    env = _env(fn)
    rets = [n for n in ast.walk(fn) if isinstance(n, ast.Return)]
    rv = rets[0].value
    ck.need(isinstance(rv, ast.Tuple) and len(rv.elts) == 2 and all(isinstance(x, ast.Name) for x in rv.elts), f"{q}: must return (n_step_return, discount)")
    G, C = rv.elts[0].id, rv.elts[1].id
    env0 = dict(env)
    env0[G] = Poly.atom("G", {"G"}, {"G"})
    env0[C] = Poly.atom("c", {"c"}, {"c"})
    pe = _loop_body_eval(nf, fn, mi, q, lp, env0)
    t = lp.target.id if isinstance(lp.target, ast.Name) else None
    ck.need(t is not None, f"{q}: loop variable not a name")
    tt = pe.env[t].canon()
    ssc = Scope(None, mi, {**env, "G": env0[G], "c": env0[C], t: pe.env[t]}, q)
    wantG = nf.poly(parse_expr(f"G + c * reward[:, {t}]"), ssc, None)
    wantC = nf.poly(parse_expr(f"c * gamma * (1 - terminated[:, {t}])"), ssc, None)
    _decide(ck, "R2-n-step", q, "return-update", pe.env[G], wantG, f"G' = {pe.env[G].canon()[:120]}", f"expected G + c*r_t (with the discount *before* this step), difference `{(pe.env[G] - wantG).canon()[:120]}`", where, extra=("gamma", "terminated"))
    _decide(ck, "R2-n-step", q, "discount-update", pe.env[C], wantC, f"c' = {pe.env[C].canon()[:120]}", f"expected c*gamma*(1 - d_t), difference `{(pe.env[C] - wantC).canon()[:120]}`", where, extra=("reward",))
    it = ast.unparse(lp.iter)
    itp = nf.poly(lp.iter, Scope(nf.cfg_of(fn), mi, env, q), nf.cfg_of(fn).stmt_node[id(lp)])
    _decide(ck, "R2-n-step", q, "horizon-range", itp, nf.poly(parse_expr("range(reward.shape[1])"), Scope(None, mi, env, q), None), f"for {t} in {it}", "the loop must cover every step of the sub-trajectory exactly once, in order", where, extra=("terminated",))
    cfg = nf.cfg_of(fn)
    hdr = cfg.stmt_node[id(lp)]
    sc = Scope(cfg, mi, env, q)
    inits = {}
    for nm in (G, C):
        ds = [d for d in cfg.defs_of(hdr, nm) if d.node != hdr and not (set(cfg.enclosing_loops(d.node)) & {hdr})]
        if len(ds) != 1 or ds[0].kind != "assign":
            raise AnalysisError(f"{q}: initial value of `{nm}` is not a single assignment before the loop (unrecognised form)")
        inits[nm] = nf.poly(ds[0].value, sc, ds[0].node)
    sc_w = Scope(None, mi, env, q)
    shown = f"G0 = {inits[G].canon()[:50]}, c0 = {inits[C].canon()[:50]}"

    def _is(pv, fname):
        m_ = nf.meta.get(pv.single_atom() or "", {})
        a0 = m_.get("args", [None])[0] if m_.get("args") else m_.get("kws", {}).get("shape")
        return m_.get("fn", "").split(".")[-1] == fname and a0 is not None and a0.canon() in ("reward.shape[0]", "(reward.shape[0])")
    ok = _is(inits[G], "zeros") and _is(inits[C], "ones")
    if not ok:
        from ..sem import same_ingredients
        ref = nf.poly(parse_expr("jnp.zeros(reward.shape[0], dtype=jnp.float32) + jnp.ones(reward.shape[0], dtype=jnp.float32)"), sc_w, None)
        if not all(same_ingredients(inits[x_], ref, ("gamma", "terminated", "full", "zeros_like", "ones_like")) for x_ in (G, C)):
            raise AnalysisError(f"{q}: initial values {shown} (unrecognised form)")
        # zeros_like / full spellings of the right constants are not read as violations
        if any(t_ in inits[x_].canon() for x_ in (G, C) for t_ in ("full(", "zeros_like(", "ones_like(")):
            raise AnalysisError(f"{q}: initial values {shown} (unrecognised form)")
    ck.ob("R2-n-step", q, "initial-values", ok, shown, "" if ok else "G must start at 0 and the discount at 1, one entry per sub-trajectory", loc(mi, fn))


def r3_rtg(ck, repo, nf):
    q = "rl_blox.algorithm.reinforce.discounted_reward_to_go"
    fn = repo.func(q)
    mi = fn._module
    loops = [n for n in fn.body if isinstance(n, ast.For)]
    ck.need(len(loops) == 1, f"{q}: expected one loop (anchor / idiom changed)")
    lp = loops[0]
    where = loc(mi, lp)
    env = _env(fn)
    # accumulator: the value appended in the loop
    apps = [c for c in ast.walk(lp) if isinstance(c, ast.Call) and isinstance(c.func, ast.Attribute) and c.func.attr == "append"]
    ck.need(len(apps) == 1 and isinstance(apps[0].args[0], ast.Name), f"{q}: expected one append of the accumulator")
    acc, lst = apps[0].args[0].id, dotted(apps[0].func.value)
    env0 = dict(env)
    env0[acc] = Poly.atom("acc", {"acc"}, {"acc"})
    pe = _loop_body_eval(nf, fn, mi, q, lp, env0)
    r = lp.target.id
    want = nf.poly(parse_expr(f"gamma * acc + {r}"), Scope(None, mi, {**env, "acc": env0[acc], r: pe.env[r]}, q), None)
    _decide(ck, "R3-reward-to-go", q, "recurrence", pe.env[acc], want, f"acc' = {pe.env[acc].canon()[:100]}", f"expected gamma*acc + r, difference `{(pe.env[acc] - want).canon()[:100]}`", where)
    appended = [v for (nid, tgt, v) in pe.log if tgt == "<expr>" and ".append(" in v.canon()]
    ok = len(appended) == 1 and appended[0].canon() == f"{lst}.append({want.canon()})"
    ck.ob("R3-reward-to-go", q, "records-updated-value", ok, f"{appended[0].canon()[:100] if appended else None}", "" if ok else "each step must record the accumulator after adding that step's reward", where)
    RW = positional_params(fn)[0]
    ittxt = ast.unparse(lp.iter)
    ok = ittxt in (f"reversed({RW})", f"{RW}[::-1]", f"reversed(list({RW}))", f"list(reversed({RW}))")
    if not ok and ittxt != RW:
        raise AnalysisError(f"{q}: the loop iterates over `{ittxt[:50]}` (unrecognised form)")
    ck.ob("R3-reward-to-go", q, "backward-iteration", ok, f"for {r} in {ittxt}", "" if ok else "the accumulation must run backwards over the rewards", where)
    rets = [n for n in ast.walk(fn) if isinstance(n, ast.Return)]
    txt = ast.unparse(rets[0].value)
    # the recorded list is brought back into time order: reversed(lst) / lst[::-1] in the result, or lst.reverse() in place after the loop
    inplace = [c for c in ast.walk(fn) if isinstance(c, ast.Call) and isinstance(c.func, ast.Attribute) and c.func.attr == "reverse" and dotted(c.func.value) == lst and not c.args
               and getattr(c, "lineno", 0) > getattr(lp, "end_lineno", 0)]
    n_rev = txt.count(f"reversed({lst})") + txt.count(f"{lst}[::-1]") + len(inplace)
    mentions = [x for x in ast.walk(rets[0].value) if isinstance(x, ast.Name) and x.id == lst]
    if not mentions:
        raise AnalysisError(f"{q}: the result `{txt[:60]}` does not mention the recorded list `{lst}` (unrecognised form)")
    other_calls = [dotted(c.func) for c in ast.walk(rets[0].value) if isinstance(c, ast.Call) and dotted(c.func) not in ("reversed", "list", "tuple", "np.array", "np.asarray", "jnp.array", "jnp.asarray", "np.hstack", "jnp.hstack", "np.stack", "jnp.stack")]
    if other_calls or n_rev > 1:
        raise AnalysisError(f"{q}: the result `{txt[:60]}` (unrecognised form)")
    ok = n_rev == 1
    ck.ob("R3-reward-to-go", q, "result-reversed", ok, f"return {txt}" + (f" after {lst}.reverse()" if inplace else ""), "" if ok else "the recorded values must be reversed back into time order", loc(mi, rets[0]))
    cfg = nf.cfg_of(fn)
    hdr = cfg.stmt_node[id(lp)]
    ds = [d for d in cfg.defs_of(hdr, acc) if hdr not in cfg.enclosing_loops(d.node)]
    ok = len(ds) == 1 and isinstance(ds[0].value, ast.Constant) and ds[0].value.value == 0
    ck.ob("R3-reward-to-go", q, "initial-value", ok, f"{acc}0 = {ast.unparse(ds[0].value) if ds else None}", "" if ok else "the accumulator must start at 0", loc(mi, fn))
    # every episode is processed separately by the caller
    cq = "rl_blox.algorithm.reinforce.EpisodeDataset.prepare_policy_gradient_dataset"
    m = repo.method("rl_blox.algorithm.reinforce.EpisodeDataset", "prepare_policy_gradient_dataset")
    ck.need(m is not None, f"{cq} not found")
    calls = [c for c in ast.walk(m[1]) if isinstance(c, ast.Call) and dotted(c.func) == "discounted_reward_to_go"]
    if len(calls) != 1:
        raise AnalysisError(f"{cq}: expected one discounted_reward_to_go call, found {len(calls)}")
    par = getattr(calls[0], "_parent", None)
    # the call is applied element-wise to a collection of per-episode reward lists: comprehension or loop over `self._rewards()` (or a
    # local holding it); applying it once to everything concatenated would accumulate across episode boundaries
    per_episode = None
    it_src = None
    if isinstance(par, (ast.ListComp, ast.GeneratorExp)) and len(par.generators) == 1:
        it_src = par.generators[0].iter
        per_episode = isinstance(par.generators[0].target, ast.Name) and dotted(calls[0].args[0]) == par.generators[0].target.id
    else:
        anc = par
        while anc is not None and not isinstance(anc, (ast.For, ast.FunctionDef)):
            anc = getattr(anc, "_parent", None)
        if isinstance(anc, ast.For) and isinstance(anc.target, ast.Name) and dotted(calls[0].args[0]) == anc.target.id:
            it_src, per_episode = anc.iter, True
    if per_episode is None:
        a0 = calls[0].args[0] if calls[0].args else None
        if isinstance(a0, ast.Call) and "concatenate" in (dotted(a0.func) or "") or (isinstance(a0, ast.Call) and dotted(a0.func) in ("sum", "itertools.chain", "chain")):
            per_episode = False
        else:
            raise AnalysisError(f"{cq}: application of discounted_reward_to_go `{short(calls[0], 70)}` not recognised")
    src_txt = ast.unparse(it_src) if it_src is not None else ""
    if per_episode and it_src is not None and isinstance(it_src, ast.Name):
        mcfg = nf.cfg_of(m[1])
        ds = mcfg.defs_of(mcfg.node_of(calls[0]).id, it_src.id)
        if len(ds) == 1 and ds[0].value is not None:
            src_txt = ast.unparse(ds[0].value)
    ok = bool(per_episode) and "self._rewards()" in src_txt
    if per_episode and "self._rewards()" not in src_txt and "episode" not in src_txt:
        raise AnalysisError(f"{cq}: reward-to-go is computed over `{src_txt[:60]}` (unrecognised idiom)")
    ck.ob("R4-per-trajectory", cq, "per-episode-returns", ok, f"{short(par) if par is not None else None}", "" if ok else "reward-to-go must be computed per episode (one call per episode's reward list)", loc(m[1]._module, m[1]))
    rw = repo.method("rl_blox.algorithm.reinforce.EpisodeDataset", "_rewards")[1]
    # _rewards returns one inner list per episode: nested comprehension / loop with an inner list; a single comprehension with two
    # generators flattens the episodes
    rets_ = [x for x in ast.walk(rw) if isinstance(x, ast.Return) and x.value is not None]
    grouped = None
    for x in ast.walk(rw):
        if isinstance(x, ast.ListComp):
            if len(x.generators) >= 2 and "episode" in ast.unparse(x.generators[0].iter):
                grouped = False
            elif len(x.generators) == 1 and isinstance(x.elt, (ast.ListComp, ast.List, ast.Call)) and "episodes" in ast.unparse(x.generators[0].iter):
                grouped = True if grouped is None else grouped
        if isinstance(x, ast.Call) and isinstance(x.func, ast.Attribute) and x.func.attr == "append" and x.args and isinstance(x.args[0], (ast.ListComp, ast.List, ast.Name)):
            anc = getattr(x, "_parent", None)
            while anc is not None and not isinstance(anc, (ast.For, ast.FunctionDef)):
                anc = getattr(anc, "_parent", None)
            if isinstance(anc, ast.For) and "episodes" in ast.unparse(anc.iter):
                grouped = True if grouped is None else grouped
        if isinstance(x, ast.Call) and isinstance(x.func, ast.Attribute) and x.func.attr == "extend":
            grouped = False
    if grouped is None:
        raise AnalysisError("rl_blox.algorithm.reinforce.EpisodeDataset._rewards: structure of the returned collection not recognised")
    ck.ob("R4-per-trajectory", cq, "rewards-grouped-by-episode", grouped, f"{short(rets_[0].value, 80) if rets_ else None}", "" if grouped else "_rewards must return one list per episode (a flat list makes the reward-to-go run across episode boundaries)", loc(rw._module, rw))


def r4_callsites(ck, repo, nf):
    gq = "rl_blox.blox.gae.compute_gae"
    sites = []
    for qual, fn, mi in repo.all_functions():
        for c in ast.walk(fn):
            if isinstance(c, ast.Call) and isinstance(c.func, ast.Name) and repo.resolve_name(mi, c.func.id) == gq:
                # innermost function only
                p = getattr(c, "_parent", None)
                while p is not None and not isinstance(p, (ast.FunctionDef, ast.AsyncFunctionDef)):
                    p = getattr(p, "_parent", None)
                if p is fn:
                    sites.append((qual, fn, mi, c))
    ck.floor("compute_gae-call-sites", len(sites), 2)
    for qual, fn, mi, c in sites:
        where = loc(mi, c)
        if "<locals>" in qual:
            # must be applied under vmap over the environment axis
            outer_q = qual.split(".<locals>.")[0]
            ofn = repo.func(outer_q)
            ocfg = nf.cfg_of(ofn)
            osc = Scope(ocfg, mi, _env(ofn), outer_q)
            apps = [(n, x) for n in ocfg.nodes if n.ast is not None and n.kind == "stmt" for x in ast.walk(n.ast)
                    if isinstance(x, ast.Call) and isinstance(x.func, ast.Call) and dotted(x.func.func) in ("jax.vmap", "nnx.vmap") and x.func.args and dotted(x.func.args[0]) == fn.name]
            ok = len(apps) == 1
            ck.ob("R4-per-trajectory", outer_q, "vmapped-per-environment", ok, f"{short(apps[0][1].func) if apps else None}", "" if ok else f"{fn.name} (which calls compute_gae) must be applied with jax.vmap over the environment axis", where)
            if not ok:
                continue
            n, app = apps[0]
            kw = {k.arg: k.value for k in app.func.keywords}
            axes = ast.literal_eval(kw["in_axes"]) if "in_axes" in kw else None
            ok = axes == (1, 1, 1, 1)
            ck.ob("R4-per-trajectory", outer_q, "vmap-axis", ok, f"in_axes={axes}", "" if ok else "all four arguments must be mapped over axis 1 (the environment axis of (T, N) arrays)", loc(mi, app))
            # inner call forwards its parameters in order
            ip = positional_params(fn)
            gfn = repo.func(gq)
            gps = positional_params(gfn)
            if any(isinstance(a_, ast.Starred) for a_ in c.args) or any(k_.arg is None for k_ in c.keywords) or len(gps) < 6 or len(ip) < 4:
                raise AnalysisError(f"{outer_q}: `{short(c, 70)}` passes packed arguments (unrecognised form)")
            bnd = bind_call(gfn, c)         # by the signature of compute_gae: positional or keyword
            fwd = [dotted(bnd.get(p_)) if bnd.get(p_) is not None else None for p_ in gps[:4]]
            if any(f_ is None for f_ in fwd):
                raise AnalysisError(f"{outer_q}: `{short(c, 70)}` does not pass plain variables for the four sequences (unrecognised form)")
            ok = fwd == ip[:4]
            if not ok and set(fwd) != set(ip[:4]):
                raise AnalysisError(f"{outer_q}: `{short(c, 70)}` forwards {fwd}, which are not the wrapper's four parameters (unrecognised form)")
            ck.ob("R4-per-trajectory", outer_q, "forwarding", ok, f"compute_gae({', '.join(f'{p_}={f_}' for p_, f_ in zip(gps[:4], fwd))})", "" if ok else "rewards, values, next values and terminations must be forwarded in that order", where)
            g = [dotted(bnd.get(p_)) if bnd.get(p_) is not None else None for p_ in gps[4:6]]
            outer_params = param_names(repo.func(outer_q))
            if any(x_ is None for x_ in g):
                raise AnalysisError(f"{outer_q}: `{short(c, 70)}` does not pass plain variables for gamma / lambda (unrecognised form)")
            # the discount and lambda of the routine: parameters of the enclosing routine, in their roles
            want_g = [x_ for x_ in outer_params if x_ in g]
            ok = len(set(g)) == 2 and all(x_ in outer_params for x_ in g) and (g == want_g or [outer_params.index(x_) for x_ in g] == sorted(outer_params.index(x_) for x_ in g))
            ck.ob("R4-per-trajectory", outer_q, "gamma-lambda", ok, f"gamma <- {g[0]}, lmbda <- {g[1]}", "" if ok else "gamma and lambda must be passed in their roles (not swapped, not the same value twice)", where)
            # arguments of the vmapped call
            names = ["rewards", "values", "next values", "terminations"]
            vals = [nf.poly(a, osc, n.id).canon() for a in app.args]
            want = ["rollout_buffer.buffer['rewards']", "reshape(value_function(reshape(rollout_buffer.buffer['obs'], -1, *rollout_buffer.buffer['obs'].shape[2:])), rollout_buffer.buffer['obs'].shape[:2][0], rollout_buffer.buffer['obs'].shape[:2][1])", None, "rollout_buffer.buffer['terminations']"]
            ok = len(vals) == 4 and vals[0] == want[0] and vals[3] == want[3]
            ck.ob("R4-per-trajectory", outer_q, "reward-termination-roles", ok, f"rewards <- {vals[0][:50]}, terminations <- {vals[3][:50] if len(vals) > 3 else None}",
                  "" if ok else "the vmapped GAE must receive the buffer's rewards and terminations", loc(mi, app))
            # values un-merged to (T, N) and successor values = values shifted by one step + bootstrap of the last observation
            v, nv = vals[1], vals[2]
            # structural reading: reshape(value_function(<obs with the two leading axes merged>), T, N) with (T, N) the leading axes of the observations
            vp = nf.poly(app.args[1], osc, n.id) if len(app.args) > 1 else None
            mv = nf.meta.get(vp.single_atom() or "", {}) if vp is not None else {}
            ok = False
            if mv.get("fn", "").split(".")[-1] == "reshape" and len(mv.get("args", [])) >= 2:
                inner, dims = mv["args"][0], mv["args"][1:]
                if len(dims) == 1 and dims[0].elems is not None:
                    dims = dims[0].elems
                dtx = [d_.canon() for d_ in dims]
                ok = inner.canon().startswith("value_function(") and len(dtx) == 2 and dtx[0].endswith(".shape[0]") and dtx[1].endswith(".shape[1]") and dtx[0][:-3] == dtx[1][:-3]
            elif vp is not None and not v.startswith("value_function("):
                raise AnalysisError(f"{outer_q}: values passed to the per-environment GAE `{v[:100]}` (unrecognised form)")
            ck.ob("R4-per-trajectory", outer_q, "values-unmerged", ok, f"values = {v[:110]}", "" if ok else "values computed on the flattened batch must be reshaped back to (T, N) before the per-environment GAE", loc(mi, app))
            ok = nv.startswith("concatenate((") and "[1:]" in nv and "expand_dims(value_function(last_observation), 0)" in nv and "axis=0" in nv
            ck.ob("R4-per-trajectory", outer_q, "successor-values-shifted", ok, f"next_values = {nv[:150]}", "" if ok else "successor values must be values[1:] followed by the bootstrap value of the last observation along time", loc(mi, app))
        else:
            # direct call on rollout data: provenance through the callers must not contain an environment-merging reshape
            merged = _merged_provenance(repo, nf, qual, fn, mi, c)
            ok = not merged
            ck.ob("R4-per-trajectory", qual, "no-merged-env-axis", ok, f"`{short(c, 80)}`",
                  "" if ok else f"the arguments are the environment-major *flattened* rollout ({merged}): the reverse scan runs across environment boundaries, so an "
                                "environment's advantages depend on the next environment's rewards", where)


def _merged_provenance(repo, nf, qual, fn, mi, call):
    """Follow parameter arguments of a compute_gae call to the callers; report a reshape(-1, ...) on the way."""
    params = set(param_names(fn))
    names = [a.id for a in call.args if isinstance(a, ast.Name) and a.id in params]
    if not names:
        return ""
    # callers of `fn`
    for cq, cfn, cmi in repo.all_functions():
        for c in ast.walk(cfn):
            if isinstance(c, ast.Call) and isinstance(c.func, ast.Name) and repo.resolve_name(cmi, c.func.id) == qual:
                b = bind_call(fn, c)
                ccfg = nf.cfg_of(cfn)
                try:
                    at = ccfg.node_of(c).id
                except KeyError:
                    continue
                for nm in names:
                    a = b.get(nm)
                    if not isinstance(a, ast.Name):
                        continue
                    for d in ccfg.defs_of(at, a.id):
                        if d.kind == "unpack" and isinstance(d.value, ast.Call) and isinstance(d.value.func, ast.Name):
                            pq = repo.resolve_name(cmi, d.value.func.id)
                            if pq and repo.has(pq):
                                pfn = repo.func(pq)
                                # element of the producer's result tuple
                                for r in ast.walk(pfn):
                                    if isinstance(r, ast.Return) and isinstance(r.value, ast.Call) and d.path and isinstance(d.path[0], int) and d.path[0] < len(r.value.args):
                                        el = r.value.args[d.path[0]]
                                        for x in ast.walk(el):
                                            if isinstance(x, ast.Call) and isinstance(x.func, ast.Name):
                                                for nd in ast.walk(pfn):
                                                    if isinstance(nd, ast.FunctionDef) and nd.name == x.func.id:
                                                        for y in ast.walk(nd):
                                                            if isinstance(y, ast.Call) and isinstance(y.func, ast.Attribute) and y.func.attr == "reshape" and y.args and ast.unparse(y.args[0]) == "-1":
                                                                return f"{pq.rsplit('.', 1)[1]}.{nd.name}: {short(y, 60)}"
                                            if isinstance(x, ast.Call) and isinstance(x.func, ast.Attribute) and x.func.attr == "reshape" and x.args and ast.unparse(x.args[0]) == "-1":
                                                return f"{pq.rsplit('.', 1)[1]}: {short(x, 60)}"
    return ""


def r5_encoder(ck, repo, nf):
    q = "rl_blox.blox.embedding.model_based_encoder.model_based_encoder_loss"
    fn = repo.func(q)
    mi = fn._module
    body = next((n for n in ast.walk(fn) if isinstance(n, ast.FunctionDef) and n is not fn), None)
    ck.need(body is not None, f"{q}: roll-out body not found (anchor vanished)")
    body._module = mi
    where = loc(mi, body)
    cfg = nf.cfg_of(body)
    bp = positional_params(body)
    env = {p: Poly.atom(p, {p}, {p}) for p in bp}
    nf2 = NF(repo, no_inline={"rl_blox.blox.losses.masked_mse_loss", "rl_blox.blox.preprocessing.two_hot_cross_entropy_loss", "rl_blox.blox.preprocessing.two_hot_decoding"})
    sc = Scope(nf2.cfg_of(body), mi, env, q + ".<locals>." + body.name)
    rets = [n for n in sc.cfg.nodes if n.kind == "stmt" and isinstance(n.ast, ast.Return)]
    ck.need(len(rets) == 1, f"{q}: roll-out body has {len(rets)} returns")
    rp = nf2.poly(rets[0].ast.value, sc, rets[0].id)
    ck.need(rp.elems is not None and len(rp.elems) == 5 and rp.elems[0].elems is not None, f"{q}: roll-out body must return ((zs, mask), dyn, rew, done, rew_mse)")
    carry_in = f"{bp[0]}[1]"
    mask_out = rp.elems[0].elems[1]
    want = nf2.poly(parse_expr(f"not_done[:, t] * {bp[0]}[1]"), Scope(None, mi, env, q), None)
    ok = mask_out == want
    ck.ob("R5-post-terminal-mask", q, "mask-update", ok, f"mask' = {mask_out.canon()[:90]}", "" if ok else "the carried mask must become not_done[:, t] * mask (cumulative: nothing after the first terminated step counts)", where)
    names = ["dynamics", "reward", "done", "reward_mse"]
    for k, nm in enumerate(names, start=1):
        txt = rp.elems[k].canon()
        uses_in = carry_in in txt
        uses_out = want.canon() in txt or f"not_done[:, t]*{carry_in}" in txt
        ok = uses_in and not uses_out
        ck.ob("R5-post-terminal-mask", q, f"term-masked:{nm}", ok, f"{nm} = {txt[:130]}",
              "" if ok else ("the term is not weighted by the termination mask: steps after a terminated step still contribute" if not uses_in else "the term uses the mask *after* it was updated with this step's termination flag"), where)
    # masked_mse_loss receives the mask as third argument
    for c in ast.walk(body):
        if isinstance(c, ast.Call) and dotted(c.func) == "masked_mse_loss":
            at = sc.cfg.node_of(c).id
            b = bind_call(repo.func("rl_blox.blox.losses.masked_mse_loss"), c)
            m = nf2.poly(b["mask"], sc, at).canon() if "mask" in b else None
            ok = m == carry_in
            ck.ob("R5-post-terminal-mask", q, f"mask-arg:{short(b.get('predictions'), 30) if b.get('predictions') is not None else '?'}", ok, f"mask <- {m}", "" if ok else "masked_mse_loss must receive the carried-in termination mask", loc(mi, c))
    # the initial mask is all ones and the initial latent state is the encoding of the first observation
    ocfg = nf.cfg_of(fn)
    osc = Scope(ocfg, mi, _env(fn), q)
    apps = [(n, c) for n in ocfg.nodes if n.ast is not None and n.kind == "stmt" for c in ast.walk(n.ast) if isinstance(c, ast.Call) and dotted(c.func) == body.name]
    ck.need(len(apps) == 1, f"{q}: roll-out call not found")
    n, app = apps[0]
    init = nf.poly(app.args[0], osc, n.id)
    ok = init.elems is not None and len(init.elems) == 2 and init.elems[1].canon().startswith("ones_like(") and "encode_zs(batch.observation[:, 0])" in init.elems[0].canon().replace("batch[0]", "batch.observation")
    ck.ob("R5-post-terminal-mask", q, "initial-carry", ok, f"({init.canon()[:130]}", "" if ok else "roll-out must start from encode_zs(observation[:, 0]) with an all-ones mask", loc(mi, app))
    nd = nf.poly(app.args[5], osc, n.id).canon() if len(app.args) > 5 else ""
    ok = nd in ("1 - batch.terminated", "1 - batch[4]")
    ck.ob("R5-post-terminal-mask", q, "not-done-definition", ok, f"not_done = {nd}", "" if ok else "not_done must be 1 - terminated (truncation does not cut the learning signal)", loc(mi, app))
    tot = nf.return_poly(q, _env(fn))
    if tot.elems is not None:
        t0 = tot.elems[0]
        ok = len(t0.terms) == 3 and all(w in t0.canon() for w in ("dynamics_weight", "reward_weight", "done_weight")) and all(c == 1 for c in t0.terms.values())
        ck.ob("R5-post-terminal-mask", q, "weighted-sum", ok, f"total = {t0.canon()[:150]}", "" if ok else "total loss must be w_dyn*sum(dyn) + w_rew*sum(rew) + w_done*sum(done)", where)


def r5_shapes(ck, repo, nf):
    """Per-sample mask broadcasting and axis discipline in the encoder loss, independent of how the roll-out is organised."""
    q = "rl_blox.blox.embedding.model_based_encoder.model_based_encoder_loss"
    fn = repo.func(q)
    mi = fn._module
    se = ShapeEngine(repo)
    H = "$encoder_horizon"
    senv = {"batch.observation": ("B", H, "O"), "batch.action": ("B", H, "A"), "batch.reward": ("B", H), "batch.next_observation": ("B", H, "O"), "batch.terminated": ("B", H),
            "batch.truncated": ("B", H), "the_bins": ("K",)}
    se.module_out = {"encoder.encode_zs": "Z", "encoder_target.encode_zs": "Z", "encoder_target.zs": "Z"}
    se.analyse(fn, mi, q, senv)
    _shape_obligations(ck, se, "R5-post-terminal-mask", q, mi, fn, f"symbolic shapes with batch fields (B,{H},..), bins (K,)")
    # masked_mse_loss itself under its documented shapes
    mq = "rl_blox.blox.losses.masked_mse_loss"
    mfn = repo.func(mq)
    se2 = ShapeEngine(repo)
    r = se2.analyse(mfn, mfn._module, mq, {"predictions": ("B", "F"), "targets": ("B", "F"), "mask": ("B",)})
    _shape_obligations(ck, se2, "R5-post-terminal-mask", mq, mfn._module, mfn, "documented shapes (B,F),(B,F),(B,)")
    ck.ob("R5-post-terminal-mask", mq, "scalar-result", r == (), f"result shape {r}", "" if r == () else "masked loss must reduce to a scalar", loc(mfn._module, mfn))


def _shape_obligations(ck, se, rule, site, mi, fn, what):
    if not se.alarms:
        ck.ob(rule, site, "shapes", True, f"no shape alarm ({what}; {len(se.trace)} expressions typed)", "", loc(mi, fn))
    for (rel, line, kind, text, qual) in se.alarms:
        ck.ob(rule, site, f"shape:{kind}:{qual.rsplit('.', 1)[-1]}", False, f"{kind} in {qual}", text, f"{rel}:{line}")


def r6_env_index(ck, repo, nf):
    q = "rl_blox.algorithm.ppo.collect_trajectories"
    fn = repo.func(q)
    mi = fn._module
    cfg = nf.cfg_of(fn)
    n_sites = 0
    for n in cfg.nodes:
        if n.ast is None or n.kind != "stmt":
            continue
        for c in ast.walk(n.ast):
            if isinstance(c, ast.Call) and isinstance(c.func, ast.Attribute) and c.func.attr == "set" and isinstance(c.func.value, ast.Subscript) \
                    and isinstance(c.func.value.value, ast.Attribute) and c.func.value.value.attr == "at":
                idx = c.func.value.slice
                if not isinstance(idx, ast.Name):
                    continue
                n_sites += 1
                ds = cfg.defs_of(n.id, idx.id)
                ok, why = True, ""
                for d in ds:
                    if d.kind != "for":
                        continue
                    it = d.value
                    # `for i, x in enumerate(L)`: i is a position in L; L must not be a filtered list
                    if isinstance(it, ast.Call) and dotted(it.func) == "enumerate" and d.path == (0,):
                        src = it.args[0]
                        if isinstance(src, ast.Name):
                            sd = cfg.defs_of(d.node, src.id)
                            src = sd[0].value if len(sd) == 1 and sd[0].kind == "assign" else src
                        if isinstance(src, ast.ListComp) and any(g.ifs for g in src.generators):
                            ok, why = False, "the index enumerates a *filtered* list (only finished environments), so it is not the environment's slot: the wrong environment's observation is overwritten"
                    # `for i, ... in L` with L = [(i, ...) for i, ... in enumerate(zip(...)) if f]: fine (index travels with the element)
                ck.ob("R6-env-index", q, f"index:{idx.id}", ok, f"`{short(c, 60)}`", why, loc(mi, c))
    ck.ob("R6-env-index", q, "sites", n_sites >= 1, f"{n_sites} per-environment write(s)", "" if n_sites else "final-observation substitution not found (anchor vanished)", loc(mi, fn))


def run(ck, repo: Repo, tier: str):
    nf = NF(repo, inline_depth=3)
    for group in (r1_gae, r2_nstep, r3_rtg, r4_callsites, r5_shapes, r5_encoder, r6_env_index):
        ck.guard(group, ck, repo, nf)
    # mrq_loss hands the sampled rewards / terminations / gamma to the n-step return (binding by the callee's signature)
    q = "rl_blox.algorithm.mrq.mrq_loss"
    fn = repo.func(q)
    rq = "rl_blox.blox.return_estimates.discounted_n_step_return"
    rfn = repo.func(rq)
    calls = [c for c in ast.walk(fn) if isinstance(c, ast.Call) and isinstance(c.func, (ast.Name, ast.Attribute)) and repo.resolve_expr(fn._module, c.func) == rq]
    if len(calls) != 1:
        raise AnalysisError(f"{q}: expected one call of discounted_n_step_return, found {len(calls)}")
    b = bind_call(rfn, calls[0])
    cfgq = nf.cfg_of(fn)
    scq = Scope(cfgq, fn._module, {p: Poly.atom(p, {p}, {p}) for p in param_names(fn)}, q)
    atq = cfgq.node_of(calls[0]).id
    got = {k: (nf.poly(v, scq, atq).canon() if v is not None and not isinstance(v, list) else None) for k, v in b.items()}
    pr = positional_params(rfn)
    ok = len(pr) >= 3 and got.get(pr[0]) in ("reward", "batch.reward", "batch[2]") and got.get(pr[1]) in ("terminated", "batch.terminated", "batch[4]") and got.get(pr[2]) == "gamma"
    ck.ob("R2-n-step", q, "call-roles", ok, f"discounted_n_step_return({', '.join(f'{k}={v}' for k, v in got.items())})", "" if ok else "the critic target must use the n-step return of the sampled rewards and terminations with the configured gamma", loc(fn._module, calls[0]))


_G, _R, _RE, _E, _A2, _P = "rl_blox/blox/gae.py", "rl_blox/blox/return_estimates.py", "rl_blox/algorithm/reinforce.py", "rl_blox/blox/embedding/model_based_encoder.py", "rl_blox/algorithm/a2c.py", "rl_blox/algorithm/ppo.py"
MUTANTS = [
    {"id": "c07-gae-no-cut", "file": _G, "rule": "R1", "find": "        gae = delta + gamma * lmbda * (1 - terminated) * gae", "replace": "        gae = delta + gamma * lmbda * gae"},
    {"id": "c07-gae-delta-no-mask", "file": _G, "rule": "R1", "find": "        delta = reward + gamma * next_value * (1 - terminated) - value", "replace": "        delta = reward + gamma * next_value - value"},
    {"id": "c07-gae-carry-cut", "file": _G, "rule": "R1", "find": "        return gae, gae", "replace": "        return gae * (1 - terminated), gae"},
    {"id": "c07-gae-not-reversed", "file": _G, "rule": "R1", "find": "(rewards[::-1], values[::-1], next_values[::-1], terminateds[::-1])", "replace": "(rewards, values, next_values, terminateds)"},
    {"id": "c07-gae-one-not-reversed", "file": _G, "rule": "R1", "find": "next_values[::-1], terminateds[::-1])", "replace": "next_values[::-1], terminateds)"},
    {"id": "c07-gae-output-not-reversed", "file": _G, "rule": "R1", "find": "    advantages = advantages[::-1]\n", "replace": ""},
    {"id": "c07-gae-returns", "file": _G, "rule": "R1", "find": "    returns = advantages + values", "replace": "    returns = advantages + next_values"},
    {"id": "c07-nstep-order", "file": _R, "rule": "R2", "find": "        n_step_return += discount * reward[:, t]\n        discount *= gamma * (1 - terminated[:, t])", "replace": "        discount *= gamma * (1 - terminated[:, t])\n        n_step_return += discount * reward[:, t]"},
    {"id": "c07-nstep-no-cut", "file": _R, "rule": "R2", "find": "        discount *= gamma * (1 - terminated[:, t])", "replace": "        discount *= gamma"},
    {"id": "c07-nstep-range", "file": _R, "rule": "R2", "find": "    for t in range(reward.shape[1]):", "replace": "    for t in range(reward.shape[1] - 1):"},
    {"id": "c07-nstep-init", "file": _R, "rule": "R2", "find": "    discount = jnp.ones(reward.shape[0], dtype=jnp.float32)", "replace": "    discount = gamma * jnp.ones(reward.shape[0], dtype=jnp.float32)"},
    {"id": "c07-rtg-order", "file": _RE, "rule": "R3", "find": "        accumulated_return *= gamma\n        accumulated_return += r\n        discounted_returns.append(accumulated_return)", "replace": "        discounted_returns.append(accumulated_return)\n        accumulated_return *= gamma\n        accumulated_return += r"},
    {"id": "c07-rtg-forward", "file": _RE, "rule": "R3", "find": "    for r in reversed(rewards):", "replace": "    for r in rewards:"},
    {"id": "c07-rtg-discount-reward", "file": _RE, "rule": "R3", "find": "        accumulated_return *= gamma\n        accumulated_return += r\n", "replace": "        accumulated_return += r\n        accumulated_return *= gamma\n"},
    {"id": "c07-a2c-no-vmap", "file": _A2, "rule": "R4", "find": "    gae_result = jax.vmap(get_gae_for_env, in_axes=(1, 1, 1, 1))(\n        rewards, values, all_next_values, terminations\n    )", "replace": "    gae_result = get_gae_for_env(\n        rewards.T.reshape(-1), values.T.reshape(-1), all_next_values.T.reshape(-1), terminations.T.reshape(-1)\n    )"},
    {"id": "c07-a2c-axis0", "file": _A2, "rule": "R4", "find": "in_axes=(1, 1, 1, 1)", "replace": "in_axes=(0, 0, 0, 0)"},
    {"id": "c07-a2c-next-values-unshifted", "file": _A2, "rule": "R4", "find": "    all_next_values = jnp.concatenate([values[1:], bootstrap_expanded], axis=0)", "replace": "    all_next_values = jnp.concatenate([values[:-1], bootstrap_expanded], axis=0)"},
    {"id": "c07-a2c-truncations-as-terminations", "file": _A2, "rule": "R4", "find": "    terminations = jnp.asarray(rollout_buffer.buffer[\"terminations\"])", "replace": "    terminations = jnp.asarray(rollout_buffer.buffer[\"truncations\"])"},
    {"id": "c07-enc-mask-before-use", "file": _E, "rule": "R5", "find": "        pred_zs_t, prev_not_done = zs_t_and_prev_not_done\n", "replace": "        pred_zs_t, prev_not_done = zs_t_and_prev_not_done\n        prev_not_done = not_done[:, t] * prev_not_done\n"},
    {"id": "c07-enc-reward-unmasked", "file": _E, "rule": "R5", "find": "            )\n            * prev_not_done\n        )", "replace": "            )\n        )"},
    {"id": "c07-enc-mask-not-cumulative", "file": _E, "rule": "R5", "find": "        prev_not_done = not_done[:, t] * prev_not_done\n", "replace": "        prev_not_done = not_done[:, t]\n"},
    {"id": "c07-enc-done-rank1", "file": _E, "rule": "R5", "find": "                pred_done_t[:, jnp.newaxis],\n                target_done_t[:, jnp.newaxis],", "replace": "                pred_done_t,\n                target_done_t,"},
    {"id": "c07-enc-truncated-mask", "file": _E, "rule": "R5", "find": "    not_done = 1 - batch.terminated", "replace": "    not_done = 1 - batch.truncated"},
    {"id": "c07-masked-mse-no-newaxis", "file": "rl_blox/blox/losses.py", "rule": "R5", "find": "        * mask[:, jnp.newaxis]\n", "replace": "        * mask[jnp.newaxis]\n"},
    {"id": "c07-ppo-filtered-index", "file": _P, "rule": "R6", "edits": [
        ("                (i, r, l, o)\n                for i, (r, l, o, f) in enumerate(\n                    zip(\n                        info[\"episode\"][\"r\"],\n                        info[\"episode\"][\"l\"],\n                        info[\"final_obs\"],\n                        info[\"_episode\"],\n                        strict=True,\n                    )\n                )\n                if f\n            ]\n            for i, r, l, o in finished_reward_len_obs:",
         "                (r, l, o)\n                for r, l, o, f in zip(\n                    info[\"episode\"][\"r\"],\n                    info[\"episode\"][\"l\"],\n                    info[\"final_obs\"],\n                    info[\"_episode\"],\n                    strict=True,\n                )\n                if f\n            ]\n            for i, (r, l, o) in enumerate(finished_reward_len_obs):")]},
]
BENIGN = [
    {"id": "c07-b-gae-commuted", "file": _G, "find": "        gae = delta + gamma * lmbda * (1 - terminated) * gae", "replace": "        not_done = 1 - terminated\n        gae = delta + lmbda * gamma * gae * not_done"},
    {"id": "c07-b-nstep-explicit", "file": _R, "find": "        n_step_return += discount * reward[:, t]\n        discount *= gamma * (1 - terminated[:, t])", "replace": "        n_step_return = n_step_return + reward[:, t] * discount\n        discount = discount * (1 - terminated[:, t]) * gamma"},
    {"id": "c07-b-rtg-one-line", "file": _RE, "find": "        accumulated_return *= gamma\n        accumulated_return += r\n", "replace": "        accumulated_return = r + gamma * accumulated_return\n"},
    {"id": "c07-b-enc-rename-mask", "file": _E, "all": True, "find": "prev_not_done", "replace": "alive_mask"},
]
