"""C18 - numeric building blocks: Huber, two-hot cross-entropy, AvgL1 norm, linear schedule, masked loss (structural clauses)."""
from __future__ import annotations

import ast
import re
from fractions import Fraction

from ..nf import NF, Scope, Poly, parse_expr
from ..sem import same_ingredients, OrderModel, Unknown
from ..repo import Repo, loc, AnalysisError, param_names
from ..shapes import ShapeEngine

EXPLANATION = (
    "Five of the six clauses are formula identities. Huber: with q = min(e, delta) the returned polynomial is case-split by substituting "
    "q := e (inside) and q := delta (outside); both branches are polynomial identities 0.5*e^2 resp. delta*(e - 0.5*delta), valid for all real "
    "e >= 0 and delta. Cross-entropy == -sum(two_hot(target) * log_softmax(logits), -1); decoding == sum(p * bins, -1); AvgL1 == "
    "x / max(mean|x| over the last axis (kept), eps); schedule: length total_timesteps, constant tail `end`, linspace(start, end, n) prefix "
    "with n = int(total*fraction); masked loss under its documented shapes (shape engine). Two-hot encoding: the weight algebra (lower "
    "weight 1-w, upper weight w, w = (x-lower)/(upper-lower), upper index = lower index + 1 clipped) is checked - rows then sum to one and "
    "decode to x by construction; the masked-argmin lower-edge search over float differences is NOT decided. Parameters are taken by "
    "position of the recorded signature (their names are free). A formula that is not literally a documented spelling is read piece by piece "
    "(factor, reduction, axis, keepdims, reduced quantity): a violation needs a piece with positive evidence of a difference (another constant "
    "axis, another reduction, the documented ingredients combined differently, a constant index offset other than one, independent left / right "
    "edge searches); an unread piece or an unknown building block makes the clause undecided."
)
TRUSTED = ["jnp.minimum / log_softmax / linspace semantics", "min(e, delta) equals e or delta (case split is exhaustive)"]
RULES = {
    "R1-huber": "huber_loss(e, d) == 0.5*e^2 where min(e,d) = e and == d*(e - 0.5*d) where min(e,d) = d",
    "R2-cross-entropy": "two_hot_cross_entropy_loss == -sum(two_hot_encoding(bins, target) * log_softmax(logits, -1), -1); two_hot_decoding == sum(p*bins, -1)",
    "R3-avg-l1": "avg_l1_norm(x) == x / maximum(mean(|x|, axis=-1, keepdims=True), eps)",
    "R4-schedule": "length total_timesteps; schedule == ones(total)*end with [:int(total*fraction)] = linspace(start, end, int(total*fraction))",
    "R5-masked-loss": "masked_mse_loss == mean(sq(P - T) * mask[:, None]) with per-sample broadcasting under the documented shapes",
    "R6-two-hot-weights": "two_hot rows: weight 1-w at the lower index and w at lower+1 (clipped to the last bin), w = (x - bins[lo]) / (bins[up] - bins[lo])",
}


def _env(repo, nf, fn):
    """Parameters as atoms.  A parameter that the specialise pass reads at its constant default (an option added - or renamed - after the
    reference signatures were recorded; its occurrences in the body are already replaced) is bound to that constant, so that the documented
    formula is stated for the same reading of the function."""
    env = {p: Poly.atom(p, {p}, {p}) for p in param_names(fn)}
    for qq, p, d in getattr(repo, "specialised", None) or []:
        try:
            same = repo.lookup(qq)[1] is fn
        except Exception:
            same = False
        if same and p in env:
            v = nf.poly(parse_expr(d), Scope(None, fn._module), None)
            if v.is_const():
                env[p] = v
    return env


_TMP = re.compile(r"__i\d+\b")


def _opaque(*ps) -> bool:
    """The value contains something the engine did not read: a merge of definitions, an opaque construct, an expander temporary."""
    return any("φ(" in c or "⟦" in c or _TMP.search(c) for c in (p.canon() for p in ps if p is not None))


def _roles(fn, q, k):
    """The first k parameters of the public signature, by position (their names are free)."""
    ps = param_names(fn)
    if len(ps) < k or fn.args.vararg is not None:
        raise AnalysisError(f"{q}: signature changed, {k} leading parameters expected (anchor vanished)")
    return ps[:k]


def _ret(nf, q, env):
    try:
        return nf.return_poly(q, env)
    except ValueError as e:
        raise AnalysisError(f"{q}: {e} (unrecognised form)")


def _lib(nf, op, *args, **kws):
    """Normal form of a library call, built without name resolution (the analysed module need not import the library under a given name)."""
    return nf._libcall(op, list(args), dict(kws), None)


def _sub(p: Poly, idx: str) -> Poly:
    return Poly.atom(f"{p.canon()}[{idx}]", p.deps, p.gdeps)


def _c(v):
    return Poly.const(v)


def _read_reduction(nf, p: Poly):
    """p == c * sum|mean(inner, axis, keepdims)  ->  (c, 'sum'|'mean', inner, axis Poly | None, keepdims Poly | None); anything else -> None."""
    if p is None or len(p.terms) != 1:
        return None
    (mono, c), = p.terms.items()
    if len(mono) != 1 or mono[0][1] != 1:
        return None
    m = nf.meta.get(mono[0][0])
    if not m:
        return None
    fn_ = m.get("fn", "").split(".")[-1]
    args, kws = list(m.get("args", [])), dict(m.get("kws", {}))
    if fn_ not in ("sum", "mean") or not 1 <= len(args) <= 2 or (len(args) == 2 and "axis" in kws):
        return None
    axis = args[1] if len(args) == 2 else kws.pop("axis", None)
    keep = kws.pop("keepdims", None)
    if kws:
        return None
    if axis is not None and axis.canon() == "None":
        axis = None
    return c, fn_, args[0], axis, keep


def _last_axis(axis, rank):
    """True: the reduction runs over the last axis of an array of that rank (None: any rank); False: over something else (a constant that
    names another axis, or no axis at all = over everything); None: not a constant."""
    if axis is None:
        return rank == 1
    v = axis.const_value() if axis.is_const() else None
    if v is None:
        return None
    return v == -1 or (rank is not None and v == rank - 1)


def _flag(v, true_values, false_values):
    """Keyword flag (keepdims): None = absent."""
    key = None if v is None else (v.const_value() if v.is_const() else "?")
    return True if key in true_values else False if key in false_values else None


def _piece(got: Poly, wants, extra=()):
    """True: the value is one of the documented spellings; False: it is built from the documented ingredients but differs; None: unread."""
    if any(got == w for w in wants):
        return True
    if _opaque(got) or not same_ingredients(got, wants[0], extra):
        return None
    return False


def _decide(ck, rule, q, key, got: Poly, wants, pieces, why, where, extra=()):
    """Equal to a documented spelling -> holds.  Otherwise the formula is read piece by piece (`pieces(got)` -> {piece: True | False | None}
    or None when the outer shape is not the documented one): all pieces right -> holds; a piece with positive evidence of a difference and
    no unread piece -> violation; an unread piece -> undecided.  Without a piece-wise reading a difference is a violation only when the value
    is built from the documented ingredients (then the two normal forms denote different functions)."""
    shown = got.canon()[:170]
    if any(got == w for w in wants):
        ck.ob(rule, q, key, True, shown, "", where)
        return True
    if _opaque(got):
        raise AnalysisError(f"{q}: {key} is `{shown[:110]}` (unrecognised form)")
    res = pieces(got) if pieces is not None else None
    if res is None:
        if not same_ingredients(got, wants[0], extra):
            raise AnalysisError(f"{q}: {key} is `{shown[:110]}`: not written with the documented building blocks (unrecognised form)")
        ck.ob(rule, q, key, False, shown, f"{why}; differs from `{wants[0].canon()[:120]}` by {(got - wants[0]).canon()[:120]}", where)
        return False
    unread = sorted(k for k, v in res.items() if v is None)
    bad = sorted(k for k, v in res.items() if v is False)
    if unread:
        raise AnalysisError(f"{q}: {key}: {', '.join(unread)} of `{shown[:110]}` not read (unrecognised form)")
    ck.ob(rule, q, key, not bad, shown, "" if not bad else f"{why}; wrong: {', '.join(bad)} (documented: `{wants[0].canon()[:120]}`)", where)
    return not bad


def run(ck, repo: Repo, tier: str):
    nf = NF(repo, inline_depth=2)
    # independent rule groups: an unread form in one of them does not hide a definite finding of another
    for grp in (_r1_huber, _r2_cross_entropy, _r2_decoding, _r6_two_hot, _r3_avg_l1, _r3_eps_default, _r4_schedule, _r5_masked, _r5_broadcast):
        ck.guard(grp, ck, repo, nf)


# ---- R1 Huber ---------------------------------------------------------------------------------------------
def _r1_huber(ck, repo, nf):
    q = "rl_blox.blox.losses.huber_loss"
    fn = repo.func(q)
    env = _env(repo, nf, fn)
    PE, PD = _roles(fn, q, 2)          # |e|, delta: by position
    got = _ret(nf, q, env)
    where = loc(fn._module, fn)
    e, d = env[PE], env[PD]
    # piecewise identity in the three order worlds of (|e|, delta); delta > 0 and |e| >= 0 are documented preconditions
    model = OrderModel()
    model.cluster([Poly.const(0), e, d], constraint=lambda r: r[0] < r[2] and r[0] <= r[1])
    model.positive(PD)
    seen = set()
    for w in model.worlds():
        sg = model.sign(w, e - d)
        label = "|e|<delta" if sg < 0 else "|e|=delta" if sg == 0 else "|e|>delta"
        if label in seen:
            continue
        val = model.value(w, nf, got)
        want = model.resolve(w, e.pow(2).scale("1/2") if sg <= 0 else d * (e - d.scale("1/2")))
        ok = val == want
        if not ok and not (val.atoms() <= {PE, PD}):
            raise AnalysisError(f"{q}: value `{val.canon()[:100]}` in the world {label} (unrecognised form)")
        seen.add(label)
        # a polynomial in |e| and delta alone that is not the documented one: a different function
        ck.ob("R1-huber", q, f"branch:{label}", ok, f"{label}  =>  {val.canon()}", "" if ok else f"must be {'0.5*e^2' if sg <= 0 else 'delta*(e - 0.5*delta)'}, got a difference of {(val - want).canon()}", where)
    if len(seen) != 3:
        raise AnalysisError(f"{q}: order model degenerate ({sorted(seen)})")
    ck.ob("R1-huber", q, "worlds", True, f"{sorted(seen)}", "", where)


# ---- R2 cross-entropy / decoding ---------------------------------------------------------------------------
P = "rl_blox.blox.preprocessing."


def _r2_cross_entropy(ck, repo, nf):
    enc = repo.func(P + "two_hot_encoding")
    enc_q = repo.canonical(f"{enc._module.name}.{enc.name}", enc)
    nf2 = NF(repo, inline_depth=2, no_inline={P + "two_hot_encoding", enc_q, f"{enc._module.name}.{enc.name}"})
    q = P + "two_hot_cross_entropy_loss"
    fn = repo.func(q)
    env = _env(repo, nf, fn)
    B, L, T = (env[x] for x in _roles(fn, q, 3))      # bins, logits, target: by position
    got = _ret(nf2, q, env)
    code = nf2.poly(ast.Call(func=ast.Name(id=enc.name, ctx=ast.Load()), args=[ast.Name(id=x, ctx=ast.Load()) for x in _roles(fn, q, 3)[::2]], keywords=[]), Scope(None, enc._module, env, q), None)
    # log-probabilities over the bin axis of (n_samples, n_bins) logits: axis -1 (the default of log_softmax) == axis 1
    lsm = [_lib(nf2, "log_softmax", L, axis=_c(-1)), _lib(nf2, "log_softmax", L), _lib(nf2, "log_softmax", L, _c(-1)), _lib(nf2, "log_softmax", L, axis=_c(1)), _lib(nf2, "log_softmax", L, _c(1))]
    inner = [code * x for x in lsm]
    wants = [-_lib(nf2, "sum", inner[0], axis=_c(-1))]

    def pieces(g):
        r = _read_reduction(nf2, g)
        if r is None:
            return None
        c, red, inn, axis, keep = r
        return {"sign / factor": c == -1, "reduction": red == "sum", "axis": _last_axis(axis, 2), "keepdims": _flag(keep, (None, 0), ()),
                "summand": _piece(inn, inner, ("softmax",))}
    _decide(ck, "R2-cross-entropy", q, "formula", got, wants, pieces, "must be -sum(two_hot(target) * log_softmax(logits), last axis)", loc(fn._module, fn), ("softmax",))


def _r2_decoding(ck, repo, nf):
    q = P + "two_hot_decoding"
    fn = repo.func(q)
    env = _env(repo, nf, fn)
    B, E = (env[x] for x in _roles(fn, q, 2))         # bins, encoded rows: by position
    got = _ret(nf, q, env)
    # (n_samples, n_bins) rows times (n_bins,) edges: the edges broadcast along the last axis with or without an explicit leading axis
    inner = [E * B] + [E * _sub(B, i) for i in ("None", "jax.numpy.newaxis", "numpy.newaxis", "None, :", "jax.numpy.newaxis, :", "numpy.newaxis, :")]
    wants = [_lib(nf, "sum", inner[0], axis=_c(-1))]
    # a matrix-vector product is the same contraction over the last axis
    wants += [Poly.atom(f"matmult({E.canon()}, {B.canon()})"), _lib(nf, "dot", E, B), _lib(nf, "matmul", E, B)]

    def pieces(g):
        r = _read_reduction(nf, g)
        if r is None:
            return None
        c, red, inn, axis, keep = r
        return {"factor": c == 1, "reduction": red == "sum", "axis": _last_axis(axis, 2), "keepdims": _flag(keep, (None, 0), ()), "summand": _piece(inn, inner)}
    _decide(ck, "R2-cross-entropy", q, "decoding", got, wants, pieces, "decoding must be the bin-weighted sum over the last axis", loc(fn._module, fn))


# ---- R6 two-hot weights ----------------------------------------------------------------------------------------
def _r6_two_hot(ck, repo, nf):
    q = P + "two_hot_encoding"
    fn = repo.func(q)
    mi = fn._module
    cfg = nf.cfg_of(fn)
    env = _env(repo, nf, fn)
    PB, PX = _roles(fn, q, 2)          # bins, x: by position
    BN, X = env[PB], env[PX]
    sc = Scope(cfg, mi, env, q)
    spec = Scope(None, mi, env, q)
    got = _ret(nf, q, env)
    # the functional updates the returned array went through ...
    chain, cur = [], got
    while cur.single_atom() is not None and "at" in nf.meta.get(cur.single_atom(), {}):
        chain.append(cur.single_atom())
        cur = nf.meta[cur.single_atom()]["at"]["base"]
    # ... and the same updates as written in this function (their index expressions are read there)
    writes = {}
    for n in cfg.nodes:
        if n.kind != "stmt" or n.ast is None:
            continue
        for c in ast.walk(n.ast):
            if isinstance(c, ast.Call) and isinstance(c.func, ast.Attribute) and isinstance(c.func.value, ast.Subscript) and isinstance(c.func.value.value, ast.Attribute) and c.func.value.value.attr == "at":
                a = nf.poly(c, sc, n.id).single_atom()
                m = nf.meta.get(a or "", {})
                if a is None or "at" not in m or a in writes:
                    continue
                idx = c.func.value.slice
                if isinstance(idx, ast.Tuple) and len(idx.elts) == 2:
                    row, col = (nf.poly(x, sc, n.id) for x in idx.elts)
                else:
                    pi = nf.poly(idx, sc, n.id)
                    row, col = pi.elems if pi.elems is not None and len(pi.elems) == 2 else (None, None)
                writes[a] = (n, row, col, m["args"][0] if len(m.get("args", [])) == 1 and not m.get("kws") else None, m["at"]["op"])
    if len(chain) != 2 or set(chain) != set(writes) or any(r is None or v is None or op != "set" for (_n, r, _c2, v, op) in writes.values()):
        raise AnalysisError(f"{q}: expected the result to be built by two `.at[rows, idx].set(weight)` writes of this function, found {len(chain)} on the result / {len(writes)} written (unrecognised form)")
    (na, ra, ca, va, _o1), (nb, rb, cb, vb, _o2) = (writes[a] for a in reversed(chain))     # in the order they are applied
    if _opaque(ra, rb, ca, cb, va, vb):
        raise AnalysisError(f"{q}: an index or weight of the two writes is not resolved: `{ca.canon()[:60]}` / `{cb.canon()[:60]}` / `{va.canon()[:60]}` / `{vb.canon()[:60]}` (unrecognised form)")
    lasts = [nf.poly(parse_expr(t.format(b=PB)), spec, None) for t in ("{b}.shape[0] - 1", "len({b}) - 1", "{b}.size - 1", "{b}.shape[-1] - 1")]

    def strip(cidx):
        """clip(i, 0, last) / minimum(i, last) -> (i, True); another bound -> (index as written, None: bound not read); unclipped -> (index, False)"""
        m = nf.meta.get(cidx.single_atom() or "", {})
        f_, args = m.get("fn", "").split(".")[-1], m.get("args", [])
        if f_ == "clip" and len(args) == 3 and not m.get("kws"):
            raw = [x for x in args[:2] if not (x.is_const() and x.const_value() == 0)]
            if len(raw) == 1 and args[2] in lasts:
                return raw[0], True
            return cidx, None
        if f_ == "minimum" and len(args) == 2 and not m.get("kws"):
            raw = [x for x in args if x not in lasts]
            return (raw[0], True) if len(raw) == 1 else (cidx, None)
        return cidx, False
    (sa, ka), (sb, kb) = strip(ca), strip(cb)
    # adjacency: the two column indices differ by the constant one (an index may be clipped to the last bin; for values inside the bin
    # range the clip never binds)
    k, as_written = None, False
    for x, y in ((ca, cb), (sa, sb), (ca, sb), (sa, cb)):
        dd = y - x
        if dd.is_const():
            k, as_written = dd.const_value(), x is ca and y is cb
            break
    where2 = loc(mi, nb.ast)
    shown = f"column indices {ca.canon()[:70]} / {cb.canon()[:70]}"
    if k is None:
        def search(p):
            """index == searchsorted(bins, x, side) + const -> side"""
            ats = [a for a in p.atoms() if nf.meta.get(a, {}).get("fn", "").split(".")[-1] == "searchsorted"]
            if len(ats) != 1 or not (p - Poly.atom(ats[0])).is_const():
                return None
            m = nf.meta[ats[0]]
            if len(m["args"]) < 2 or m["args"][0] != BN or m["args"][1] != X:
                return None
            side = m["args"][2] if len(m["args"]) > 2 else m["kws"].get("side")
            return "'left'" if side is None else side.canon()
        sides = (search(sa), search(sb))
        if None not in sides and sides[0] != sides[1] and set(sides) <= {"'left'", "'right'"}:
            # known library semantics: for x on an exact bin edge the right-sided search is one larger than the left-sided one, elsewhere they agree
            ck.ob("R6-two-hot-weights", q, "adjacent-indices", False, shown, "the two indices come from independent left / right searches: their distance is one smaller for x exactly on a bin edge than elsewhere, so "
                  "they cannot be adjacent for every x (adjacent off the edges means the same column on an edge: the second write overwrites the first)", where2, witness=[f"x == {PB}[j]: searchsorted(side='right') == searchsorted(side='left') + 1"])
            return
        raise AnalysisError(f"{q}: the two column indices `{ca.canon()[:70]}` / `{cb.canon()[:70]}` are not related by a constant offset (unrecognised form)")
    if None in (ka, kb) and not as_written:
        raise AnalysisError(f"{q}: clipping bound of a column index `{ca.canon()[:70]}` / `{cb.canon()[:70]}` not read (unrecognised form)")
    if k < 0:
        (na, ra, ca, va), (nb, rb, cb, vb), k = (nb, rb, cb, vb), (na, ra, ca, va), -k
    # from here: a = lower edge, b = upper edge
    ok = k == 1
    ck.ob("R6-two-hot-weights", q, "adjacent-indices", ok, f"lower idx = {ca.canon()[:60]}, upper idx = {cb.canon()[:80]}", "" if ok else f"the upper index must be lower+1 (adjacent non-zero entries), the two indices differ by {k}", where2)
    rows = [nf.poly(parse_expr(t.format(x=PX)), spec, None) for t in ("{x}.shape[0]", "len({x})", "{x}.size", "{x}.shape[-1]")]
    rows = [_lib(nf, "arange", r_) for r_ in rows]
    vr = [_piece(r_, rows, (PB,)) for r_ in (ra, rb)]
    if None in vr:
        raise AnalysisError(f"{q}: row indices `{ra.canon()[:60]}` / `{rb.canon()[:60]}` of the two writes (unrecognised form)")
    ok = all(vr)
    ck.ob("R6-two-hot-weights", q, "one-row-per-sample", ok, f"rows {ra.canon()} / {rb.canon()}", "" if ok else "each sample writes into its own row", loc(mi, na.ast))
    # weights: with D = bins[up] - bins[lo] the documented upper weight is (x - bins[lo]) / D; comparisons are made after multiplying by D
    e2 = {**env, "LO": ca, "UP": cb}
    lo_edge, up_edge = (nf.poly(parse_expr(f"{PB}[{i}]"), Scope(None, mi, e2, q), None) for i in ("LO", "UP"))
    D = up_edge - lo_edge
    want_w = (X - lo_edge) * D.inv()

    def times_d(p):
        """p * D with the quotient atoms (D)^-1 / (-D)^-1 cancelled"""
        sym = Poly.atom("§D")
        p2 = p.subst({f"({D.canon()})": sym, f"({(-D).canon()})": -sym}) * sym
        return p2.subst({"§D": D})

    def only_edges(p):
        """the weight is written with x and the two selected bin edges alone (the index expressions inside the edges are abstracted)"""
        txt = p.canon().replace(up_edge.canon(), "UPPER").replace(lo_edge.canon(), "LOWER")
        return not _opaque(p) and set(re.findall(r"[A-Za-z_][A-Za-z_0-9]*", txt)) <= {PX, "UPPER", "LOWER"}
    tot = va + vb
    ok = tot == _c(1) or times_d(tot) == D
    if not ok and not only_edges(tot):
        raise AnalysisError(f"{q}: sum of the two written weights `{tot.canon()[:100]}` (unrecognised form)")
    ck.ob("R6-two-hot-weights", q, "weights-sum-to-one", ok, f"w_lo + w_up = {tot.canon()[:80]}", "" if ok else "the two written weights must sum to one", loc(mi, na.ast))
    ok = vb == want_w or times_d(vb) == X - lo_edge
    if not ok and not only_edges(vb):
        raise AnalysisError(f"{q}: upper weight `{vb.canon()[:100]}` is not written with x and the two bin edges (unrecognised form)")
    ck.ob("R6-two-hot-weights", q, "interpolation-weight", ok, f"w = {vb.canon()[:120]}", "" if ok else "w must be (x - lower edge) / (upper edge - lower edge): then (1-w)*lower + w*upper decodes to x", where2)
    ck.note("two_hot_encoding: the lower-edge search `argmin(diff - 1e8*(sign(diff)-1))` over float differences is not decided (DESIGN: not decided)")


# ---- R3 avg-l1 ---------------------------------------------------------------------------------------------------
def _r3_avg_l1(ck, repo, nf):
    q = "rl_blox.blox.function_approximator.norm.avg_l1_norm"
    fn = repo.func(q)
    env = _env(repo, nf, fn)
    PX, PEPS = _roles(fn, q, 2)        # x, eps: by position (positional or keyword-only)
    X, EPS = env[PX], env[PEPS]
    got = _ret(nf, q, env)
    absx = _lib(nf, "abs", X)
    wants = [X * _lib(nf, "maximum", _lib(nf, "mean", absx, axis=_c(-1), keepdims=_c(1)), EPS).inv()]

    def pieces(g):
        if len(g.terms) != 1:
            return None
        (mono, c), = g.terms.items()
        den = [a for a, k_ in mono if k_ == -1]
        if c != 1 or len(mono) != 2 or len(den) != 1 or (PX, 1) not in mono:
            return None
        m = nf.meta.get(den[0], {})
        if m.get("fn", "").split(".")[-1] != "maximum" or len(m.get("args", [])) != 2 or m.get("kws") or EPS not in m["args"]:
            return None
        scale = [a for a in m["args"] if a != EPS]
        if len(scale) != 1:
            return None
        r = _read_reduction(nf, scale[0])
        if r is None:
            ms = nf.meta.get(scale[0].single_atom() or "", {})
            if ms.get("fn") == "pow" and len(ms.get("args", [])) == 2 and ms["args"][1] == _c(Fraction(1, 2)) and _read_reduction(nf, ms["args"][0]) is not None:
                return {"scale (root of a mean of squares: an L2 / RMS scale, not the mean absolute value)": False}
            return {"scale": None}
        c2, red, inn, axis, keep = r
        return {"factor": c2 == 1, "reduction (mean)": red == "mean", "axis": _last_axis(axis, None), "keepdims": _flag(keep, (1,), (None, 0)), "averaged quantity |x|": _piece(inn, [absx])}
    _decide(ck, "R3-avg-l1", q, "formula", got, wants, pieces, "must be x / max(mean|x| (last axis, keepdims), eps)", loc(fn._module, fn))


def _r3_eps_default(ck, repo, nf):
    q = "rl_blox.blox.function_approximator.norm.avg_l1_norm"
    fn = repo.func(q)
    PX, PEPS = _roles(fn, q, 2)
    a = fn.args
    pos = a.posonlyargs + a.args
    dflt = dict(zip([x.arg for x in pos[len(pos) - len(a.defaults):]], a.defaults))
    dflt.update({x.arg: d_ for x, d_ in zip(a.kwonlyargs, a.kw_defaults) if d_ is not None})
    if PEPS not in dflt:
        raise AnalysisError(f"{q}: `{PEPS}` has no default (unrecognised form)")
    dv = nf.poly(dflt[PEPS], Scope(None, fn._module), None)       # literal or module-level constant
    if not dv.is_const():
        raise AnalysisError(f"{q}: default of `{PEPS}` is `{dv.canon()[:60]}`, not a constant (unrecognised form)")
    ok = 0 < dv.const_value() <= Fraction(1, 10 ** 6)
    ck.ob("R3-avg-l1", q, "eps-default", ok, f"{PEPS} = {float(dv.const_value())}", "" if ok else "a small positive eps keeps the result finite for near-zero input", loc(fn._module, fn))


# ---- R4 schedule -----------------------------------------------------------------------------------------------------
def _top_level_split(txt: str, sep: str):
    parts, depth, cur = [], 0, ""
    for ch in txt:
        depth += ch in "([{"
        depth -= ch in ")]}"
        if ch == sep and depth == 0:
            parts.append(cur)
            cur = ""
        else:
            cur += ch
    return parts + [cur]


def _r4_schedule(ck, repo, nf):
    q = "rl_blox.blox.schedules.linear_schedule"
    fn = repo.func(q)
    mi = fn._module
    env = _env(repo, nf, fn)
    gotp = _ret(nf, q, env)
    PT, PS, PEN, PF = _roles(fn, q, 4)       # total_timesteps, start, end, fraction: by position
    TT, ST, EN, FR = (env[x] for x in (PT, PS, PEN, PF))
    n_want = nf.poly(parse_expr(f"int({PT} * {PF})"), Scope(None, mi, env, q), None)
    facts = {"lengths": [], "counts": []}

    def mk(fn_, a, b):
        return nf._mkcall(fn_, [a, b], {})

    def elem(p, kind):
        """Element of an array-valued normal form at the first / last index of the transition or at an index after it."""
        out = Poly.const(0)
        for mono, c in p.terms.items():
            term = Poly.const(c)
            for a, k in mono:
                term = term * elem_atom(a, kind).pow(k)
            out = out + term
        return out

    def elem_atom(a, kind):
        m = nf.meta.get(a)
        if m is None:
            if a in env:
                return Poly.atom(a)      # scalar parameter
            raise Unknown(a)
        fn_ = m.get("fn", "").split(".")[-1]
        args = m.get("args", [])
        if "at" in m and m["at"]["op"] == "set" and len(args) == 1:
            idx = m["at"]["index"]
            bounds = _top_level_split(idx, ":")
            if len(_top_level_split(idx, ",")) != 1 or len(bounds) != 2 or bounds[0].strip() not in ("", "0") or not bounds[1].strip():
                raise Unknown(a)         # only a prefix slice [:n] is read
            facts["counts"].append(bounds[1].strip())
            return elem(m["at"]["base"], kind) if kind == "tail" else elem(args[0], kind)
        kws = m.get("kws", {})
        shape = args[0] if args else kws.get("shape")          # the shape / fill value may be passed by keyword
        if fn_ in ("ones", "ones_like", "zeros", "zeros_like") and shape is not None:
            facts["lengths"].append(shape)
            return Poly.const(1 if fn_.startswith("ones") else 0)
        fill = args[1] if len(args) >= 2 else kws.get("fill_value")
        if fn_ == "full" and shape is not None and fill is not None:
            facts["lengths"].append(shape)
            return fill
        ep = m.get("kws", {}).get("endpoint")
        if fn_ == "linspace" and len(args) >= 3 and kind in ("first", "last") and (ep is None or (ep.is_const() and ep.const_value() == 1)):
            facts["counts"].append(args[2].canon())
            return args[0] if kind == "first" else args[1]
        if fn_ == "clip" and len(args) == 3 and not m.get("kws"):
            return mk("minimum", mk("maximum", elem(args[0], kind), elem(args[1], kind)), elem(args[2], kind))
        if fn_ in ("minimum", "maximum") and len(args) == 2:
            return mk(fn_, elem(args[0], kind), elem(args[1], kind))
        raise Unknown(a)

    model = OrderModel()
    model.cluster([ST, EN])
    viol, okk = {}, set()
    try:
        for w in model.worlds():
            for kind, want, why in (("tail", EN, "after the transition the schedule must hold `end`"), ("first", ST, "the schedule must begin at `start`"), ("last", EN, "the transition must arrive at `end`")):
                val = model.value(w, nf, elem(gotp, kind))
                if model.resolve(w, val) == model.resolve(w, want):
                    okk.add(kind)
                    continue
                if not (val.atoms() <= {PS, PEN}):
                    raise Unknown(val.canon())
                # a polynomial in start / end alone that is not the documented element: a different schedule
                viol.setdefault(kind, (f"element ({kind}) = {val.canon()} in the world [{model.describe(w)}]", why))
    except Unknown as u:
        raise AnalysisError(f"{q}: element-wise reading of `{gotp.canon()[:100]}` stops at `{str(u)[:60]}` (unrecognised form)")
    for kind in ("tail", "first", "last"):
        v = viol.get(kind)
        ck.ob("R4-schedule", q, f"element:{kind}", v is None, f"return {gotp.canon()[:120]}" if v is None else v[0], "" if v is None else v[1], loc(mi, fn))
    # array length(s): total_timesteps (a scalar or a one-element shape); another expression in total_timesteps alone is a different length
    lens = facts["lengths"]
    if not lens:
        raise AnalysisError(f"{q}: no array constructor with a length read in `{gotp.canon()[:100]}` (unrecognised form)")
    okl = all(x == TT or (x.elems is not None and len(x.elems) == 1 and x.elems[0] == TT) for x in lens)
    if not okl and any(_opaque(x) or not same_ingredients(x, TT) for x in lens):
        raise AnalysisError(f"{q}: array length(s) {sorted({x.canon()[:60] for x in lens})} (unrecognised form)")
    ck.ob("R4-schedule", q, "length", okl, f"array length(s) {sorted({x.canon() for x in lens})}", "" if okl else "the schedule must have total_timesteps entries", loc(mi, fn))
    cnts = sorted(set(facts["counts"]))
    if not cnts:
        raise AnalysisError(f"{q}: no transition (prefix slice / linspace count) read in `{gotp.canon()[:100]}` (unrecognised form)")
    okc = cnts == [n_want.canon()]
    allowed = set(re.findall(r"[A-Za-z_][A-Za-z_0-9]*", n_want.canon())) | {"int"}
    if not okc and any("φ(" in t or "⟦" in t or _TMP.search(t) or not set(re.findall(r"[A-Za-z_][A-Za-z_0-9]*", t)) <= allowed for t in cnts):
        raise AnalysisError(f"{q}: transition count(s) {[t[:60] for t in cnts]} (unrecognised form)")
    ck.ob("R4-schedule", q, "transition-steps", okc, f"transition count(s) {cnts}", "" if okc else "the transition spans exactly int(total_timesteps * fraction) steps (slice and linspace count agree)", loc(mi, fn))


# ---- R5 masked loss ------------------------------------------------------------------------------------------------------
def _r5_masked(ck, repo, nf):
    q = "rl_blox.blox.losses.masked_mse_loss"
    fn = repo.func(q)
    nf3 = NF(repo)
    nf3.expand_squares = False
    env = _env(repo, nf, fn)
    PP, PTG, PM = _roles(fn, q, 3)     # predictions, targets, mask: by position
    PR, TG, M = env[PP], env[PTG], env[PM]
    got = _ret(nf3, q, env)
    sq = nf3.square(PR - TG)
    # the (n_samples,) mask as a column (n_samples, 1) against (n_samples, n_features) errors
    cols = [_sub(M, i) for i in (":, jax.numpy.newaxis", ":, None", ":, numpy.newaxis", "Ellipsis, None", "Ellipsis, jax.numpy.newaxis", "Ellipsis, numpy.newaxis")]
    cols += [_lib(nf3, "expand_dims", M, _c(a_)) for a_ in (1, -1)] + [_lib(nf3, "expand_dims", M, axis=_c(a_)) for a_ in (1, -1)] + [_lib(nf3, "reshape", M, _c(-1), _c(1))]
    inner = [sq * c_ for c_ in cols]
    wants = [_lib(nf3, "mean", inner[0])]

    def pieces(g):
        r = _read_reduction(nf3, g)
        if r is None:
            return None
        c, red, inn, axis, keep = r
        return {"factor": c == 1, "reduction (mean)": red == "mean", "axis (none: over all entries)": True if axis is None else False if axis.is_const() else None, "keepdims": _flag(keep, (None, 0), ()), "averaged quantity": _piece(inn, inner)}
    _decide(ck, "R5-masked-loss", q, "formula", got, wants, pieces, "must be mean(squared_error(P, T) * mask[:, None])", loc(fn._module, fn))


def _r5_broadcast(ck, repo, nf):
    q = "rl_blox.blox.losses.masked_mse_loss"
    fn = repo.func(q)
    PP, PTG, PM = _roles(fn, q, 3)
    # shapes: unknowns never alarm, an alarm is a definite misalignment; an unknown result shape is not evidence
    se = ShapeEngine(repo)
    r = se.analyse(fn, fn._module, q, {PP: ("B", "F"), PTG: ("B", "F"), PM: ("B",)})
    if r is None and not se.alarms:
        raise AnalysisError(f"{q}: result shape under the documented shapes (B,F),(B,F),(B,) not inferred (unrecognised form)")
    ok = not se.alarms and r == ()
    ck.ob("R5-masked-loss", q, "per-sample-broadcast", ok, f"(B,F),(B,F),(B,) -> {r}; alarms {[(a[2]) for a in se.alarms]}", "" if ok else "; ".join(a[3] for a in se.alarms) or "result is not a scalar", loc(fn._module, fn))


_L, _P, _N, _S = "rl_blox/blox/losses.py", "rl_blox/blox/preprocessing.py", "rl_blox/blox/function_approximator/norm.py", "rl_blox/blox/schedules.py"
MUTANTS = [
    {"id": "c18-schedule-clipped", "file": _S, "rule": "R4", "find": "    return schedule\n", "replace": "    return jnp.clip(schedule, end, start)\n"},
    {"id": "c18-schedule-count-off", "file": _S, "rule": "R4", "find": "        jnp.linspace(start, end, transition_steps)", "replace": "        jnp.linspace(start, end, transition_steps + 1)[:-1]", "accept_error": True},
    {"id": "c18-huber-where-swapped", "file": _L, "rule": "R1", "find": "    quadratic = jnp.minimum(abs_errors, delta)\n    # Same as max(abs_x - delta, 0) but avoids potentially doubling gradient.\n    linear = abs_errors - quadratic\n    return 0.5 * quadratic**2 + delta * linear",
     "replace": "    return jnp.where(abs_errors > delta, 0.5 * abs_errors**2, delta * (abs_errors - 0.5 * delta))"},
    {"id": "c18-huber-linear-wrong", "file": _L, "rule": "R1", "find": "    return 0.5 * quadratic**2 + delta * linear", "replace": "    return 0.5 * quadratic**2 + delta * (abs_errors - delta)"},
    {"id": "c18-huber-no-half", "file": _L, "rule": "R1", "find": "    return 0.5 * quadratic**2 + delta * linear", "replace": "    return quadratic**2 + delta * linear"},
    {"id": "c18-huber-max", "file": _L, "rule": "R1", "find": "    quadratic = jnp.minimum(abs_errors, delta)", "replace": "    quadratic = jnp.maximum(abs_errors, delta)"},
    {"id": "c18-ce-sign", "file": _P, "rule": "R2", "find": "    return -jnp.sum(target * log_pred, axis=-1)", "replace": "    return jnp.sum(target * log_pred, axis=-1)"},
    {"id": "c18-ce-softmax", "file": _P, "rule": "R2", "find": "    log_pred = jax.nn.log_softmax(logits, axis=-1)", "replace": "    log_pred = jax.nn.softmax(logits, axis=-1)"},
    {"id": "c18-ce-axis", "file": _P, "rule": "R2", "find": "    return -jnp.sum(target * log_pred, axis=-1)", "replace": "    return -jnp.sum(target * log_pred, axis=0)"},
    {"id": "c18-decoding-mean", "file": _P, "rule": "R2", "find": "    return jnp.sum(two_hot_encoded * bins, axis=-1)", "replace": "    return jnp.mean(two_hot_encoded * bins, axis=-1)"},
    {"id": "c18-twohot-weights-swapped", "file": _P, "rule": "R6", "find": "    two_hot = two_hot.at[jnp.arange(x.shape[0]), ind_lo].set(1.0 - weight)\n    two_hot = two_hot.at[jnp.arange(x.shape[0]), ind_up].set(weight)", "replace": "    two_hot = two_hot.at[jnp.arange(x.shape[0]), ind_lo].set(weight)\n    two_hot = two_hot.at[jnp.arange(x.shape[0]), ind_up].set(1.0 - weight)"},
    {"id": "c18-twohot-upper-plus2", "file": _P, "rule": "R6", "find": "    ind_up = jnp.clip(ind_lo + 1, 0, bins.shape[0] - 1)", "replace": "    ind_up = jnp.clip(ind_lo + 2, 0, bins.shape[0] - 1)"},
    {"id": "c18-twohot-weight-denominator", "file": _P, "rule": "R6", "find": "    weight = (x - lower) / (upper - lower)", "replace": "    weight = (x - lower) / upper"},
    {"id": "c18-norm-axis0", "file": _N, "rule": "R3", "find": "jnp.mean(jnp.abs(x), axis=-1, keepdims=True)", "replace": "jnp.mean(jnp.abs(x), axis=0, keepdims=True)"},
    {"id": "c18-norm-l2", "file": _N, "rule": "R3", "find": "jnp.mean(jnp.abs(x), axis=-1, keepdims=True)", "replace": "jnp.sqrt(jnp.mean(x**2, axis=-1, keepdims=True))"},
    {"id": "c18-schedule-tail-start", "file": _S, "rule": "R4", "find": "    schedule = jnp.ones(total_timesteps) * end", "replace": "    schedule = jnp.ones(total_timesteps) * start"},
    {"id": "c18-schedule-reversed", "file": _S, "rule": "R4", "find": "        jnp.linspace(start, end, transition_steps)", "replace": "        jnp.linspace(end, start, transition_steps)"},
    {"id": "c18-schedule-length", "file": _S, "rule": "R4", "find": "    schedule = jnp.ones(total_timesteps) * end", "replace": "    schedule = jnp.ones(total_timesteps + 1) * end"},
    {"id": "c18-masked-mask-sum", "file": _L, "rule": "R5", "find": "    return jnp.mean(\n        optax.squared_error(predictions=predictions, targets=targets)\n        * mask[:, jnp.newaxis]\n    )", "replace": "    return jnp.mean(\n        optax.squared_error(predictions=predictions, targets=targets)\n        + mask[:, jnp.newaxis]\n    )"},
    # violation paths of the piece-wise readings
    {"id": "c18-ce-logits-axis0", "file": _P, "rule": "R2", "find": "jax.nn.log_softmax(logits, axis=-1)", "replace": "jax.nn.log_softmax(logits, axis=0)"},
    {"id": "c18-ce-sum-all", "file": _P, "rule": "R2", "find": "    return -jnp.sum(target * log_pred, axis=-1)", "replace": "    return -jnp.sum(target * log_pred)"},
    {"id": "c18-decoding-axis0", "file": _P, "rule": "R2", "find": "    return jnp.sum(two_hot_encoded * bins, axis=-1)", "replace": "    return jnp.sum(two_hot_encoded * bins, 0)"},
    {"id": "c18-twohot-independent-searches", "file": _P, "rule": "R6", "find": "    ind_lo = jnp.argmin(diff, 1, keepdims=False)\n    ind_up = jnp.clip(ind_lo + 1, 0, bins.shape[0] - 1)",
     "replace": "    ind_lo = jnp.searchsorted(bins, x, side=\"right\") - 1\n    ind_up = jnp.clip(jnp.searchsorted(bins, x, side=\"left\"), 0, bins.shape[0] - 1)"},
    {"id": "c18-twohot-same-column", "file": _P, "rule": "R6", "find": "    ind_up = jnp.clip(ind_lo + 1, 0, bins.shape[0] - 1)", "replace": "    ind_up = jnp.clip(ind_lo, 0, bins.shape[0] - 1)"},
    {"id": "c18-twohot-rows-of-bins", "file": _P, "rule": "R6", "find": "two_hot.at[jnp.arange(x.shape[0]), ind_up]", "replace": "two_hot.at[jnp.arange(bins.shape[0]), ind_up]"},
    {"id": "c18-twohot-weights-sum", "file": _P, "rule": "R6", "find": "set(1.0 - weight)", "replace": "set(1.0 + weight)"},
    {"id": "c18-norm-no-keepdims", "file": _N, "rule": "R3", "find": "jnp.mean(jnp.abs(x), axis=-1, keepdims=True)", "replace": "jnp.mean(jnp.abs(x), axis=-1)"},
    {"id": "c18-norm-no-abs", "file": _N, "rule": "R3", "find": "jnp.mean(jnp.abs(x), axis=-1, keepdims=True)", "replace": "jnp.mean(x, axis=-1, keepdims=True)"},
    {"id": "c18-norm-eps-zero", "file": _N, "rule": "R3", "find": "eps: float = 1e-8", "replace": "eps: float = 0.0"},
    {"id": "c18-norm-plus-eps", "file": _N, "rule": "R3", "find": "jnp.maximum(jnp.mean(jnp.abs(x), axis=-1, keepdims=True), eps)", "replace": "(jnp.mean(jnp.abs(x), axis=-1, keepdims=True) + eps)"},
    {"id": "c18-masked-row-mask", "file": _L, "rule": "R5", "find": "        * mask[:, jnp.newaxis]", "replace": "        * mask[jnp.newaxis, :]"},
    {"id": "c18-masked-sum-reduction", "file": _L, "rule": "R5", "find": "    return jnp.mean(\n        optax.squared_error", "replace": "    return jnp.sum(\n        optax.squared_error"},
    {"id": "c18-schedule-one-more-step", "file": _S, "rule": "R4", "find": "    transition_steps = int(\n        total_timesteps * fraction\n    )", "replace": "    transition_steps = int(total_timesteps * fraction) + 1"},
    {"id": "c18-schedule-renamed-reversed", "file": _S, "rule": "R4", "edits": [("    start: float = 1.0,\n    end: float = 0.1,\n", "    initial: float = 1.0,\n    final: float = 0.1,\n"), ("    schedule = jnp.ones(total_timesteps) * end", "    schedule = jnp.ones(total_timesteps) * final"), ("        jnp.linspace(start, end, transition_steps)", "        jnp.linspace(final, initial, transition_steps)")]},
]
BENIGN = [
    {"id": "c18-b-schedule-full", "file": _S, "find": "    schedule = jnp.ones(total_timesteps) * end", "replace": "    schedule = jnp.full(total_timesteps, end)"},
    {"id": "c18-b-huber-where", "file": _L, "find": "    quadratic = jnp.minimum(abs_errors, delta)\n    # Same as max(abs_x - delta, 0) but avoids potentially doubling gradient.\n    linear = abs_errors - quadratic\n    return 0.5 * quadratic**2 + delta * linear",
     "replace": "    return jnp.where(abs_errors <= delta, 0.5 * abs_errors**2, delta * (abs_errors - 0.5 * delta))"},
    {"id": "c18-b-huber-relu", "file": _L, "find": "    linear = abs_errors - quadratic\n", "replace": "    linear = jnp.maximum(abs_errors - delta, 0.0)\n"},
    {"id": "c18-b-huber-rewrite", "file": _L, "find": "    return 0.5 * quadratic**2 + delta * linear", "replace": "    return delta * linear + quadratic * quadratic / 2"},
    {"id": "c18-b-ce-neg-inside", "file": _P, "find": "    return -jnp.sum(target * log_pred, axis=-1)", "replace": "    return jnp.sum(-log_pred * target, axis=-1)"},
    {"id": "c18-b-norm-local", "file": _N, "find": "    return x / jnp.maximum(jnp.mean(jnp.abs(x), axis=-1, keepdims=True), eps)", "replace": "    scale = jnp.maximum(jnp.mean(jnp.abs(x), axis=-1, keepdims=True), eps)\n    return x / scale"},
    # names are free (roles by position), keyword / positional / default spellings of the same call, equivalent index spellings
    {"id": "c18-b-huber-renamed", "file": _L, "edits": [("def huber_loss(abs_errors: jnp.ndarray, delta: float)", "def huber_loss(abs_err: jnp.ndarray, threshold: float)"),
        ("    quadratic = jnp.minimum(abs_errors, delta)\n    # Same as max(abs_x - delta, 0) but avoids potentially doubling gradient.\n    linear = abs_errors - quadratic\n    return 0.5 * quadratic**2 + delta * linear", "    inside = jnp.minimum(abs_err, threshold)\n    outside = abs_err - inside\n    return 0.5 * inside**2 + threshold * outside")]},
    {"id": "c18-b-ce-renamed-default-axis", "file": _P, "edits": [("def two_hot_cross_entropy_loss(\n    bins: jnp.ndarray, logits: jnp.ndarray, target: jnp.ndarray\n)", "def two_hot_cross_entropy_loss(\n    bin_edges: jnp.ndarray, pred_logits: jnp.ndarray, y: jnp.ndarray\n)"),
        ("    log_pred = jax.nn.log_softmax(logits, axis=-1)\n    target = two_hot_encoding(bins, target)\n    return -jnp.sum(target * log_pred, axis=-1)", "    log_pred = jax.nn.log_softmax(pred_logits)\n    encoded = two_hot_encoding(x=y, bins=bin_edges)\n    return -(encoded * log_pred).sum(-1)")]},
    {"id": "c18-b-ce-axis-one", "file": _P, "find": "    return -jnp.sum(target * log_pred, axis=-1)", "replace": "    return jnp.sum(-log_pred * target, 1)"},
    {"id": "c18-b-decoding-matmul", "file": _P, "find": "    return jnp.sum(two_hot_encoded * bins, axis=-1)", "replace": "    return two_hot_encoded @ bins"},
    {"id": "c18-b-decoding-renamed-broadcast", "file": _P, "edits": [("def two_hot_decoding(\n    bins: jnp.ndarray, two_hot_encoded: jnp.ndarray\n)", "def two_hot_decoding(\n    bin_edges: jnp.ndarray, encoded: jnp.ndarray\n)"), ("    return jnp.sum(two_hot_encoded * bins, axis=-1)", "    return (encoded * bin_edges[None, :]).sum(axis=1)")]},
    {"id": "c18-b-norm-kwonly-constant", "file": _N, "find": "def avg_l1_norm(x: jnp.ndarray, eps: float = 1e-8)", "replace": "_EPS = 1e-8\n\n\ndef avg_l1_norm(x: jnp.ndarray, *, eps: float = _EPS)"},
    {"id": "c18-b-norm-renamed", "file": _N, "edits": [("def avg_l1_norm(x: jnp.ndarray, eps: float = 1e-8)", "def avg_l1_norm(v: jnp.ndarray, epsilon: float = 1e-8)"), ("    return x / jnp.maximum(jnp.mean(jnp.abs(x), axis=-1, keepdims=True), eps)", "    return v / jnp.maximum(epsilon, jnp.abs(v).mean(-1, keepdims=True))")]},
    {"id": "c18-b-masked-renamed-none", "file": _L, "edits": [("def masked_mse_loss(\n    predictions: jnp.ndarray, targets: jnp.ndarray, mask: jnp.ndarray\n)", "def masked_mse_loss(\n    pred: jnp.ndarray, tgt: jnp.ndarray, valid: jnp.ndarray\n)"),
        ("    return jnp.mean(\n        optax.squared_error(predictions=predictions, targets=targets)\n        * mask[:, jnp.newaxis]\n    )", "    weights = valid[:, None]\n    return (weights * jnp.square(tgt - pred)).mean()")]},
    {"id": "c18-b-masked-expand-dims", "file": _L, "find": "        * mask[:, jnp.newaxis]", "replace": "        * jnp.expand_dims(mask, axis=-1)"},
    {"id": "c18-b-twohot-rows-minimum-chained", "file": _P, "edits": [("    ind_up = jnp.clip(ind_lo + 1, 0, bins.shape[0] - 1)", "    ind_up = jnp.minimum(ind_lo + 1, len(bins) - 1)"),
        ("    two_hot = jnp.zeros((x.shape[0], bins.shape[0]))\n    two_hot = two_hot.at[jnp.arange(x.shape[0]), ind_lo].set(1.0 - weight)\n    two_hot = two_hot.at[jnp.arange(x.shape[0]), ind_up].set(weight)\n    return two_hot\n", "    rows = jnp.arange(len(x))\n    lo_pos = (rows, ind_lo)\n    return jnp.zeros((len(x), len(bins))).at[lo_pos].set(1.0 - weight).at[rows, ind_up].set(weight)\n")]},
    {"id": "c18-b-twohot-renamed-weights", "file": _P, "edits": [("def two_hot_encoding(bins: jnp.ndarray, x: jnp.ndarray)", "def two_hot_encoding(edges: jnp.ndarray, values: jnp.ndarray)"), ("    diff = x[:, jnp.newaxis] - bins[jnp.newaxis]\n", "    diff = values[:, jnp.newaxis] - edges[jnp.newaxis]\n"),
        ("    ind_up = jnp.clip(ind_lo + 1, 0, bins.shape[0] - 1)\n\n    lower = bins[ind_lo]\n    upper = bins[ind_up]\n    weight = (x - lower) / (upper - lower)\n", "    ind_up = jnp.clip(ind_lo + 1, min=0, max=edges.shape[0] - 1)\n\n    lower = edges[ind_lo]\n    upper = edges[ind_up]\n    width = upper - lower\n    weight = (values - lower) / width\n"),
        ("    two_hot = jnp.zeros((x.shape[0], bins.shape[0]))\n    two_hot = two_hot.at[jnp.arange(x.shape[0]), ind_lo].set(1.0 - weight)\n    two_hot = two_hot.at[jnp.arange(x.shape[0]), ind_up].set(weight)\n", "    two_hot = jnp.zeros((values.shape[0], edges.shape[0]))\n    two_hot = two_hot.at[jnp.arange(values.shape[0]), ind_lo].set((upper - values) / width)\n    two_hot = two_hot.at[jnp.arange(values.shape[0]), ind_up].set(weight)\n")]},
    {"id": "c18-b-schedule-renamed", "file": _S, "edits": [("    total_timesteps: int,\n    start: float = 1.0,", "    n_steps: int,\n    start: float = 1.0,"),
        ("    transition_steps = int(\n        total_timesteps * fraction\n    )  # Number of steps for decay\n    schedule = jnp.ones(total_timesteps) * end  # Default value after decay\n\n    schedule = schedule.at[:transition_steps].set(\n        jnp.linspace(start, end, transition_steps)\n    )\n", "    k = int(fraction * n_steps)\n    schedule = jnp.ones(n_steps) * end\n    schedule = schedule.at[:k].set(jnp.linspace(start, end, num=k))\n")]},
    {"id": "c18-b-schedule-kwonly-slice", "file": _S, "edits": [("    total_timesteps: int,\n    start: float = 1.0,", "    total_timesteps: int,\n    *,\n    start: float = 1.0,"), ("    schedule = jnp.ones(total_timesteps) * end", "    schedule = jnp.ones((total_timesteps,)) * end"), ("schedule.at[:transition_steps]", "schedule.at[0:transition_steps]"),
        ("jnp.linspace(start, end, transition_steps)", "jnp.linspace(start, end, transition_steps, endpoint=True)")]},
]
