"""C18 - numeric building blocks: Huber, two-hot cross-entropy, AvgL1 norm, linear schedule, masked loss (structural clauses)."""
from __future__ import annotations

import ast
import re
from fractions import Fraction

from ..nf import NF, Scope, Poly, parse_expr
from ..sem import same_ingredients, OrderModel, Unknown
from ..repo import Repo, loc, AnalysisError, param_names
from ..shapes import ShapeEngine

EXPLANATION = (
    "Five of the six clauses are formula identities. Huber: with q = min(e, delta) the returned polynomial is case-split by substituting "
    "q := e (inside) and q := delta (outside); both branches are polynomial identities 0.5*e^2 resp. delta*(e - 0.5*delta), valid for all real "
    "e >= 0 and delta. Cross-entropy == -sum(two_hot(target) * log_softmax(logits), -1); decoding == sum(p * bins, -1); AvgL1 == "
    "x / max(mean|x| over the last axis (kept), eps); schedule: length total_timesteps, constant tail `end`, linspace(start, end, n) prefix "
    "with n = int(total*fraction); masked loss under its documented shapes (shape engine). Two-hot encoding: the weight algebra (lower "
    "weight 1-w, upper weight w, w = (x-lower)/(upper-lower), upper index = lower index + 1 clipped) is checked - rows then sum to one and "
    "decode to x by construction; the masked-argmin lower-edge search over float differences is NOT decided. Parameters are taken by "
    "position of the recorded signature (their names are free). A formula that is not literally a documented spelling is read piece by piece "
    "(factor, reduction, axis, keepdims, reduced quantity): a violation needs a piece with positive evidence of a difference (another constant "
    "axis, another reduction, the documented ingredients combined differently, a constant index offset other than one, independent left / right "
    "edge searches); an unread piece or an unknown building block makes the clause undecided. Order / index worlds: the schedule is read element-wise "
    "(first and last transition step, a step behind it) per return path in the worlds start <> end x transition count n in {0, 1, 2, > 2} - guard clauses, "
    "conditional writes, closed forms over arange(total) (where / min / max / clip), optax.linear_schedule over the step indices; a floor or cap around the "
    "log-probabilities of the cross-entropy is evaluated in the worlds of log p in (-inf, 0] against its constants; a binary-search bin lookup "
    "(searchsorted / digitize over (bins, x)) is evaluated in every position of x relative to the edges for 2..5 edges (counterexamples only: coinciding "
    "columns whose last written weight is not 1, non-adjacent columns, a bin that does not contain x); a row count taken from a derived per-sample array is "
    "read through symbolic shapes under the documented shapes of x and bins."
)
TRUSTED = ["jnp.minimum / log_softmax / linspace semantics", "min(e, delta) equals e or delta (case split is exhaustive)"]
RULES = {
    "R1-huber": "huber_loss(e, d) == 0.5*e^2 where min(e,d) = e and == d*(e - 0.5*d) where min(e,d) = d",
    "R2-cross-entropy": "two_hot_cross_entropy_loss == -sum(two_hot_encoding(bins, target) * log_softmax(logits, -1), -1); two_hot_decoding == sum(p*bins, -1)",
    "R3-avg-l1": "avg_l1_norm(x) == x / maximum(mean(|x|, axis=-1, keepdims=True), eps)",
    "R4-schedule": "length total_timesteps; elements: `start` at step 0 (n >= 1), `end` at step n-1 (n >= 2) and at every step >= n, in both orders of start / end, n = int(total*fraction) (slice bound and linspace count both n)",
    "R5-masked-loss": "masked_mse_loss == mean(sq(P - T) * mask[:, None]) with per-sample broadcasting under the documented shapes",
    "R6-two-hot-weights": "two_hot rows: weight 1-w at the lower index and w at lower+1 (clipped to the last bin), w = (x - bins[lo]) / (bins[up] - bins[lo]); one row per sample; a binary-search lookup encloses x in every position (exact edges included)",
}


def _env(repo, nf, fn):
    """Parameters as atoms.  A parameter that the specialise pass reads at its constant default (an option added - or renamed - after the
    reference signatures were recorded; its occurrences in the body are already replaced) is bound to that constant, so that the documented
    formula is stated for the same reading of the function."""
    env = {p: Poly.atom(p, {p}, {p}) for p in param_names(fn)}
    for qq, p, d in getattr(repo, "specialised", None) or []:
        try:
            same = repo.lookup(qq)[1] is fn
        except Exception:
            same = False
        if same and p in env:
            v = nf.poly(parse_expr(d), Scope(None, fn._module), None)
            if v.is_const():
                env[p] = v
    return env


_TMP = re.compile(r"__i\d+\b")


def _opaque(*ps) -> bool:
    """The value contains something the engine did not read: a merge of definitions, an opaque construct, an expander temporary."""
    return any("φ(" in c or "⟦" in c or _TMP.search(c) for c in (p.canon() for p in ps if p is not None))


def _roles(fn, q, k):
    """The first k parameters of the public signature, by position (their names are free)."""
    ps = param_names(fn)
    if len(ps) < k or fn.args.vararg is not None:
        raise AnalysisError(f"{q}: signature changed, {k} leading parameters expected (anchor vanished)")
    return ps[:k]


def _ret(nf, q, env):
    try:
        return nf.return_poly(q, env)
    except ValueError as e:
        raise AnalysisError(f"{q}: {e} (unrecognised form)")


def _lib(nf, op, *args, **kws):
    """Normal form of a library call, built without name resolution (the analysed module need not import the library under a given name)."""
    return nf._libcall(op, list(args), dict(kws), None)


def _sub(p: Poly, idx: str) -> Poly:
    return Poly.atom(f"{p.canon()}[{idx}]", p.deps, p.gdeps)


def _c(v):
    return Poly.const(v)


def _read_reduction(nf, p: Poly):
    """p == c * sum|mean(inner, axis, keepdims)  ->  (c, 'sum'|'mean', inner, axis Poly | None, keepdims Poly | None); anything else -> None."""
    if p is None or len(p.terms) != 1:
        return None
    (mono, c), = p.terms.items()
    if len(mono) != 1 or mono[0][1] != 1:
        return None
    m = nf.meta.get(mono[0][0])
    if not m:
        return None
    fn_ = m.get("fn", "").split(".")[-1]
    args, kws = list(m.get("args", [])), dict(m.get("kws", {}))
    if fn_ not in ("sum", "mean") or not 1 <= len(args) <= 2 or (len(args) == 2 and "axis" in kws):
        return None
    axis = args[1] if len(args) == 2 else kws.pop("axis", None)
    keep = kws.pop("keepdims", None)
    if kws:
        return None
    if axis is not None and axis.canon() == "None":
        axis = None
    return c, fn_, args[0], axis, keep


def _last_axis(axis, rank):
    """True: the reduction runs over the last axis of an array of that rank (None: any rank); False: over something else (a constant that
    names another axis, or no axis at all = over everything); None: not a constant."""
    if axis is None:
        return rank == 1
    v = axis.const_value() if axis.is_const() else None
    if v is None:
        return None
    return v == -1 or (rank is not None and v == rank - 1)


def _flag(v, true_values, false_values):
    """Keyword flag (keepdims): None = absent."""
    key = None if v is None else (v.const_value() if v.is_const() else "?")
    return True if key in true_values else False if key in false_values else None


def _piece(got: Poly, wants, extra=()):
    """True: the value is one of the documented spellings; False: it is built from the documented ingredients but differs; None: unread."""
    if any(got == w for w in wants):
        return True
    if _opaque(got) or not same_ingredients(got, wants[0], extra):
        return None
    return False


def _decide(ck, rule, q, key, got: Poly, wants, pieces, why, where, extra=()):
    """Equal to a documented spelling -> holds.  Otherwise the formula is read piece by piece (`pieces(got)` -> {piece: True | False | None}
    or None when the outer shape is not the documented one): all pieces right -> holds; a piece with positive evidence of a difference and
    no unread piece -> violation; an unread piece -> undecided.  Without a piece-wise reading a difference is a violation only when the value
    is built from the documented ingredients (then the two normal forms denote different functions)."""
    shown = got.canon()[:170]
    if any(got == w for w in wants):
        ck.ob(rule, q, key, True, shown, "", where)
        return True
    if _opaque(got):
        raise AnalysisError(f"{q}: {key} is `{shown[:110]}` (unrecognised form)")
    res = pieces(got) if pieces is not None else None
    if res is None:
        if not same_ingredients(got, wants[0], extra):
            raise AnalysisError(f"{q}: {key} is `{shown[:110]}`: not written with the documented building blocks (unrecognised form)")
        ck.ob(rule, q, key, False, shown, f"{why}; differs from `{wants[0].canon()[:120]}` by {(got - wants[0]).canon()[:120]}", where)
        return False
    unread = sorted(k for k, v in res.items() if v is None)
    bad = sorted(k for k, v in res.items() if v is False)
    if unread:
        raise AnalysisError(f"{q}: {key}: {', '.join(unread)} of `{shown[:110]}` not read (unrecognised form)")
    ck.ob(rule, q, key, not bad, shown, "" if not bad else f"{why}; wrong: {', '.join(bad)} (documented: `{wants[0].canon()[:120]}`)", where)
    return not bad


def run(ck, repo: Repo, tier: str):
    nf = NF(repo, inline_depth=2)
    # independent rule groups: an unread form in one of them does not hide a definite finding of another
    for grp in (_r1_huber, _r2_cross_entropy, _r2_decoding, _r6_two_hot, _r3_avg_l1, _r3_eps_default, _r4_schedule, _r5_masked, _r5_broadcast):
        ck.guard(grp, ck, repo, nf)


# ---- R1 Huber ---------------------------------------------------------------------------------------------
def _r1_huber(ck, repo, nf):
    q = "rl_blox.blox.losses.huber_loss"
    fn = repo.func(q)
    env = _env(repo, nf, fn)
    PE, PD = _roles(fn, q, 2)          # |e|, delta: by position
    got = _ret(nf, q, env)
    where = loc(fn._module, fn)
    e, d = env[PE], env[PD]
    # piecewise identity in the three order worlds of (|e|, delta); delta > 0 and |e| >= 0 are documented preconditions
    model = OrderModel()
    model.cluster([Poly.const(0), e, d], constraint=lambda r: r[0] < r[2] and r[0] <= r[1])
    model.positive(PD)
    seen = set()
    for w in model.worlds():
        sg = model.sign(w, e - d)
        label = "|e|<delta" if sg < 0 else "|e|=delta" if sg == 0 else "|e|>delta"
        if label in seen:
            continue
        val = model.value(w, nf, got)
        want = model.resolve(w, e.pow(2).scale("1/2") if sg <= 0 else d * (e - d.scale("1/2")))
        ok = val == want
        if not ok and not (val.atoms() <= {PE, PD}):
            raise AnalysisError(f"{q}: value `{val.canon()[:100]}` in the world {label} (unrecognised form)")
        seen.add(label)
        # a polynomial in |e| and delta alone that is not the documented one: a different function
        ck.ob("R1-huber", q, f"branch:{label}", ok, f"{label}  =>  {val.canon()}", "" if ok else f"must be {'0.5*e^2' if sg <= 0 else 'delta*(e - 0.5*delta)'}, got a difference of {(val - want).canon()}", where)
    if len(seen) != 3:
        raise AnalysisError(f"{q}: order model degenerate ({sorted(seen)})")
    ck.ob("R1-huber", q, "worlds", True, f"{sorted(seen)}", "", where)


# ---- R2 cross-entropy / decoding ---------------------------------------------------------------------------
P = "rl_blox.blox.preprocessing."


def _r2_cross_entropy(ck, repo, nf):
    enc = repo.func(P + "two_hot_encoding")
    enc_q = repo.canonical(f"{enc._module.name}.{enc.name}", enc)
    nf2 = NF(repo, inline_depth=2, no_inline={P + "two_hot_encoding", enc_q, f"{enc._module.name}.{enc.name}"})
    q = P + "two_hot_cross_entropy_loss"
    fn = repo.func(q)
    env = _env(repo, nf, fn)
    B, L, T = (env[x] for x in _roles(fn, q, 3))      # bins, logits, target: by position
    got = _ret(nf2, q, env)
    code = nf2.poly(ast.Call(func=ast.Name(id=enc.name, ctx=ast.Load()), args=[ast.Name(id=x, ctx=ast.Load()) for x in _roles(fn, q, 3)[::2]], keywords=[]), Scope(None, enc._module, env, q), None)
    # log-probabilities over the bin axis of (n_samples, n_bins) logits: axis -1 (the default of log_softmax) == axis 1
    lsm = [_lib(nf2, "log_softmax", L, axis=_c(-1)), _lib(nf2, "log_softmax", L), _lib(nf2, "log_softmax", L, _c(-1)), _lib(nf2, "log_softmax", L, axis=_c(1)), _lib(nf2, "log_softmax", L, _c(1))]
    inner = [code * x for x in lsm]
    wants = [-_lib(nf2, "sum", inner[0], axis=_c(-1))]

    def clamped(inn):
        """The summand in the order worlds of the log-probability against the constants it is compared with (min / max / clip around it):
        log p ranges over (-inf, 0], so every world with log p < 0 is realised by some logits.  -> (True | False | None, witness)"""
        lsm_atoms = {x.single_atom(): x for x in lsm if x.single_atom() is not None}
        consts, todo, seen = {Fraction(0)}, list(inn.atoms()), set()
        while todo:
            a = todo.pop()
            m_ = nf2.meta.get(a)
            if a in seen:
                continue
            seen.add(a)
            if a in lsm_atoms or not m_:
                continue
            if m_.get("fn", "").split(".")[-1] in ("minimum", "maximum", "clip", "min", "max") and not m_.get("kws"):
                for x in m_["args"]:
                    if x.is_const():
                        consts.add(x.const_value())
                    else:
                        todo.extend(x.atoms())
        lps = [lsm_atoms[a] for a in seen if a in lsm_atoms]
        if len(lps) != 1:
            return None, ""
        lp = lps[0]
        cs = sorted(consts)
        zero = cs.index(Fraction(0))
        model = OrderModel()
        # constants in their numeric order, log p <= 0
        model.cluster([_c(v) for v in cs] + [lp], constraint=lambda r: all(r[i] < r[i + 1] for i in range(len(cs) - 1)) and r[-1] <= r[zero])
        ok_all = True
        for w in model.worlds():
            val, want = model.value(w, nf2, inn), model.resolve(w, code * lp)
            if val == want:
                continue
            if _opaque(val) or not val.atoms() <= (code.atoms() | lp.atoms()):
                return None, ""
            if w[0][-1] < w[0][zero]:
                return False, f"differs where [{model.describe(w)}]: {val.canon()[:80]} instead of {want.canon()[:80]}"
            ok_all = False
        return (True, "") if ok_all else (None, "")

    def pieces(g):
        r = _read_reduction(nf2, g)
        if r is None:
            return None
        c, red, inn, axis, keep = r
        sm, wit = _piece(inn, inner, ("softmax",)), ""
        if sm is None:
            sm, wit = clamped(inn)
        return {"sign / factor": c == -1, "reduction": red == "sum", "axis": _last_axis(axis, 2), "keepdims": _flag(keep, (None, 0), ()),
                "summand" + (f" ({wit})" if wit else ""): sm}
    _decide(ck, "R2-cross-entropy", q, "formula", got, wants, pieces, "must be -sum(two_hot(target) * log_softmax(logits), last axis)", loc(fn._module, fn), ("softmax",))


def _r2_decoding(ck, repo, nf):
    q = P + "two_hot_decoding"
    fn = repo.func(q)
    env = _env(repo, nf, fn)
    B, E = (env[x] for x in _roles(fn, q, 2))         # bins, encoded rows: by position
    got = _ret(nf, q, env)
    # (n_samples, n_bins) rows times (n_bins,) edges: the edges broadcast along the last axis with or without an explicit leading axis
    inner = [E * B] + [E * _sub(B, i) for i in ("None", "jax.numpy.newaxis", "numpy.newaxis", "None, :", "jax.numpy.newaxis, :", "numpy.newaxis, :")]
    wants = [_lib(nf, "sum", inner[0], axis=_c(-1))]
    # a matrix-vector product is the same contraction over the last axis
    wants += [Poly.atom(f"matmult({E.canon()}, {B.canon()})"), _lib(nf, "dot", E, B), _lib(nf, "matmul", E, B)]

    def pieces(g):
        r = _read_reduction(nf, g)
        if r is None:
            return None
        c, red, inn, axis, keep = r
        return {"factor": c == 1, "reduction": red == "sum", "axis": _last_axis(axis, 2), "keepdims": _flag(keep, (None, 0), ()), "summand": _piece(inn, inner)}
    _decide(ck, "R2-cross-entropy", q, "decoding", got, wants, pieces, "decoding must be the bin-weighted sum over the last axis", loc(fn._module, fn))


# ---- symbolic shapes of array-valued normal forms --------------------------------------------------------------------
_NEWAXIS = ("None", "jax.numpy.newaxis", "numpy.newaxis")
_SAME_SHAPE = {"tanh", "exp", "log", "log1p", "sqrt", "abs", "absolute", "square", "negative", "sigmoid", "softplus", "relu", "sign", "floor", "ceil", "round",
               "asarray", "array", "copy", "astype", "isfinite", "isnan", "logical_not", "nan_to_num", "float32", "int32"}
_BROADCAST = {"clip", "minimum", "maximum", "where", "select", "Lt", "LtE", "Eq", "NotEq", "logical_and", "logical_or", "fmin", "fmax"}


def _bcast(a, b):
    n = max(len(a), len(b))
    a, b, out = (1,) * (n - len(a)) + tuple(a), (1,) * (n - len(b)) + tuple(b), []
    for x, y in zip(a, b):
        if x == 1 or x == y:
            out.append(y)
        elif y == 1:
            out.append(x)
        else:
            return None
    return tuple(out)


def _shape(nf, p: Poly, dims: dict, texts: dict, sym, depth: int = 0):
    """Shape of an array-valued normal form as a tuple of dimension symbols (1: broadcast axis), () for a scalar, None when a building block
    is not read.  `dims`: parameter -> documented shape; `texts`: canonical text -> Poly for values that occur as text inside atom names (the
    index of a subscript, a denominator); `sym`: length Poly -> dimension symbol."""
    if p is None or p.elems is not None or depth > 14:
        return None
    out = ()
    for mono in p.terms:
        for a, _k in mono:
            s_ = _shape_atom(nf, a, dims, texts, sym, depth + 1)
            out = _bcast(out, s_) if s_ is not None else None
            if out is None:
                return None
    return out


def _shape_atom(nf, a: str, dims, texts, sym, depth):
    if a in dims:
        return dims[a]
    if a in texts and texts[a].single_atom() != a:
        return _shape(nf, texts[a], dims, texts, sym, depth)
    m = nf.meta.get(a)
    if not m:
        return None
    fn_, args, kws = m.get("fn", "").split(".")[-1], m.get("args", []), m.get("kws", {})
    sub = lambda x: _shape(nf, x, dims, texts, sym, depth)
    if _length_operand(nf, Poly.atom(a)) is not None or (fn_ == "attr" and a.endswith((".size", ".ndim"))):
        return ()                        # a length / a size: an integer
    if fn_ == "subscript" and len(args) == 1 and a.startswith(args[0].canon() + "[") and a.endswith("]"):
        bs = sub(args[0])
        if bs is None:
            return None
        out, i = [], 0
        for part in (t.strip() for t in _top_level_split(a[len(args[0].canon()) + 1:-1], ",")):
            if part in _NEWAXIS:
                out.append(1)
                continue
            if i >= len(bs):
                return None
            if part == ":":
                out.append(bs[i])
            elif re.fullmatch(r"-?\d+", part):
                pass                     # an integer index removes the axis
            else:
                # an index array selects along this axis: the axis is replaced by the shape of the index (one index array only)
                s_ = _shape_atom(nf, part, dims, texts, sym, depth + 1) if (part in texts or part in nf.meta or part in dims) else None
                if s_ is None or any(isinstance(x, tuple) for x in out):
                    return None
                out.append(tuple(s_))
            i += 1
        flat = []
        for x in out:
            flat.extend(x if isinstance(x, tuple) else [x])
        return tuple(flat) + tuple(bs[i:])
    if "at" in m:
        return sub(m["at"]["base"])      # a functional update has the shape of its base
    if fn_ in _SAME_SHAPE and len(args) >= 1:
        return sub(args[0])
    if fn_ in _BROADCAST and args and not kws:
        out = ()
        for x in args:
            s_ = sub(x)
            out = _bcast(out, s_) if s_ is not None and out is not None else None
        return out
    if fn_ in ("argmin", "argmax", "sum", "mean", "max", "min", "prod", "any", "all") and 1 <= len(args) <= 2 and set(kws) <= {"axis", "keepdims"} and not (len(args) == 2 and "axis" in kws):
        s_ = sub(args[0])
        axis = args[1] if len(args) == 2 else kws.get("axis")
        keep = _flag(kws.get("keepdims"), (1,), (None, 0))
        if s_ is None or keep is None:
            return None
        if axis is None:
            return (1,) * len(s_) if keep else ()
        ax = axis.const_value() if axis.is_const() else None
        if ax is None or ax.denominator != 1 or not -len(s_) <= ax < len(s_):
            return None
        ax = int(ax) % len(s_)
        return s_[:ax] + ((1,) if keep else ()) + s_[ax + 1:]
    if fn_ == "searchsorted" and len(args) >= 2:
        return sub(args[1])
    if fn_ == "arange" and len(args) == 1 and set(kws) <= {"dtype"}:
        return (sym(args[0]),)
    if fn_ in ("zeros", "ones", "empty", "full") and args:
        sh = args[0]
        return tuple(sym(x) for x in sh.elems) if sh.elems is not None else (sym(sh),)
    return None


def _length_operand(nf, p: Poly):
    """p == W.shape[k] | len(W) -> (W, k): the array and the axis whose length is taken; else None."""
    a = p.single_atom()
    m = nf.meta.get(a or "", {})
    k = re.search(r"\[(-?\d+)\]$", a or "")
    if m.get("fn") in ("proj", "subscript") and k and len(m.get("args", [])) == 1:
        s_ = m["args"][0].single_atom() or ""
        ms = nf.meta.get(s_, {})
        if ms.get("fn") == "attr" and s_.endswith(".shape") and len(ms.get("args", [])) == 1:
            return ms["args"][0], int(k.group(1))
    if m.get("fn", "").split(".")[-1] == "len" and len(m.get("args", [])) == 1 and not m.get("kws"):
        return m["args"][0], 0
    return None


# ---- R6 two-hot weights ----------------------------------------------------------------------------------------
def _r6_two_hot(ck, repo, nf):
    q = P + "two_hot_encoding"
    fn = repo.func(q)
    mi = fn._module
    cfg = nf.cfg_of(fn)
    env = _env(repo, nf, fn)
    PB, PX = _roles(fn, q, 2)          # bins, x: by position
    BN, X = env[PB], env[PX]
    sc = Scope(cfg, mi, env, q)
    spec = Scope(None, mi, env, q)
    got = _ret(nf, q, env)
    # the functional updates the returned array went through ...
    chain, cur = [], got
    while cur.single_atom() is not None and "at" in nf.meta.get(cur.single_atom(), {}):
        chain.append(cur.single_atom())
        cur = nf.meta[cur.single_atom()]["at"]["base"]
    # ... and the same updates as written in this function (their index expressions are read there)
    writes = {}
    for n in cfg.nodes:
        if n.kind != "stmt" or n.ast is None:
            continue
        for c in ast.walk(n.ast):
            if isinstance(c, ast.Call) and isinstance(c.func, ast.Attribute) and isinstance(c.func.value, ast.Subscript) and isinstance(c.func.value.value, ast.Attribute) and c.func.value.value.attr == "at":
                a = nf.poly(c, sc, n.id).single_atom()
                m = nf.meta.get(a or "", {})
                if a is None or "at" not in m or a in writes:
                    continue
                idx = c.func.value.slice
                if isinstance(idx, ast.Tuple) and len(idx.elts) == 2:
                    row, col = (nf.poly(x, sc, n.id) for x in idx.elts)
                else:
                    pi = nf.poly(idx, sc, n.id)
                    row, col = pi.elems if pi.elems is not None and len(pi.elems) == 2 else (None, None)
                writes[a] = (n, row, col, m["args"][0] if len(m.get("args", [])) == 1 and not m.get("kws") else None, m["at"]["op"])
    if len(chain) != 2 or set(chain) != set(writes) or any(r is None or v is None or op != "set" for (_n, r, _c2, v, op) in writes.values()):
        raise AnalysisError(f"{q}: expected the result to be built by two `.at[rows, idx].set(weight)` writes of this function, found {len(chain)} on the result / {len(writes)} written (unrecognised form)")
    (na, ra, ca, va, _o1), (nb, rb, cb, vb, _o2) = (writes[a] for a in reversed(chain))     # in the order they are applied
    if _opaque(ra, rb, ca, cb, va, vb):
        raise AnalysisError(f"{q}: an index or weight of the two writes is not resolved: `{ca.canon()[:60]}` / `{cb.canon()[:60]}` / `{va.canon()[:60]}` / `{vb.canon()[:60]}` (unrecognised form)")
    lasts = [nf.poly(parse_expr(t.format(b=PB)), spec, None) for t in ("{b}.shape[0] - 1", "len({b}) - 1", "{b}.size - 1", "{b}.shape[-1] - 1")]

    def strip(cidx):
        """clip(i, 0, last) / minimum(i, last) -> (i, True); another bound -> (index as written, None: bound not read); unclipped -> (index, False)"""
        m = nf.meta.get(cidx.single_atom() or "", {})
        f_, args = m.get("fn", "").split(".")[-1], m.get("args", [])
        if f_ == "clip" and len(args) == 3 and not m.get("kws"):
            raw = [x for x in args[:2] if not (x.is_const() and x.const_value() == 0)]
            if len(raw) == 1 and args[2] in lasts:
                return raw[0], True
            return cidx, None
        if f_ == "minimum" and len(args) == 2 and not m.get("kws"):
            raw = [x for x in args if x not in lasts]
            return (raw[0], True) if len(raw) == 1 else (cidx, None)
        return cidx, False
    (sa, ka), (sb, kb) = strip(ca), strip(cb)

    # index worlds of a binary-search lookup: for sorted, strictly increasing edges b[0] < ... < b[L] the library call searchsorted(b, x, side)
    # is known in every position of x relative to the edges; the two column indices (integer arithmetic, min / max / clip against 0 and the
    # last index) are evaluated in each position for small L.  A position in which they are not the two ends of a bin that contains x is a
    # counterexample (positive evidence); without a counterexample nothing is concluded here.
    blen_atoms = {t.format(b=PB) for t in ("{b}.shape[0]", "len({b})", "{b}.size", "{b}.shape[-1]")}

    def concrete(p_, left, right, L):
        tot = Fraction(0)
        for mono, c in p_.terms.items():
            v = Fraction(c)
            for a, k_ in mono:
                m_ = nf.meta.get(a, {})
                f_, args = m_.get("fn", "").split(".")[-1], m_.get("args", [])
                if a in blen_atoms:
                    x_ = Fraction(L + 1)
                elif f_ == "searchsorted" and len(args) >= 2 and args[0] == BN and args[1] == X and set(m_.get("kws", {})) <= {"side"}:
                    side = args[2] if len(args) > 2 else m_["kws"].get("side")
                    side = "'left'" if side is None else side.canon()
                    if side not in ("'left'", "'right'"):
                        raise Unknown(a)
                    x_ = Fraction(left if side == "'left'" else right)
                elif f_ == "digitize" and len(args) == 2 and args[0] == X and args[1] == BN and set(m_.get("kws", {})) <= {"right"}:
                    # digitize(x, b) == searchsorted(b, x, side='right'); right=True: side='left' (increasing edges)
                    r_ = m_.get("kws", {}).get("right")
                    if r_ is not None and not r_.is_const():
                        raise Unknown(a)
                    x_ = Fraction(left if (r_ is not None and r_.const_value() != 0) else right)
                elif f_ in ("minimum", "maximum", "min", "max") and len(args) == 2 and not m_.get("kws"):
                    x_ = (min if f_.startswith("min") else max)(concrete(t, left, right, L) for t in args)
                elif f_ == "clip" and len(args) == 3 and not m_.get("kws"):
                    x0, x1, x2 = (concrete(t, left, right, L) for t in args)
                    x_ = min(max(x0, x1), x2)
                else:
                    raise Unknown(a)
                if x_ == 0 and k_ < 0:
                    raise Unknown(a)
                v *= x_ ** k_
            tot += v
        return tot

    e3 = {**env, "CA": ca, "CB": cb}
    edge_a, edge_b = (nf.poly(parse_expr(f"{PB}[{i}]"), Scope(None, mi, e3, q), None) for i in ("CA", "CB"))
    same_edge = Poly.atom("E")
    quot = {f"({(edge_b - edge_a).canon()})": edge_b - edge_a, f"({(edge_a - edge_b).canon()})": edge_a - edge_b}

    def collapse(p_, depth=0):
        """Value of a weight where both column indices select the same edge E and x == E; ZeroDivisionError: it divides by the (zero) width."""
        if depth > 10 or p_.elems is not None:
            raise Unknown(p_.canon())
        tot = Poly.const(0)
        for mono, c in p_.terms.items():
            term = Poly.const(c)
            for a, k_ in mono:
                v = collapse_atom(a, depth + 1)
                if k_ < 0 and v.is_zero():
                    raise ZeroDivisionError(a)
                if k_ < 0 and not v.is_const():
                    raise Unknown(a)
                term = term * (v.pow(k_) if k_ > 0 else Poly.const(1 / v.const_value() ** (-k_)))
            tot = tot + term
        return tot

    def collapse_atom(a, depth):
        if a in (PX, edge_a.single_atom(), edge_b.single_atom()):
            return same_edge
        if a in quot:
            return collapse(quot[a], depth)
        m_ = nf.meta.get(a, {})
        f_, args = m_.get("fn", "").split(".")[-1], m_.get("args", [])
        if m_.get("kws"):
            raise Unknown(a)
        if f_ in ("where", "select") and len(args) == 3:
            c_ = nf.meta.get(args[0].single_atom() or "", {})
            if c_.get("fn") not in ("Lt", "LtE", "Eq", "NotEq") or len(c_.get("args", [])) != 2:
                raise Unknown(a)
            d_ = collapse(c_["args"][0], depth) - collapse(c_["args"][1], depth)
            if not d_.is_const():
                raise Unknown(a)
            dv = d_.const_value()
            return collapse(args[1] if {"Lt": dv < 0, "LtE": dv <= 0, "Eq": dv == 0, "NotEq": dv != 0}[c_["fn"]] else args[2], depth)
        if f_ in ("minimum", "maximum", "min", "max") and len(args) == 2:
            x0, x1 = (collapse(t, depth) for t in args)
            if x0 == x1:
                return x0
            if x0.is_const() and x1.is_const():
                return Poly.const((min if f_.startswith("min") else max)(x0.const_value(), x1.const_value()))
        raise Unknown(a)

    def index_worlds():
        bad = {}
        for L in (1, 2, 3, 4):
            # (description, searchsorted left, right, admissible lower indices)
            pos = [(f"x == {PB}[0]", 0, 1, {0}), (f"x == {PB}[{L}] (the highest of {L + 1} edges)", L, L + 1, {L - 1})]
            pos += [(f"{PB}[{j}] < x < {PB}[{j + 1}] ({L + 1} edges)", j + 1, j + 1, {j}) for j in range(L)]
            pos += [(f"x == {PB}[{j}] ({L + 1} edges)", j, j + 1, {j - 1, j}) for j in range(1, L)]
            for txt, le, ri, admissible in pos:
                i_, u_ = concrete(ca, le, ri, L), concrete(cb, le, ri, L)
                lo_, up_ = min(i_, u_), max(i_, u_)
                if i_ == u_:
                    # one column receives both writes: what stays is the weight written last, evaluated where both edges are the same edge
                    # E and x == E (a value on that edge is encoded by the single weight 1)
                    if i_ not in (admissible | {a_ + 1 for a_ in admissible}) or not 0 <= i_ <= L:
                        bad.setdefault("bracketing-bin", (f"{txt}: both writes go to column {i_}", "the edge written is not an end of the bin that contains the value"))
                        continue
                    try:
                        last = collapse(vb)
                        if last != _c(1):
                            bad.setdefault("adjacent-indices", (f"{txt}: both writes go to column {i_}; the weight written last is {last.canon()[:60]} there",
                                                                "for this value the two indices coincide: the second write overwrites the first and the row does not sum to one"))
                    except ZeroDivisionError:
                        bad.setdefault("adjacent-indices", (f"{txt}: both writes go to column {i_}; the weight written last divides by the width 0 of the empty bin",
                                                            "for this value the two indices coincide and the interpolation weight is 0/0: the row is NaN"))
                    except Unknown:
                        unread.append(txt)
                elif up_ - lo_ != 1:
                    bad.setdefault("adjacent-indices", (f"{txt}: columns {i_} and {u_}", "the two non-zero entries must be adjacent"))
                elif lo_ not in admissible or not 0 <= lo_ < up_ <= L:
                    bad.setdefault("bracketing-bin", (f"{txt}: columns {lo_} and {up_}", "the two edges written must enclose the value (otherwise a weight is negative or the row leaves the array)"))
        return bad if bad or not unread else None      # a coinciding pair whose last weight is not read: nothing concluded
    unread = []
    try:
        worlds_bad = index_worlds()
    except Unknown:
        worlds_bad = None        # not a binary-search lookup over (bins, x): the edge search is not decided
    if worlds_bad:
        for key_, (shown_, why_) in sorted(worlds_bad.items()):
            ck.ob("R6-two-hot-weights", q, key_, False, shown_, why_, loc(mi, nb.ast), witness=[shown_])
    elif worlds_bad is not None:
        ck.ob("R6-two-hot-weights", q, "bracketing-bin", True, f"binary-search lookup: lower idx {ca.canon()[:80]}, upper idx {cb.canon()[:80]} enclose x in every position for 2..5 edges", "", loc(mi, nb.ast))
    # adjacency: the two column indices differ by the constant one (an index may be clipped to the last bin; for values inside the bin
    # range the clip never binds)
    k, as_written = None, False
    for x, y in ((ca, cb), (sa, sb), (ca, sb), (sa, cb)):
        dd = y - x
        if dd.is_const():
            k, as_written = dd.const_value(), x is ca and y is cb
            break
    where2 = loc(mi, nb.ast)
    shown = f"column indices {ca.canon()[:70]} / {cb.canon()[:70]}"
    if k is None:
        def search(p):
            """index == searchsorted(bins, x, side) + const -> side"""
            ats = [a for a in p.atoms() if nf.meta.get(a, {}).get("fn", "").split(".")[-1] == "searchsorted"]
            if len(ats) != 1 or not (p - Poly.atom(ats[0])).is_const():
                return None
            m = nf.meta[ats[0]]
            if len(m["args"]) < 2 or m["args"][0] != BN or m["args"][1] != X:
                return None
            side = m["args"][2] if len(m["args"]) > 2 else m["kws"].get("side")
            return "'left'" if side is None else side.canon()
        sides = (search(sa), search(sb))
        if None not in sides and sides[0] != sides[1] and set(sides) <= {"'left'", "'right'"}:
            # known library semantics: for x on an exact bin edge the right-sided search is one larger than the left-sided one, elsewhere they agree
            ck.ob("R6-two-hot-weights", q, "adjacent-indices", False, shown, "the two indices come from independent left / right searches: their distance is one smaller for x exactly on a bin edge than elsewhere, so "
                  "they cannot be adjacent for every x (adjacent off the edges means the same column on an edge: the second write overwrites the first)", where2, witness=[f"x == {PB}[j]: searchsorted(side='right') == searchsorted(side='left') + 1"])
            return
        raise AnalysisError(f"{q}: the two column indices `{ca.canon()[:70]}` / `{cb.canon()[:70]}` are not related by a constant offset (unrecognised form)")
    if None in (ka, kb) and not as_written and not (worlds_bad is not None and not worlds_bad):
        raise AnalysisError(f"{q}: clipping bound of a column index `{ca.canon()[:70]}` / `{cb.canon()[:70]}` not read (unrecognised form)")
    if k < 0:
        (na, ra, ca, va), (nb, rb, cb, vb), k = (nb, rb, cb, vb), (na, ra, ca, va), -k
    # from here: a = lower edge, b = upper edge
    ok = k == 1
    if not (worlds_bad and "adjacent-indices" in worlds_bad):
        ck.ob("R6-two-hot-weights", q, "adjacent-indices", ok, f"lower idx = {ca.canon()[:60]}, upper idx = {cb.canon()[:80]}", "" if ok else f"the upper index must be lower+1 (adjacent non-zero entries), the two indices differ by {k}", where2)
    # weights: with D = bins[up] - bins[lo] the documented upper weight is (x - bins[lo]) / D; comparisons are made after multiplying by D
    e2 = {**env, "LO": ca, "UP": cb}
    lo_edge, up_edge = (nf.poly(parse_expr(f"{PB}[{i}]"), Scope(None, mi, e2, q), None) for i in ("LO", "UP"))
    D = up_edge - lo_edge
    want_w = (X - lo_edge) * D.inv()

    # rows: one per sample.  The number of samples may be taken from x or from any per-sample array derived from it (a length W.shape[0] /
    # len(W) is read through the symbolic shape of W under the documented shapes x: (n_samples,), bins: (n_bin_edges,))
    xlens = [nf.poly(parse_expr(t.format(x=PX)), spec, None) for t in ("{x}.shape[0]", "len({x})", "{x}.size", "{x}.shape[-1]")]
    blens = [nf.poly(parse_expr(t.format(x=PB)), spec, None) for t in ("{x}.shape[0]", "len({x})", "{x}.size", "{x}.shape[-1]")]
    rows = [_lib(nf, "arange", r_) for r_ in xlens]
    texts = {f"({D.canon()})": D, f"({(-D).canon()})": D, ca.canon(): ca, cb.canon(): cb}

    def sym(length):
        return "N" if length in xlens else "B" if length in blens else length.canon()

    def row_norm(r_):
        m_ = nf.meta.get(r_.single_atom() or "", {})
        if m_.get("fn", "").split(".")[-1] != "arange" or len(m_.get("args", [])) != 1 or not set(m_.get("kws", {})) <= {"dtype"}:
            return r_
        w_ = _length_operand(nf, m_["args"][0])
        sh = _shape(nf, w_[0], {PX: ("N",), PB: ("B",)}, texts, sym) if w_ is not None else None
        d_ = sh[w_[1]] if sh and -len(sh) <= w_[1] < len(sh) else None
        return rows[0] if d_ == "N" else _lib(nf, "arange", blens[0]) if d_ == "B" else r_
    ra, rb = row_norm(ra), row_norm(rb)
    vr = [_piece(r_, rows, (PB,)) for r_ in (ra, rb)]
    if None in vr:
        raise AnalysisError(f"{q}: row indices `{ra.canon()[:60]}` / `{rb.canon()[:60]}` of the two writes (unrecognised form)")
    ok = all(vr)
    ck.ob("R6-two-hot-weights", q, "one-row-per-sample", ok, f"rows {ra.canon()[:100]} / {rb.canon()[:100]}", "" if ok else "each sample writes into its own row", loc(mi, na.ast))

    def times_d(p):
        """p * D with the quotient atoms (D)^-1 / (-D)^-1 cancelled"""
        sym = Poly.atom("§D")
        p2 = p.subst({f"({D.canon()})": sym, f"({(-D).canon()})": -sym}) * sym
        return p2.subst({"§D": D})

    def only_edges(p):
        """the weight is written with x and the two selected bin edges alone (the index expressions inside the edges are abstracted)"""
        txt = p.canon().replace(up_edge.canon(), "UPPER").replace(lo_edge.canon(), "LOWER")
        return not _opaque(p) and set(re.findall(r"[A-Za-z_][A-Za-z_0-9]*", txt)) <= {PX, "UPPER", "LOWER"}
    if worlds_bad is not None and not worlds_bad and k == 1:
        # the binary-search lookup selects two different, adjacent edges in every position: the width D of the bin is positive, and guards
        # against an empty bin (where(D > 0, ., .), maximum(D, 0) ...) are resolved in that one world
        wm = OrderModel()
        wm.cluster([_c(0), D], constraint=lambda r: r[0] < r[1])
        for w0 in wm.worlds():
            va, vb = wm.value(w0, nf, va), wm.value(w0, nf, vb)
    tot = va + vb
    ok = tot == _c(1) or times_d(tot) == D
    if not ok and not only_edges(tot):
        raise AnalysisError(f"{q}: sum of the two written weights `{tot.canon()[:100]}` (unrecognised form)")
    ck.ob("R6-two-hot-weights", q, "weights-sum-to-one", ok, f"w_lo + w_up = {tot.canon()[:80]}", "" if ok else "the two written weights must sum to one", loc(mi, na.ast))
    ok = vb == want_w or times_d(vb) == X - lo_edge
    if not ok and not only_edges(vb):
        raise AnalysisError(f"{q}: upper weight `{vb.canon()[:100]}` is not written with x and the two bin edges (unrecognised form)")
    ck.ob("R6-two-hot-weights", q, "interpolation-weight", ok, f"w = {vb.canon()[:120]}", "" if ok else "w must be (x - lower edge) / (upper edge - lower edge): then (1-w)*lower + w*upper decodes to x", where2)
    ck.note("two_hot_encoding: the lower-edge search `argmin(diff - 1e8*(sign(diff)-1))` over float differences is not decided (DESIGN: not decided)")


# ---- R3 avg-l1 ---------------------------------------------------------------------------------------------------
def _r3_avg_l1(ck, repo, nf):
    q = "rl_blox.blox.function_approximator.norm.avg_l1_norm"
    fn = repo.func(q)
    env = _env(repo, nf, fn)
    PX, PEPS = _roles(fn, q, 2)        # x, eps: by position (positional or keyword-only)
    X, EPS = env[PX], env[PEPS]
    got = _ret(nf, q, env)
    absx = _lib(nf, "abs", X)
    wants = [X * _lib(nf, "maximum", _lib(nf, "mean", absx, axis=_c(-1), keepdims=_c(1)), EPS).inv()]

    def pieces(g):
        if len(g.terms) != 1:
            return None
        (mono, c), = g.terms.items()
        den = [a for a, k_ in mono if k_ == -1]
        if c != 1 or len(mono) != 2 or len(den) != 1 or (PX, 1) not in mono:
            return None
        m = nf.meta.get(den[0], {})
        if m.get("fn", "").split(".")[-1] != "maximum" or len(m.get("args", [])) != 2 or m.get("kws") or EPS not in m["args"]:
            return None
        scale = [a for a in m["args"] if a != EPS]
        if len(scale) != 1:
            return None
        r = _read_reduction(nf, scale[0])
        if r is None:
            ms = nf.meta.get(scale[0].single_atom() or "", {})
            if ms.get("fn") == "pow" and len(ms.get("args", [])) == 2 and ms["args"][1] == _c(Fraction(1, 2)) and _read_reduction(nf, ms["args"][0]) is not None:
                return {"scale (root of a mean of squares: an L2 / RMS scale, not the mean absolute value)": False}
            return {"scale": None}
        c2, red, inn, axis, keep = r
        return {"factor": c2 == 1, "reduction (mean)": red == "mean", "axis": _last_axis(axis, None), "keepdims": _flag(keep, (1,), (None, 0)), "averaged quantity |x|": _piece(inn, [absx])}
    _decide(ck, "R3-avg-l1", q, "formula", got, wants, pieces, "must be x / max(mean|x| (last axis, keepdims), eps)", loc(fn._module, fn))


def _r3_eps_default(ck, repo, nf):
    q = "rl_blox.blox.function_approximator.norm.avg_l1_norm"
    fn = repo.func(q)
    PX, PEPS = _roles(fn, q, 2)
    a = fn.args
    pos = a.posonlyargs + a.args
    dflt = dict(zip([x.arg for x in pos[len(pos) - len(a.defaults):]], a.defaults))
    dflt.update({x.arg: d_ for x, d_ in zip(a.kwonlyargs, a.kw_defaults) if d_ is not None})
    if PEPS not in dflt:
        raise AnalysisError(f"{q}: `{PEPS}` has no default (unrecognised form)")
    dv = nf.poly(dflt[PEPS], Scope(None, fn._module), None)       # literal or module-level constant
    if not dv.is_const():
        raise AnalysisError(f"{q}: default of `{PEPS}` is `{dv.canon()[:60]}`, not a constant (unrecognised form)")
    ok = 0 < dv.const_value() <= Fraction(1, 10 ** 6)
    ck.ob("R3-avg-l1", q, "eps-default", ok, f"{PEPS} = {float(dv.const_value())}", "" if ok else "a small positive eps keeps the result finite for near-zero input", loc(fn._module, fn))


# ---- R4 schedule -----------------------------------------------------------------------------------------------------
def _top_level_split(txt: str, sep: str):
    parts, depth, cur = [], 0, ""
    for ch in txt:
        depth += ch in "([{"
        depth -= ch in ")]}"
        if ch == sep and depth == 0:
            parts.append(cur)
            cur = ""
        else:
            cur += ch
    return parts + [cur]


class _Order(OrderModel):
    """Order model whose sign lookup first divides a difference by the atoms that are declared positive (a common positive factor or
    denominator does not change a sign): sign(j*(end - start)/k) == sign(end - start) for j, k > 0."""

    def sign(self, world, d: Poly, _depth: int = 0) -> int:
        d = self.resolve(world, d)
        if d.terms and not d.is_const():
            for a in sorted(self.pos_atoms & d.atoms()):
                lo = min(dict(mono).get(a, 0) for mono in d.terms)
                if lo:
                    d = d * Poly({((a, -lo),): Fraction(1)})
            if d.terms and all(a in self.pos_atoms for mono in d.terms for a, _k in mono) and len({c > 0 for c in d.terms.values()}) == 1:
                return 1 if next(iter(d.terms.values())) > 0 else -1       # a sum of products of positive quantities, all of one sign
        return super().sign(world, d, _depth)


_K, _J = "k__last", "j__after"     # index of the last transition step (n - 1); distance (>= 1) of an index after the transition from it


def _r4_schedule(ck, repo, nf):
    q = "rl_blox.blox.schedules.linear_schedule"
    fn = repo.func(q)
    mi = fn._module
    env0 = _env(repo, nf, fn)
    PT, PS, PEN, PF = _roles(fn, q, 4)       # total_timesteps, start, end, fraction: by position
    TT, ST, EN = (env0[x] for x in (PT, PS, PEN))
    idents0 = set(re.findall(r"[A-Za-z_][A-Za-z_0-9]*", nf.poly(parse_expr(f"int({PT} * {PF})"), Scope(None, mi, env0, q), None).canon()))
    # the transition count n = int(total * fraction) is given a name of its own: fraction := (k + 1) / total, so that n == k + 1 and the index of
    # the last transition step is the atom k (closed forms divide by n - 1)
    K, J = Poly.atom(_K), Poly.atom(_J)
    env = dict(env0)
    named = env0[PF].single_atom() == PF and TT.single_atom() == PT
    if named:
        env[PF] = (K + _c(1)) * TT.inv()
    n_want = nf.poly(parse_expr(f"int({PT} * {PF})"), Scope(None, mi, env, q), None)
    facts = {"lengths": [], "counts": [], "indexed": False}

    def mk(fn_, *a):
        return nf._mkcall(fn_, list(a), {})

    def elem(p, kind):
        """Element of an array-valued normal form at the first / last index of the transition or at an index after it."""
        out = Poly.const(0)
        for mono, c in p.terms.items():
            term = Poly.const(c)
            for a, k in mono:
                term = term * elem_atom(a, kind).pow(k)
            out = out + term
        return out

    def elem_atom(a, kind):
        m = nf.meta.get(a)
        if m is None:
            if a in env or a in (_K, _J):
                return Poly.atom(a)      # scalar parameter
            if a.startswith("(") and a.endswith(")"):
                # the atom of a quotient: 1 / (sum of terms); its terms are read like any other value
                try:
                    inner = nf.poly(parse_expr(a), Scope(None, mi, {**env, _K: K, _J: J}, q), None)
                except Exception:
                    raise Unknown(a)
                if inner.canon() == a[1:-1]:
                    e_ = elem(inner, kind)
                    return e_ if len(e_.terms) == 1 else Poly.atom(f"({e_.canon()})", e_.deps, e_.gdeps)
            raise Unknown(a)
        fn_ = m.get("fn", "").split(".")[-1]
        args = m.get("args", [])
        if "at" in m and m["at"]["op"] == "set" and len(args) == 1:
            idx = m["at"]["index"]
            bounds = _top_level_split(idx, ":")
            if len(_top_level_split(idx, ",")) != 1 or len(bounds) != 2 or bounds[0].strip() not in ("", "0") or not bounds[1].strip():
                raise Unknown(a)         # only a prefix slice [:n] is read
            facts["counts"].append(bounds[1].strip())
            return elem(m["at"]["base"], kind) if kind == "tail" else elem(args[0], kind)
        kws = m.get("kws", {})
        shape = args[0] if args else kws.get("shape")          # the shape / fill value may be passed by keyword
        if fn_ in ("ones", "ones_like", "zeros", "zeros_like") and shape is not None:
            facts["lengths"].append(shape)
            return Poly.const(1 if fn_.startswith("ones") else 0)
        fill = args[1] if len(args) >= 2 else kws.get("fill_value")
        if fn_ == "full" and shape is not None and fill is not None:
            facts["lengths"].append(shape)
            return fill
        if fn_ == "arange" and len(args) == 1 and set(kws) <= {"dtype"} and named:
            # the step index itself (closed-form schedules): 0, n - 1, and an index n - 1 + j (j >= 1) behind the transition
            facts["lengths"].append(args[0])
            facts["indexed"] = True
            return Poly.const(0) if kind == "first" else K if kind == "last" else K + J
        # a library schedule applied to the step indices (directly or through vmap): optax.linear_schedule(init_value, end_value,
        # transition_steps) is init + (end - init) * clip(count / transition_steps, 0, 1), and the constant init_value when transition_steps <= 0
        f_txt = m.get("fn", "")
        sched = nf.meta.get(f_txt[5:-1] if f_txt.startswith("vmap(") and f_txt.endswith(")") else f_txt)
        if sched is not None and sched is not m and sched.get("fn", "").split(".")[-1] == "linear_schedule" and len(args) == 1 and not kws:
            bound = dict(zip(("init_value", "end_value", "transition_steps", "transition_begin"), sched.get("args", [])))
            if set(bound) & set(sched.get("kws", {})) or not set(sched.get("kws", {})) <= {"init_value", "end_value", "transition_steps", "transition_begin"}:
                raise Unknown(a)
            bound.update(sched.get("kws", {}))
            begin = bound.get("transition_begin", Poly.const(0))
            if not {"init_value", "end_value", "transition_steps"} <= set(bound) or not (begin.is_const() and begin.const_value() == 0):
                raise Unknown(a)
            i0, e0, st0 = (elem(bound[x], kind) for x in ("init_value", "end_value", "transition_steps"))
            count = elem(args[0], kind)
            if len(st0.terms) != 1:
                raise Unknown(a)         # a quotient by a sum is not placed in the order model
            ramp = i0 + (e0 - i0) * mk("clip", count * st0.inv(), Poly.const(0), Poly.const(1))
            pos_name = f"Lt(0, {st0.canon()})"
            nf.meta.setdefault(pos_name, {"deps": st0.deps, "gdeps": frozenset(), "fn": "Lt", "args": [Poly.const(0), st0], "kws": {}})
            return mk("where", Poly.atom(pos_name, st0.deps), ramp, i0)
        ep = m.get("kws", {}).get("endpoint")
        if fn_ == "linspace" and len(args) >= 3 and kind in ("first", "last") and (ep is None or (ep.is_const() and ep.const_value() == 1)):
            facts["counts"].append(args[2].canon())
            return args[0] if kind == "first" else args[1]
        if fn_ == "clip" and len(args) == 3 and not m.get("kws"):
            return mk("minimum", mk("maximum", elem(args[0], kind), elem(args[1], kind)), elem(args[2], kind))
        if fn_ in ("minimum", "maximum", "min", "max") and len(args) == 2 and not kws:
            return mk(fn_, elem(args[0], kind), elem(args[1], kind))
        if fn_ in ("where", "select") and len(args) == 3 and not kws:
            return mk("where", *(elem(x, kind) for x in args))
        if fn_ in ("Lt", "LtE", "Eq", "NotEq") and len(args) == 2 and m.get("fn") == fn_:
            x, y = (elem(t, kind) for t in args)
            name = f"{fn_}({x.canon()}, {y.canon()})"
            nf.meta.setdefault(name, {"deps": x.deps | y.deps, "gdeps": frozenset(), "fn": fn_, "args": [x, y], "kws": {}})
            return Poly.atom(name, x.deps | y.deps)
        raise Unknown(a)

    # the value(s) returned: one return statement, or one per path (guard clauses, conditional writes)
    class _One:
        conds, ret = [], None
    gotp = None
    try:
        gotp = nf.return_poly(q, env)
    except ValueError:
        pass
    if gotp is not None and not _opaque(gotp):
        one = _One()
        one.ret = gotp
        summaries = [one]
    else:
        from ..sem import summarise_paths
        try:
            summaries = [sm for sm in summarise_paths(nf, nf.cfg_of(fn), mi, q, env, {}) if sm.ret is not None]
        except (RuntimeError, ValueError) as e:
            raise AnalysisError(f"{q}: paths not enumerated: {e} (unrecognised form)")
        if not summaries or any(_opaque(sm.ret) for sm in summaries):
            raise AnalysisError(f"{q}: returned value(s) {[sm.ret.canon()[:60] for sm in summaries]} (unrecognised form)")
    shown = " | ".join(sorted({sm.ret.canon()[:120] for sm in summaries}))

    # worlds: both orders of {start, end}; the integer n = k + 1 in {0, 1, 2, > 2}; an index behind the transition at distance j = 1 or j > 1
    model = _Order()
    model.cluster([ST, EN])
    ck_ = model.cluster([_c(-1), _c(0), _c(1), K], constraint=lambda r: r[0] < r[1] < r[2] and (r[3] in r[:3] or r[3] > r[2]))
    model.cluster([_c(1), J], constraint=lambda r: r[0] <= r[1])
    model.positive(_K)      # symbolic only in the worlds k > 1 (elsewhere the world replaces it by its constant)
    model.positive(_J)
    from ..sem import eval_order_formula
    why = {"tail": "after the transition the schedule must hold `end`", "first": "the schedule must begin at `start` (whenever the transition spans at least one step)",
           "last": "the transition must arrive at `end`"}
    viol, unknown, okk = {}, {}, set()
    for w in model.worlds():
        rk = w[ck_]
        n_steps = 0 if rk[3] == rk[0] else 1 if rk[3] == rk[1] else 2       # 2: two or more
        try:
            active = [sm for sm in summaries if all(eval_order_formula(model, w, f) for f in sm.conds)]
        except Unknown as u:
            raise AnalysisError(f"{q}: branch condition over `{str(u)[:60]}` not placed in the order model [{model.describe(w)}] (unrecognised form)")
        if len(active) != 1:
            raise AnalysisError(f"{q}: {len(active)} paths enabled in the world [{model.describe(w)}] (unrecognised form)")
        for kind, want in (("tail", EN), ("first", ST), ("last", EN)):
            if (kind == "first" and n_steps < 1) or (kind == "last" and n_steps < 2):
                continue     # no transition step / the only transition step is the first one
            try:
                val = model.value(w, nf, elem(active[0].ret, kind))
                if model.resolve(w, val) == model.resolve(w, want):
                    okk.add(kind)
                    continue
                if val.atoms() <= {PS, PEN}:
                    differs = True     # a polynomial in start / end alone that is not the documented element: a different schedule
                else:
                    differs = model.sign(w, val - want) != 0      # a definite sign of the difference in this world
                if not differs:
                    okk.add(kind)
                    continue
                viol.setdefault(kind, (f"element ({kind}) = {val.canon()} in the world [{model.describe(w)}]", why[kind]))
            except Unknown as u:
                unknown.setdefault(kind, f"{str(u)[:60]} [{model.describe(w)}]")
    for kind in ("tail", "first", "last"):
        v = viol.get(kind)
        if v is None and (kind in unknown or kind not in okk):
            continue
        ck.ob("R4-schedule", q, f"element:{kind}", v is None, f"return {shown[:160]}" if v is None else v[0], "" if v is None else v[1], loc(mi, fn))
    und = [k for k in ("tail", "first", "last") if k not in viol and (k in unknown or k not in okk)]
    if und:
        raise AnalysisError(f"{q}: element-wise reading of `{shown[:100]}` stops at `{unknown.get(und[0], und[0])}` (unrecognised form)")
    # array length(s): total_timesteps (a scalar or a one-element shape); another expression in total_timesteps alone is a different length
    lens = facts["lengths"]
    if not lens:
        raise AnalysisError(f"{q}: no array constructor with a length read in `{shown[:100]}` (unrecognised form)")
    okl = all(x == TT or (x.elems is not None and len(x.elems) == 1 and x.elems[0] == TT) for x in lens)
    if not okl and any(_opaque(x) or not same_ingredients(x, TT) for x in lens):
        raise AnalysisError(f"{q}: array length(s) {sorted({x.canon()[:60] for x in lens})} (unrecognised form)")
    ck.ob("R4-schedule", q, "length", okl, f"array length(s) {sorted({x.canon() for x in lens})}", "" if okl else "the schedule must have total_timesteps entries", loc(mi, fn))
    cnts = sorted(set(facts["counts"]))
    if not cnts:
        if facts["indexed"]:
            return      # a closed form over the step index: the transition count is part of the element values read above
        raise AnalysisError(f"{q}: no transition (prefix slice / linspace count) read in `{shown[:100]}` (unrecognised form)")
    okc = cnts == [n_want.canon()]
    allowed = idents0 | {"int", _K}
    if not okc and any("φ(" in t or "⟦" in t or _TMP.search(t) or not set(re.findall(r"[A-Za-z_][A-Za-z_0-9]*", t)) <= allowed for t in cnts):
        raise AnalysisError(f"{q}: transition count(s) {[t[:60] for t in cnts]} (unrecognised form)")
    ck.ob("R4-schedule", q, "transition-steps", okc, f"transition count(s) {cnts}", "" if okc else "the transition spans exactly int(total_timesteps * fraction) steps (slice and linspace count agree)", loc(mi, fn))


# ---- R5 masked loss ------------------------------------------------------------------------------------------------------
def _r5_masked(ck, repo, nf):
    q = "rl_blox.blox.losses.masked_mse_loss"
    fn = repo.func(q)
    nf3 = NF(repo)
    nf3.expand_squares = False
    env = _env(repo, nf, fn)
    PP, PTG, PM = _roles(fn, q, 3)     # predictions, targets, mask: by position
    PR, TG, M = env[PP], env[PTG], env[PM]
    got = _ret(nf3, q, env)
    sq = nf3.square(PR - TG)
    # the (n_samples,) mask as a column (n_samples, 1) against (n_samples, n_features) errors
    cols = [_sub(M, i) for i in (":, jax.numpy.newaxis", ":, None", ":, numpy.newaxis", "Ellipsis, None", "Ellipsis, jax.numpy.newaxis", "Ellipsis, numpy.newaxis")]
    cols += [_lib(nf3, "expand_dims", M, _c(a_)) for a_ in (1, -1)] + [_lib(nf3, "expand_dims", M, axis=_c(a_)) for a_ in (1, -1)] + [_lib(nf3, "reshape", M, _c(-1), _c(1))]
    inner = [sq * c_ for c_ in cols]
    wants = [_lib(nf3, "mean", inner[0])]

    def pieces(g):
        r = _read_reduction(nf3, g)
        if r is None:
            return None
        c, red, inn, axis, keep = r
        return {"factor": c == 1, "reduction (mean)": red == "mean", "axis (none: over all entries)": True if axis is None else False if axis.is_const() else None, "keepdims": _flag(keep, (None, 0), ()), "averaged quantity": _piece(inn, inner)}
    _decide(ck, "R5-masked-loss", q, "formula", got, wants, pieces, "must be mean(squared_error(P, T) * mask[:, None])", loc(fn._module, fn))


def _r5_broadcast(ck, repo, nf):
    q = "rl_blox.blox.losses.masked_mse_loss"
    fn = repo.func(q)
    PP, PTG, PM = _roles(fn, q, 3)
    # shapes: unknowns never alarm, an alarm is a definite misalignment; an unknown result shape is not evidence
    se = ShapeEngine(repo)
    r = se.analyse(fn, fn._module, q, {PP: ("B", "F"), PTG: ("B", "F"), PM: ("B",)})
    if r is None and not se.alarms:
        raise AnalysisError(f"{q}: result shape under the documented shapes (B,F),(B,F),(B,) not inferred (unrecognised form)")
    ok = not se.alarms and r == ()
    ck.ob("R5-masked-loss", q, "per-sample-broadcast", ok, f"(B,F),(B,F),(B,) -> {r}; alarms {[(a[2]) for a in se.alarms]}", "" if ok else "; ".join(a[3] for a in se.alarms) or "result is not a scalar", loc(fn._module, fn))


_L, _P, _N, _S = "rl_blox/blox/losses.py", "rl_blox/blox/preprocessing.py", "rl_blox/blox/function_approximator/norm.py", "rl_blox/blox/schedules.py"
_SCHED_BODY = "    schedule = jnp.ones(total_timesteps) * end  # Default value after decay\n\n    schedule = schedule.at[:transition_steps].set(\n        jnp.linspace(start, end, transition_steps)\n    )\n\n    return schedule\n"
MUTANTS = [
    {"id": "c18-schedule-clipped", "file": _S, "rule": "R4", "find": "    return schedule\n", "replace": "    return jnp.clip(schedule, end, start)\n"},
    {"id": "c18-schedule-count-off", "file": _S, "rule": "R4", "find": "        jnp.linspace(start, end, transition_steps)", "replace": "        jnp.linspace(start, end, transition_steps + 1)[:-1]", "accept_error": True},
    {"id": "c18-huber-where-swapped", "file": _L, "rule": "R1", "find": "    quadratic = jnp.minimum(abs_errors, delta)\n    # Same as max(abs_x - delta, 0) but avoids potentially doubling gradient.\n    linear = abs_errors - quadratic\n    return 0.5 * quadratic**2 + delta * linear",
     "replace": "    return jnp.where(abs_errors > delta, 0.5 * abs_errors**2, delta * (abs_errors - 0.5 * delta))"},
    {"id": "c18-huber-linear-wrong", "file": _L, "rule": "R1", "find": "    return 0.5 * quadratic**2 + delta * linear", "replace": "    return 0.5 * quadratic**2 + delta * (abs_errors - delta)"},
    {"id": "c18-huber-no-half", "file": _L, "rule": "R1", "find": "    return 0.5 * quadratic**2 + delta * linear", "replace": "    return quadratic**2 + delta * linear"},
    {"id": "c18-huber-max", "file": _L, "rule": "R1", "find": "    quadratic = jnp.minimum(abs_errors, delta)", "replace": "    quadratic = jnp.maximum(abs_errors, delta)"},
    {"id": "c18-ce-sign", "file": _P, "rule": "R2", "find": "    return -jnp.sum(target * log_pred, axis=-1)", "replace": "    return jnp.sum(target * log_pred, axis=-1)"},
    {"id": "c18-ce-softmax", "file": _P, "rule": "R2", "find": "    log_pred = jax.nn.log_softmax(logits, axis=-1)", "replace": "    log_pred = jax.nn.softmax(logits, axis=-1)"},
    {"id": "c18-ce-axis", "file": _P, "rule": "R2", "find": "    return -jnp.sum(target * log_pred, axis=-1)", "replace": "    return -jnp.sum(target * log_pred, axis=0)"},
    {"id": "c18-decoding-mean", "file": _P, "rule": "R2", "find": "    return jnp.sum(two_hot_encoded * bins, axis=-1)", "replace": "    return jnp.mean(two_hot_encoded * bins, axis=-1)"},
    {"id": "c18-twohot-weights-swapped", "file": _P, "rule": "R6", "find": "    two_hot = two_hot.at[jnp.arange(x.shape[0]), ind_lo].set(1.0 - weight)\n    two_hot = two_hot.at[jnp.arange(x.shape[0]), ind_up].set(weight)", "replace": "    two_hot = two_hot.at[jnp.arange(x.shape[0]), ind_lo].set(weight)\n    two_hot = two_hot.at[jnp.arange(x.shape[0]), ind_up].set(1.0 - weight)"},
    {"id": "c18-twohot-upper-plus2", "file": _P, "rule": "R6", "find": "    ind_up = jnp.clip(ind_lo + 1, 0, bins.shape[0] - 1)", "replace": "    ind_up = jnp.clip(ind_lo + 2, 0, bins.shape[0] - 1)"},
    {"id": "c18-twohot-weight-denominator", "file": _P, "rule": "R6", "find": "    weight = (x - lower) / (upper - lower)", "replace": "    weight = (x - lower) / upper"},
    {"id": "c18-norm-axis0", "file": _N, "rule": "R3", "find": "jnp.mean(jnp.abs(x), axis=-1, keepdims=True)", "replace": "jnp.mean(jnp.abs(x), axis=0, keepdims=True)"},
    {"id": "c18-norm-l2", "file": _N, "rule": "R3", "find": "jnp.mean(jnp.abs(x), axis=-1, keepdims=True)", "replace": "jnp.sqrt(jnp.mean(x**2, axis=-1, keepdims=True))"},
    {"id": "c18-schedule-tail-start", "file": _S, "rule": "R4", "find": "    schedule = jnp.ones(total_timesteps) * end", "replace": "    schedule = jnp.ones(total_timesteps) * start"},
    {"id": "c18-schedule-reversed", "file": _S, "rule": "R4", "find": "        jnp.linspace(start, end, transition_steps)", "replace": "        jnp.linspace(end, start, transition_steps)"},
    {"id": "c18-schedule-length", "file": _S, "rule": "R4", "find": "    schedule = jnp.ones(total_timesteps) * end", "replace": "    schedule = jnp.ones(total_timesteps + 1) * end"},
    {"id": "c18-masked-mask-sum", "file": _L, "rule": "R5", "find": "    return jnp.mean(\n        optax.squared_error(predictions=predictions, targets=targets)\n        * mask[:, jnp.newaxis]\n    )", "replace": "    return jnp.mean(\n        optax.squared_error(predictions=predictions, targets=targets)\n        + mask[:, jnp.newaxis]\n    )"},
    # violation paths of the piece-wise readings
    {"id": "c18-ce-logits-axis0", "file": _P, "rule": "R2", "find": "jax.nn.log_softmax(logits, axis=-1)", "replace": "jax.nn.log_softmax(logits, axis=0)"},
    {"id": "c18-ce-sum-all", "file": _P, "rule": "R2", "find": "    return -jnp.sum(target * log_pred, axis=-1)", "replace": "    return -jnp.sum(target * log_pred)"},
    {"id": "c18-decoding-axis0", "file": _P, "rule": "R2", "find": "    return jnp.sum(two_hot_encoded * bins, axis=-1)", "replace": "    return jnp.sum(two_hot_encoded * bins, 0)"},
    {"id": "c18-twohot-independent-searches", "file": _P, "rule": "R6", "find": "    ind_lo = jnp.argmin(diff, 1, keepdims=False)\n    ind_up = jnp.clip(ind_lo + 1, 0, bins.shape[0] - 1)",
     "replace": "    ind_lo = jnp.searchsorted(bins, x, side=\"right\") - 1\n    ind_up = jnp.clip(jnp.searchsorted(bins, x, side=\"left\"), 0, bins.shape[0] - 1)"},
    {"id": "c18-twohot-same-column", "file": _P, "rule": "R6", "find": "    ind_up = jnp.clip(ind_lo + 1, 0, bins.shape[0] - 1)", "replace": "    ind_up = jnp.clip(ind_lo, 0, bins.shape[0] - 1)"},
    {"id": "c18-twohot-rows-of-bins", "file": _P, "rule": "R6", "find": "two_hot.at[jnp.arange(x.shape[0]), ind_up]", "replace": "two_hot.at[jnp.arange(bins.shape[0]), ind_up]"},
    {"id": "c18-twohot-weights-sum", "file": _P, "rule": "R6", "find": "set(1.0 - weight)", "replace": "set(1.0 + weight)"},
    {"id": "c18-norm-no-keepdims", "file": _N, "rule": "R3", "find": "jnp.mean(jnp.abs(x), axis=-1, keepdims=True)", "replace": "jnp.mean(jnp.abs(x), axis=-1)"},
    {"id": "c18-norm-no-abs", "file": _N, "rule": "R3", "find": "jnp.mean(jnp.abs(x), axis=-1, keepdims=True)", "replace": "jnp.mean(x, axis=-1, keepdims=True)"},
    {"id": "c18-norm-eps-zero", "file": _N, "rule": "R3", "find": "eps: float = 1e-8", "replace": "eps: float = 0.0"},
    {"id": "c18-norm-plus-eps", "file": _N, "rule": "R3", "find": "jnp.maximum(jnp.mean(jnp.abs(x), axis=-1, keepdims=True), eps)", "replace": "(jnp.mean(jnp.abs(x), axis=-1, keepdims=True) + eps)"},
    {"id": "c18-masked-row-mask", "file": _L, "rule": "R5", "find": "        * mask[:, jnp.newaxis]", "replace": "        * mask[jnp.newaxis, :]"},
    {"id": "c18-masked-sum-reduction", "file": _L, "rule": "R5", "find": "    return jnp.mean(\n        optax.squared_error", "replace": "    return jnp.sum(\n        optax.squared_error"},
    {"id": "c18-schedule-one-more-step", "file": _S, "rule": "R4", "find": "    transition_steps = int(\n        total_timesteps * fraction\n    )", "replace": "    transition_steps = int(total_timesteps * fraction) + 1"},
    {"id": "c18-schedule-renamed-reversed", "file": _S, "rule": "R4", "edits": [("    start: float = 1.0,\n    end: float = 0.1,\n", "    initial: float = 1.0,\n    final: float = 0.1,\n"), ("    schedule = jnp.ones(total_timesteps) * end", "    schedule = jnp.ones(total_timesteps) * final"), ("        jnp.linspace(start, end, transition_steps)", "        jnp.linspace(final, initial, transition_steps)")]},
    # R4: guard clauses / conditional writes are read per path in the worlds n = 0, 1, 2, > 2 of the transition count; closed forms over the step index
    {"id": "c18-schedule-empty-transition-start", "file": _S, "rule": "R4", "find": "    schedule = jnp.ones(total_timesteps) * end  # Default value after decay\n",
     "replace": "    schedule = jnp.ones(total_timesteps) * end  # Default value after decay\n    if transition_steps < 1:\n        return jnp.full(total_timesteps, start)\n"},
    {"id": "c18-schedule-closed-form-minimum", "file": _S, "rule": "R4", "find": _SCHED_BODY,
     "replace": "    idx = jnp.arange(total_timesteps)\n    ramp = start + idx * (end - start) / max(transition_steps - 1, 1)\n    return jnp.minimum(ramp, end)\n"},
    {"id": "c18-schedule-closed-form-progress", "file": _S, "rule": "R4", "find": _SCHED_BODY,
     "replace": "    progress = jnp.clip(jnp.arange(total_timesteps) / max(transition_steps - 1, 1), 0.0, 1.0)\n    return start + (end - start) * progress\n"},
    {"id": "c18-schedule-closed-form-one-late", "file": _S, "rule": "R4", "find": _SCHED_BODY,
     "replace": "    idx = jnp.arange(total_timesteps)\n    ramp = start + idx * (end - start) / max(transition_steps - 1, 1)\n    return jnp.where(idx <= transition_steps, ramp, end)\n"},
    {"id": "c18-schedule-closed-form-slope", "file": _S, "rule": "R4", "find": _SCHED_BODY,
     "replace": "    idx = jnp.arange(total_timesteps)\n    ramp = start + idx * (end - start) / max(transition_steps, 1)\n    return jnp.where(idx < transition_steps, ramp, end)\n"},
    # R6: the number of rows taken from a per-bin axis (symbolic shapes)
    {"id": "c18-twohot-rows-bin-axis", "file": _P, "rule": "R6", "edits": [("two_hot.at[jnp.arange(x.shape[0]), ind_lo]", "two_hot.at[jnp.arange(diff.shape[1]), ind_lo]"), ("two_hot.at[jnp.arange(x.shape[0]), ind_up]", "two_hot.at[jnp.arange(diff.shape[1]), ind_up]")]},
    # R2: a floor / cap under the log-probabilities (order worlds of log p in (-inf, 0] against the constants it is compared with)
    {"id": "c18-ce-logprob-floor", "file": _P, "rule": "R2", "find": "    target = two_hot_encoding(bins, target)\n    return -jnp.sum(target * log_pred, axis=-1)", "replace": "    target = two_hot_encoding(bins, target)\n    return -jnp.sum(target * jnp.maximum(log_pred, -50.0), axis=-1)"},
    {"id": "c18-ce-logprob-clip", "file": _P, "rule": "R2", "find": "    log_pred = jax.nn.log_softmax(logits, axis=-1)", "replace": "    log_pred = jnp.clip(jax.nn.log_softmax(logits, axis=-1), -20.0, 0.0)"},
    # R6: binary-search lookups evaluated in every position of x relative to the edges (index worlds)
    {"id": "c18-twohot-bisect-right-top-edge", "file": _P, "rule": "R6", "find": "    ind_lo = jnp.argmin(diff, 1, keepdims=False)\n", "replace": "    ind_lo = jnp.minimum(jnp.searchsorted(bins, x, side=\"right\") - 1, bins.shape[0] - 1)\n"},
    {"id": "c18-twohot-bisect-left-wrong-bin", "file": _P, "rule": "R6", "find": "    ind_lo = jnp.argmin(diff, 1, keepdims=False)\n", "replace": "    ind_lo = jnp.clip(jnp.searchsorted(bins, x), 0, bins.shape[0] - 2)\n"},
    {"id": "c18-twohot-bisect-guarded-zero-row", "file": _P, "rule": "R6", "edits": [("    ind_lo = jnp.argmin(diff, 1, keepdims=False)\n", "    ind_lo = jnp.clip(jnp.searchsorted(bins, x, side=\"right\") - 1, 0, len(bins) - 1)\n"),
        ("    weight = (x - lower) / (upper - lower)\n", "    gap = upper - lower\n    weight = jnp.where(gap > 0, (x - lower) / jnp.where(gap > 0, gap, 1.0), 0.0)\n")]},
    # R4: a library schedule over the step indices: with transition_steps <= 0 optax returns the constant init_value
    {"id": "c18-schedule-optax-short-transition", "file": _S, "rule": "R4", "edits": [("import jax.numpy as jnp\n", "import jax.numpy as jnp\nimport optax\n"),
        (_SCHED_BODY, "    ramp = optax.linear_schedule(start, end, transition_steps - 1)\n    return ramp(jnp.arange(total_timesteps))\n")]},
]
BENIGN = [
    {"id": "c18-b-schedule-full", "file": _S, "find": "    schedule = jnp.ones(total_timesteps) * end", "replace": "    schedule = jnp.full(total_timesteps, end)"},
    {"id": "c18-b-huber-where", "file": _L, "find": "    quadratic = jnp.minimum(abs_errors, delta)\n    # Same as max(abs_x - delta, 0) but avoids potentially doubling gradient.\n    linear = abs_errors - quadratic\n    return 0.5 * quadratic**2 + delta * linear",
     "replace": "    return jnp.where(abs_errors <= delta, 0.5 * abs_errors**2, delta * (abs_errors - 0.5 * delta))"},
    {"id": "c18-b-huber-relu", "file": _L, "find": "    linear = abs_errors - quadratic\n", "replace": "    linear = jnp.maximum(abs_errors - delta, 0.0)\n"},
    {"id": "c18-b-huber-rewrite", "file": _L, "find": "    return 0.5 * quadratic**2 + delta * linear", "replace": "    return delta * linear + quadratic * quadratic / 2"},
    {"id": "c18-b-ce-neg-inside", "file": _P, "find": "    return -jnp.sum(target * log_pred, axis=-1)", "replace": "    return jnp.sum(-log_pred * target, axis=-1)"},
    {"id": "c18-b-norm-local", "file": _N, "find": "    return x / jnp.maximum(jnp.mean(jnp.abs(x), axis=-1, keepdims=True), eps)", "replace": "    scale = jnp.maximum(jnp.mean(jnp.abs(x), axis=-1, keepdims=True), eps)\n    return x / scale"},
    # names are free (roles by position), keyword / positional / default spellings of the same call, equivalent index spellings
    {"id": "c18-b-huber-renamed", "file": _L, "edits": [("def huber_loss(abs_errors: jnp.ndarray, delta: float)", "def huber_loss(abs_err: jnp.ndarray, threshold: float)"),
        ("    quadratic = jnp.minimum(abs_errors, delta)\n    # Same as max(abs_x - delta, 0) but avoids potentially doubling gradient.\n    linear = abs_errors - quadratic\n    return 0.5 * quadratic**2 + delta * linear", "    inside = jnp.minimum(abs_err, threshold)\n    outside = abs_err - inside\n    return 0.5 * inside**2 + threshold * outside")]},
    {"id": "c18-b-ce-renamed-default-axis", "file": _P, "edits": [("def two_hot_cross_entropy_loss(\n    bins: jnp.ndarray, logits: jnp.ndarray, target: jnp.ndarray\n)", "def two_hot_cross_entropy_loss(\n    bin_edges: jnp.ndarray, pred_logits: jnp.ndarray, y: jnp.ndarray\n)"),
        ("    log_pred = jax.nn.log_softmax(logits, axis=-1)\n    target = two_hot_encoding(bins, target)\n    return -jnp.sum(target * log_pred, axis=-1)", "    log_pred = jax.nn.log_softmax(pred_logits)\n    encoded = two_hot_encoding(x=y, bins=bin_edges)\n    return -(encoded * log_pred).sum(-1)")]},
    {"id": "c18-b-ce-axis-one", "file": _P, "find": "    return -jnp.sum(target * log_pred, axis=-1)", "replace": "    return jnp.sum(-log_pred * target, 1)"},
    {"id": "c18-b-decoding-matmul", "file": _P, "find": "    return jnp.sum(two_hot_encoded * bins, axis=-1)", "replace": "    return two_hot_encoded @ bins"},
    {"id": "c18-b-decoding-renamed-broadcast", "file": _P, "edits": [("def two_hot_decoding(\n    bins: jnp.ndarray, two_hot_encoded: jnp.ndarray\n)", "def two_hot_decoding(\n    bin_edges: jnp.ndarray, encoded: jnp.ndarray\n)"), ("    return jnp.sum(two_hot_encoded * bins, axis=-1)", "    return (encoded * bin_edges[None, :]).sum(axis=1)")]},
    {"id": "c18-b-norm-kwonly-constant", "file": _N, "find": "def avg_l1_norm(x: jnp.ndarray, eps: float = 1e-8)", "replace": "_EPS = 1e-8\n\n\ndef avg_l1_norm(x: jnp.ndarray, *, eps: float = _EPS)"},
    {"id": "c18-b-norm-renamed", "file": _N, "edits": [("def avg_l1_norm(x: jnp.ndarray, eps: float = 1e-8)", "def avg_l1_norm(v: jnp.ndarray, epsilon: float = 1e-8)"), ("    return x / jnp.maximum(jnp.mean(jnp.abs(x), axis=-1, keepdims=True), eps)", "    return v / jnp.maximum(epsilon, jnp.abs(v).mean(-1, keepdims=True))")]},
    {"id": "c18-b-masked-renamed-none", "file": _L, "edits": [("def masked_mse_loss(\n    predictions: jnp.ndarray, targets: jnp.ndarray, mask: jnp.ndarray\n)", "def masked_mse_loss(\n    pred: jnp.ndarray, tgt: jnp.ndarray, valid: jnp.ndarray\n)"),
        ("    return jnp.mean(\n        optax.squared_error(predictions=predictions, targets=targets)\n        * mask[:, jnp.newaxis]\n    )", "    weights = valid[:, None]\n    return (weights * jnp.square(tgt - pred)).mean()")]},
    {"id": "c18-b-masked-expand-dims", "file": _L, "find": "        * mask[:, jnp.newaxis]", "replace": "        * jnp.expand_dims(mask, axis=-1)"},
    {"id": "c18-b-twohot-rows-minimum-chained", "file": _P, "edits": [("    ind_up = jnp.clip(ind_lo + 1, 0, bins.shape[0] - 1)", "    ind_up = jnp.minimum(ind_lo + 1, len(bins) - 1)"),
        ("    two_hot = jnp.zeros((x.shape[0], bins.shape[0]))\n    two_hot = two_hot.at[jnp.arange(x.shape[0]), ind_lo].set(1.0 - weight)\n    two_hot = two_hot.at[jnp.arange(x.shape[0]), ind_up].set(weight)\n    return two_hot\n", "    rows = jnp.arange(len(x))\n    lo_pos = (rows, ind_lo)\n    return jnp.zeros((len(x), len(bins))).at[lo_pos].set(1.0 - weight).at[rows, ind_up].set(weight)\n")]},
    {"id": "c18-b-twohot-renamed-weights", "file": _P, "edits": [("def two_hot_encoding(bins: jnp.ndarray, x: jnp.ndarray)", "def two_hot_encoding(edges: jnp.ndarray, values: jnp.ndarray)"), ("    diff = x[:, jnp.newaxis] - bins[jnp.newaxis]\n", "    diff = values[:, jnp.newaxis] - edges[jnp.newaxis]\n"),
        ("    ind_up = jnp.clip(ind_lo + 1, 0, bins.shape[0] - 1)\n\n    lower = bins[ind_lo]\n    upper = bins[ind_up]\n    weight = (x - lower) / (upper - lower)\n", "    ind_up = jnp.clip(ind_lo + 1, min=0, max=edges.shape[0] - 1)\n\n    lower = edges[ind_lo]\n    upper = edges[ind_up]\n    width = upper - lower\n    weight = (values - lower) / width\n"),
        ("    two_hot = jnp.zeros((x.shape[0], bins.shape[0]))\n    two_hot = two_hot.at[jnp.arange(x.shape[0]), ind_lo].set(1.0 - weight)\n    two_hot = two_hot.at[jnp.arange(x.shape[0]), ind_up].set(weight)\n", "    two_hot = jnp.zeros((values.shape[0], edges.shape[0]))\n    two_hot = two_hot.at[jnp.arange(values.shape[0]), ind_lo].set((upper - values) / width)\n    two_hot = two_hot.at[jnp.arange(values.shape[0]), ind_up].set(weight)\n")]},
    {"id": "c18-b-schedule-renamed", "file": _S, "edits": [("    total_timesteps: int,\n    start: float = 1.0,", "    n_steps: int,\n    start: float = 1.0,"),
        ("    transition_steps = int(\n        total_timesteps * fraction\n    )  # Number of steps for decay\n    schedule = jnp.ones(total_timesteps) * end  # Default value after decay\n\n    schedule = schedule.at[:transition_steps].set(\n        jnp.linspace(start, end, transition_steps)\n    )\n", "    k = int(fraction * n_steps)\n    schedule = jnp.ones(n_steps) * end\n    schedule = schedule.at[:k].set(jnp.linspace(start, end, num=k))\n")]},
    {"id": "c18-b-schedule-kwonly-slice", "file": _S, "edits": [("    total_timesteps: int,\n    start: float = 1.0,", "    total_timesteps: int,\n    *,\n    start: float = 1.0,"), ("    schedule = jnp.ones(total_timesteps) * end", "    schedule = jnp.ones((total_timesteps,)) * end"), ("schedule.at[:transition_steps]", "schedule.at[0:transition_steps]"),
        ("jnp.linspace(start, end, transition_steps)", "jnp.linspace(start, end, transition_steps, endpoint=True)")]},
    # R4: the empty transition handled by a guard clause / a conditional write; the closed form that is the same schedule
    {"id": "c18-b-schedule-guard-clause", "file": _S, "find": _SCHED_BODY,
     "replace": "    tail = jnp.full(total_timesteps, end)\n    if not transition_steps:\n        return tail\n    return tail.at[:transition_steps].set(jnp.linspace(start, end, transition_steps))\n"},
    {"id": "c18-b-schedule-conditional-write", "file": _S, "find": _SCHED_BODY,
     "replace": "    schedule = jnp.ones(total_timesteps) * end\n    if transition_steps >= 1:\n        schedule = schedule.at[:transition_steps].set(jnp.linspace(start, end, transition_steps))\n    return schedule\n"},
    {"id": "c18-b-schedule-closed-form-where", "file": _S, "find": _SCHED_BODY,
     "replace": "    idx = jnp.arange(total_timesteps)\n    ramp = start + idx * (end - start) / max(transition_steps - 1, 1)\n    return jnp.where(idx < transition_steps, ramp, end)\n"},
    # R6: the number of samples taken from a per-sample array derived from x
    {"id": "c18-b-twohot-rows-from-weight", "file": _P, "edits": [("two_hot.at[jnp.arange(x.shape[0]), ind_lo]", "two_hot.at[jnp.arange(weight.shape[0]), ind_lo]"), ("two_hot.at[jnp.arange(x.shape[0]), ind_up]", "two_hot.at[jnp.arange(len(ind_up)), ind_up]")]},
    {"id": "c18-b-twohot-rows-from-diff", "file": _P, "edits": [("two_hot.at[jnp.arange(x.shape[0]), ind_lo]", "two_hot.at[jnp.arange(diff.shape[0]), ind_lo]"), ("two_hot.at[jnp.arange(x.shape[0]), ind_up]", "two_hot.at[jnp.arange(two_hot.shape[0]), ind_up]")]},
    # R2: a cap at zero never binds (log p <= 0)
    {"id": "c18-b-ce-logprob-cap-zero", "file": _P, "find": "    target = two_hot_encoding(bins, target)\n    return -jnp.sum(target * log_pred, axis=-1)", "replace": "    target = two_hot_encoding(bins, target)\n    return -jnp.sum(target * jnp.minimum(log_pred, 0.0), axis=-1)"},
    # R6: binary-search lookups that enclose x in every position; an empty-bin guard where the bin is never empty; a coinciding pair whose last write is 1
    {"id": "c18-b-twohot-bisect-left", "file": _P, "edits": [("    ind_lo = jnp.argmin(diff, 1, keepdims=False)\n    ind_up = jnp.clip(ind_lo + 1, 0, bins.shape[0] - 1)\n", "    ind_lo = jnp.clip(jnp.searchsorted(bins, x, side=\"left\") - 1, 0, bins.shape[0] - 2)\n    ind_up = ind_lo + 1\n")]},
    {"id": "c18-b-twohot-bisect-upper-first-guarded", "file": _P, "edits": [("    ind_lo = jnp.argmin(diff, 1, keepdims=False)\n    ind_up = jnp.clip(ind_lo + 1, 0, bins.shape[0] - 1)\n", "    ind_up = jnp.clip(jnp.searchsorted(bins, x), 1, bins.shape[0] - 1)\n    ind_lo = ind_up - 1\n"),
        ("    weight = (x - lower) / (upper - lower)\n", "    gap = upper - lower\n    weight = jnp.where(gap > 0, (x - lower) / jnp.where(gap > 0, gap, 1.0), 0.0)\n")]},
    {"id": "c18-b-twohot-bisect-right-lower-written-last", "file": _P, "edits": [("    ind_lo = jnp.argmin(diff, 1, keepdims=False)\n", "    ind_lo = jnp.clip(jnp.searchsorted(bins, x, side=\"right\") - 1, 0, len(bins) - 1)\n"),
        ("    weight = (x - lower) / (upper - lower)\n", "    gap = upper - lower\n    weight = jnp.where(gap > 0, (x - lower) / jnp.where(gap > 0, gap, 1.0), 0.0)\n"),
        ("    two_hot = two_hot.at[jnp.arange(x.shape[0]), ind_lo].set(1.0 - weight)\n    two_hot = two_hot.at[jnp.arange(x.shape[0]), ind_up].set(weight)\n", "    two_hot = two_hot.at[jnp.arange(x.shape[0]), ind_up].set(weight)\n    two_hot = two_hot.at[jnp.arange(x.shape[0]), ind_lo].set(1.0 - weight)\n")]},
    # R4: the same library schedule behind a guard for transitions of fewer than two steps
    {"id": "c18-b-schedule-optax-guarded", "file": _S, "edits": [("import jax.numpy as jnp\n", "import jax.numpy as jnp\nimport optax\n"),
        (_SCHED_BODY, "    tail = jnp.ones(total_timesteps) * end\n    if transition_steps < 2:\n        return tail.at[:transition_steps].set(start)\n    ramp = optax.linear_schedule(init_value=start, end_value=end, transition_steps=transition_steps - 1)\n    return ramp(jnp.arange(total_timesteps))\n")]},
]
