"""C18 - numeric building blocks: Huber, two-hot cross-entropy, AvgL1 norm, linear schedule, masked loss (structural clauses)."""
from __future__ import annotations

import ast

from ..loops import dotted
from ..nf import NF, Scope, Poly, parse_expr
from ..sem import same_ingredients, OrderModel, Unknown
from ..repo import Repo, loc, short, AnalysisError, positional_params, param_names
from ..shapes import ShapeEngine

EXPLANATION = (
    "Five of the six clauses are formula identities. Huber: with q = min(e, delta) the returned polynomial is case-split by substituting "
    "q := e (inside) and q := delta (outside); both branches are polynomial identities 0.5*e^2 resp. delta*(e - 0.5*delta), valid for all real "
    "e >= 0 and delta. Cross-entropy == -sum(two_hot(target) * log_softmax(logits), -1); decoding == sum(p * bins, -1); AvgL1 == "
    "x / max(mean|x| over the last axis (kept), eps); schedule: length total_timesteps, constant tail `end`, linspace(start, end, n) prefix "
    "with n = int(total*fraction); masked loss under its documented shapes (shape engine). Two-hot encoding: the weight algebra (lower "
    "weight 1-w, upper weight w, w = (x-lower)/(upper-lower), upper index = lower index + 1 clipped) is checked - rows then sum to one and "
    "decode to x by construction; the masked-argmin lower-edge search over float differences is NOT decided."
)
TRUSTED = ["jnp.minimum / log_softmax / linspace semantics", "min(e, delta) equals e or delta (case split is exhaustive)"]
RULES = {
    "R1-huber": "huber_loss(e, d) == 0.5*e^2 where min(e,d) = e and == d*(e - 0.5*d) where min(e,d) = d",
    "R2-cross-entropy": "two_hot_cross_entropy_loss == -sum(two_hot_encoding(bins, target) * log_softmax(logits, -1), -1); two_hot_decoding == sum(p*bins, -1)",
    "R3-avg-l1": "avg_l1_norm(x) == x / maximum(mean(|x|, axis=-1, keepdims=True), eps)",
    "R4-schedule": "length total_timesteps; schedule == ones(total)*end with [:int(total*fraction)] = linspace(start, end, int(total*fraction))",
    "R5-masked-loss": "masked_mse_loss == mean(sq(P - T) * mask[:, None]) with per-sample broadcasting under the documented shapes",
    "R6-two-hot-weights": "two_hot rows: weight 1-w at the lower index and w at lower+1 (clipped to the last bin), w = (x - bins[lo]) / (bins[up] - bins[lo])",
}


def _env(fn):
    return {p: Poly.atom(p, {p}, {p}) for p in param_names(fn)}


def run(ck, repo: Repo, tier: str):
    nf = NF(repo, inline_depth=2)
    # ---- R1 Huber -----------------------------------------------------------------------------------------
    q = "rl_blox.blox.losses.huber_loss"
    fn = repo.func(q)
    env = _env(fn)
    ck.need(param_names(fn)[:2] == ["abs_errors", "delta"], f"{q}: signature changed")
    got = nf.return_poly(q, env)
    where = loc(fn._module, fn)
    e, d = env["abs_errors"], env["delta"]
    # piecewise identity in the three order worlds of (|e|, delta); delta > 0 and |e| >= 0 are documented preconditions
    model = OrderModel()
    model.cluster([Poly.const(0), e, d], constraint=lambda r: r[0] < r[2] and r[0] <= r[1])
    model.positive("delta")
    seen = set()
    for w in model.worlds():
        sg = model.sign(w, e - d)
        label = "|e|<delta" if sg < 0 else "|e|=delta" if sg == 0 else "|e|>delta"
        if label in seen:
            continue
        val = model.value(w, nf, got)
        want = model.resolve(w, e.pow(2).scale("1/2") if sg <= 0 else d * (e - d.scale("1/2")))
        ok = val == want
        if not ok and not (val.atoms() <= {"abs_errors", "delta"}):
            raise AnalysisError(f"{q}: value `{val.canon()[:100]}` in the world {label} (unrecognised form)")
        seen.add(label)
        ck.ob("R1-huber", q, f"branch:{label}", ok, f"{label}  =>  {val.canon()}", "" if ok else f"must be {'0.5*e^2' if sg <= 0 else 'delta*(e - 0.5*delta)'}, got a difference of {(val - want).canon()}", where)
    ck.ob("R1-huber", q, "worlds", len(seen) == 3, f"{sorted(seen)}", "" if len(seen) == 3 else "order model degenerate", where)

    # ---- R2 cross-entropy / decoding ---------------------------------------------------------------------------
    P = "rl_blox.blox.preprocessing."
    nf2 = NF(repo, inline_depth=2, no_inline={P + "two_hot_encoding"})
    q = P + "two_hot_cross_entropy_loss"
    fn = repo.func(q)
    env = _env(fn)
    got = nf2.return_poly(q, env)
    want = nf2.poly(parse_expr("-jnp.sum(two_hot_encoding(bins, target) * jax.nn.log_softmax(logits, axis=-1), axis=-1)"), Scope(None, fn._module, env, q), None)
    ck.ob("R2-cross-entropy", q, "formula", got == want, f"{got.canon()[:150]}", "" if got == want else f"differs from -sum(two_hot(target)*log_softmax(logits)) by {(got - want).canon()[:120]}", loc(fn._module, fn))
    q = P + "two_hot_decoding"
    fn = repo.func(q)
    env = _env(fn)
    got = nf.return_poly(q, env)
    want = nf.poly(parse_expr("jnp.sum(two_hot_encoded * bins, axis=-1)"), Scope(None, fn._module, env, q), None)
    ck.ob("R2-cross-entropy", q, "decoding", got == want, f"{got.canon()}", "" if got == want else "decoding must be the bin-weighted sum over the last axis", loc(fn._module, fn))

    # ---- R6 two-hot weights ----------------------------------------------------------------------------------------
    q = P + "two_hot_encoding"
    fn = repo.func(q)
    mi = fn._module
    cfg = nf.cfg_of(fn)
    env = _env(fn)
    sc = Scope(cfg, mi, env, q)
    sets = []
    for n in cfg.nodes:
        if n.kind == "stmt" and isinstance(n.ast, ast.Assign) and isinstance(n.ast.value, ast.Call) and isinstance(n.ast.value.func, ast.Attribute) and n.ast.value.func.attr == "set":
            c = n.ast.value
            idx = c.func.value.slice
            col = nf.poly(idx.elts[1], sc, n.id) if isinstance(idx, ast.Tuple) and len(idx.elts) == 2 else None
            row = nf.poly(idx.elts[0], sc, n.id).canon() if isinstance(idx, ast.Tuple) else None
            sets.append((n, row, col, nf.poly(c.args[0], sc, n.id)))
    ck.need(len(sets) == 2, f"{q}: expected two .at[rows, idx].set(weight) writes")
    (n1, r1, c1, v1), (n2, r2, c2, v2) = sets
    ok = (v1 + v2) == Poly.const(1)
    ck.ob("R6-two-hot-weights", q, "weights-sum-to-one", ok, f"w_lo + w_up = {(v1 + v2).canon()[:80]}", "" if ok else "the two written weights must sum to one", loc(mi, n1.ast))
    ok = r1 == r2 == "arange(x.shape[0])"
    ck.ob("R6-two-hot-weights", q, "one-row-per-sample", ok, f"rows {r1} / {r2}", "" if ok else "each sample writes into its own row", loc(mi, n1.ast))
    lo = c1.canon() if c1 is not None else ""
    up = c2.canon() if c2 is not None else ""
    ok = up in (f"clip(1 + {lo}, 0, -1 + bins.shape[0])", f"clip(0, 1 + {lo}, -1 + bins.shape[0])")
    ck.ob("R6-two-hot-weights", q, "adjacent-indices", ok, f"lower idx = {lo[:60]}, upper idx = {up[:80]}", "" if ok else "the upper index must be lower+1 clipped to the last bin (adjacent non-zero entries)", loc(mi, n2.ast))
    w = v2
    want = nf.poly(parse_expr("(x - bins[LO]) / (bins[UP] - bins[LO])"), Scope(None, mi, {**env, "LO": c1, "UP": c2}, q), None) if c1 is not None and c2 is not None else None
    ok = want is not None and w == want
    ck.ob("R6-two-hot-weights", q, "interpolation-weight", ok, f"w = {w.canon()[:120]}", "" if ok else "w must be (x - lower edge) / (upper edge - lower edge): then (1-w)*lower + w*upper decodes to x", loc(mi, n2.ast))
    ck.note("two_hot_encoding: the lower-edge search `argmin(diff - 1e8*(sign(diff)-1))` over float differences is not decided (DESIGN: not decided)")

    # ---- R3 avg-l1 ---------------------------------------------------------------------------------------------------
    q = "rl_blox.blox.function_approximator.norm.avg_l1_norm"
    fn = repo.func(q)
    env = _env(fn)
    got = nf.return_poly(q, env)
    want = nf.poly(parse_expr("x / jnp.maximum(jnp.mean(jnp.abs(x), axis=-1, keepdims=True), eps)"), Scope(None, fn._module, env, q), None)
    ck.ob("R3-avg-l1", q, "formula", got == want, f"{got.canon()}", "" if got == want else f"must be x / max(mean|x| (last axis, keepdims), eps)", loc(fn._module, fn))
    dflt = {a.arg: ast.literal_eval(d) for a, d in zip(fn.args.args[-len(fn.args.defaults):], fn.args.defaults)}
    ok = 0 < dflt.get("eps", 0) <= 1e-6
    ck.ob("R3-avg-l1", q, "eps-default", ok, f"eps = {dflt.get('eps')}", "" if ok else "a small positive eps keeps the result finite for near-zero input", loc(fn._module, fn))

    # ---- R4 schedule -----------------------------------------------------------------------------------------------------
    q = "rl_blox.blox.schedules.linear_schedule"
    fn = repo.func(q)
    mi = fn._module
    env = _env(fn)
    gotp = nf.return_poly(q, env)
    TT, ST, EN, FR = (env[x] for x in ("total_timesteps", "start", "end", "fraction"))
    n_want = nf.poly(parse_expr("int(total_timesteps * fraction)"), Scope(None, mi, env, q), None)
    facts = {"lengths": set(), "counts": set()}

    def mk(fn_, a, b):
        return nf._mkcall(fn_, [a, b], {})

    def elem(p, kind):
        """Element of an array-valued normal form at the first / last index of the transition or at an index after it."""
        out = Poly.const(0)
        for mono, c in p.terms.items():
            term = Poly.const(c)
            for a, k in mono:
                term = term * elem_atom(a, kind).pow(k)
            out = out + term
        return out

    def elem_atom(a, kind):
        m = nf.meta.get(a)
        if m is None:
            if a in env:
                return Poly.atom(a)      # scalar parameter
            raise Unknown(a)
        fn_ = m.get("fn", "").split(".")[-1]
        args = m.get("args", [])
        if "at" in m and m["at"]["op"] == "set" and len(args) == 1:
            idx = m["at"]["index"]
            if not idx.startswith(":") or ":" in idx[1:]:
                raise Unknown(a)
            facts["counts"].add(idx[1:])
            return elem(m["at"]["base"], kind) if kind == "tail" else elem(args[0], kind)
        if fn_ in ("ones", "ones_like") and args:
            facts["lengths"].add(args[0].canon())
            return Poly.const(1)
        if fn_ in ("zeros", "zeros_like") and args:
            facts["lengths"].add(args[0].canon())
            return Poly.const(0)
        if fn_ == "full" and len(args) >= 2:
            facts["lengths"].add(args[0].canon())
            return args[1]
        if fn_ == "linspace" and len(args) >= 3 and kind in ("first", "last") and m.get("kws", {}).get("endpoint") is None:
            facts["counts"].add(args[2].canon())
            return args[0] if kind == "first" else args[1]
        if fn_ == "clip" and len(args) == 3 and not m.get("kws"):
            return mk("minimum", mk("maximum", elem(args[0], kind), elem(args[1], kind)), elem(args[2], kind))
        if fn_ in ("minimum", "maximum") and len(args) == 2:
            return mk(fn_, elem(args[0], kind), elem(args[1], kind))
        raise Unknown(a)

    model = OrderModel()
    model.cluster([ST, EN])
    viol, okk = {}, set()
    try:
        for w in model.worlds():
            for kind, want, why in (("tail", EN, "after the transition the schedule must hold `end`"), ("first", ST, "the schedule must begin at `start`"), ("last", EN, "the transition must arrive at `end`")):
                val = model.value(w, nf, elem(gotp, kind))
                if model.resolve(w, val) == model.resolve(w, want):
                    okk.add(kind)
                    continue
                if not (val.atoms() <= {"start", "end"}):
                    raise Unknown(val.canon())
                viol.setdefault(kind, (f"element ({kind}) = {val.canon()} in the world [{model.describe(w)}]", why))
    except Unknown as u:
        raise AnalysisError(f"{q}: element-wise reading of `{gotp.canon()[:100]}` stops at `{str(u)[:60]}` (unrecognised form)")
    for kind in ("tail", "first", "last"):
        v = viol.get(kind)
        ck.ob("R4-schedule", q, f"element:{kind}", v is None, f"return {gotp.canon()[:120]}" if v is None else v[0], "" if v is None else v[1], loc(mi, fn))
    okl = facts["lengths"] == {TT.canon()}
    ck.ob("R4-schedule", q, "length", okl, f"array length(s) {sorted(facts['lengths'])}", "" if okl else "the schedule must have total_timesteps entries", loc(mi, fn))
    okc = facts["counts"] == {n_want.canon()}
    ck.ob("R4-schedule", q, "transition-steps", okc, f"transition count(s) {sorted(facts['counts'])}", "" if okc else "the transition spans exactly int(total_timesteps * fraction) steps (slice and linspace count agree)", loc(mi, fn))

    # ---- R5 masked loss ------------------------------------------------------------------------------------------------------
    q = "rl_blox.blox.losses.masked_mse_loss"
    fn = repo.func(q)
    nf3 = NF(repo)
    nf3.expand_squares = False
    env = _env(fn)
    got = nf3.return_poly(q, env)
    want = nf3.poly(parse_expr("jnp.mean(optax.squared_error(predictions, targets) * mask[:, jnp.newaxis])"), Scope(None, fn._module, env, q), None)
    ck.ob("R5-masked-loss", q, "formula", got == want, f"{got.canon()}", "" if got == want else "must be mean(squared_error(P, T) * mask[:, None])", loc(fn._module, fn))
    se = ShapeEngine(repo)
    r = se.analyse(fn, fn._module, q, {"predictions": ("B", "F"), "targets": ("B", "F"), "mask": ("B",)})
    ok = not se.alarms and r == ()
    ck.ob("R5-masked-loss", q, "per-sample-broadcast", ok, f"(B,F),(B,F),(B,) -> {r}; alarms {[(a[2]) for a in se.alarms]}", "" if ok else "; ".join(a[3] for a in se.alarms) or "result is not a scalar", loc(fn._module, fn))


_L, _P, _N, _S = "rl_blox/blox/losses.py", "rl_blox/blox/preprocessing.py", "rl_blox/blox/function_approximator/norm.py", "rl_blox/blox/schedules.py"
MUTANTS = [
    {"id": "c18-schedule-clipped", "file": _S, "rule": "R4", "find": "    return schedule\n", "replace": "    return jnp.clip(schedule, end, start)\n"},
    {"id": "c18-schedule-count-off", "file": _S, "rule": "R4", "find": "        jnp.linspace(start, end, transition_steps)", "replace": "        jnp.linspace(start, end, transition_steps + 1)[:-1]", "accept_error": True},
    {"id": "c18-huber-where-swapped", "file": _L, "rule": "R1", "find": "    quadratic = jnp.minimum(abs_errors, delta)\n    # Same as max(abs_x - delta, 0) but avoids potentially doubling gradient.\n    linear = abs_errors - quadratic\n    return 0.5 * quadratic**2 + delta * linear",
     "replace": "    return jnp.where(abs_errors > delta, 0.5 * abs_errors**2, delta * (abs_errors - 0.5 * delta))"},
    {"id": "c18-huber-linear-wrong", "file": _L, "rule": "R1", "find": "    return 0.5 * quadratic**2 + delta * linear", "replace": "    return 0.5 * quadratic**2 + delta * (abs_errors - delta)"},
    {"id": "c18-huber-no-half", "file": _L, "rule": "R1", "find": "    return 0.5 * quadratic**2 + delta * linear", "replace": "    return quadratic**2 + delta * linear"},
    {"id": "c18-huber-max", "file": _L, "rule": "R1", "find": "    quadratic = jnp.minimum(abs_errors, delta)", "replace": "    quadratic = jnp.maximum(abs_errors, delta)"},
    {"id": "c18-ce-sign", "file": _P, "rule": "R2", "find": "    return -jnp.sum(target * log_pred, axis=-1)", "replace": "    return jnp.sum(target * log_pred, axis=-1)"},
    {"id": "c18-ce-softmax", "file": _P, "rule": "R2", "find": "    log_pred = jax.nn.log_softmax(logits, axis=-1)", "replace": "    log_pred = jax.nn.softmax(logits, axis=-1)"},
    {"id": "c18-ce-axis", "file": _P, "rule": "R2", "find": "    return -jnp.sum(target * log_pred, axis=-1)", "replace": "    return -jnp.sum(target * log_pred, axis=0)"},
    {"id": "c18-decoding-mean", "file": _P, "rule": "R2", "find": "    return jnp.sum(two_hot_encoded * bins, axis=-1)", "replace": "    return jnp.mean(two_hot_encoded * bins, axis=-1)"},
    {"id": "c18-twohot-weights-swapped", "file": _P, "rule": "R6", "find": "    two_hot = two_hot.at[jnp.arange(x.shape[0]), ind_lo].set(1.0 - weight)\n    two_hot = two_hot.at[jnp.arange(x.shape[0]), ind_up].set(weight)", "replace": "    two_hot = two_hot.at[jnp.arange(x.shape[0]), ind_lo].set(weight)\n    two_hot = two_hot.at[jnp.arange(x.shape[0]), ind_up].set(1.0 - weight)"},
    {"id": "c18-twohot-upper-plus2", "file": _P, "rule": "R6", "find": "    ind_up = jnp.clip(ind_lo + 1, 0, bins.shape[0] - 1)", "replace": "    ind_up = jnp.clip(ind_lo + 2, 0, bins.shape[0] - 1)"},
    {"id": "c18-twohot-weight-denominator", "file": _P, "rule": "R6", "find": "    weight = (x - lower) / (upper - lower)", "replace": "    weight = (x - lower) / upper"},
    {"id": "c18-norm-axis0", "file": _N, "rule": "R3", "find": "jnp.mean(jnp.abs(x), axis=-1, keepdims=True)", "replace": "jnp.mean(jnp.abs(x), axis=0, keepdims=True)"},
    {"id": "c18-norm-l2", "file": _N, "rule": "R3", "find": "jnp.mean(jnp.abs(x), axis=-1, keepdims=True)", "replace": "jnp.sqrt(jnp.mean(x**2, axis=-1, keepdims=True))"},
    {"id": "c18-schedule-tail-start", "file": _S, "rule": "R4", "find": "    schedule = jnp.ones(total_timesteps) * end", "replace": "    schedule = jnp.ones(total_timesteps) * start"},
    {"id": "c18-schedule-reversed", "file": _S, "rule": "R4", "find": "        jnp.linspace(start, end, transition_steps)", "replace": "        jnp.linspace(end, start, transition_steps)"},
    {"id": "c18-schedule-length", "file": _S, "rule": "R4", "find": "    schedule = jnp.ones(total_timesteps) * end", "replace": "    schedule = jnp.ones(total_timesteps + 1) * end"},
    {"id": "c18-masked-mask-sum", "file": _L, "rule": "R5", "find": "    return jnp.mean(\n        optax.squared_error(predictions=predictions, targets=targets)\n        * mask[:, jnp.newaxis]\n    )", "replace": "    return jnp.mean(\n        optax.squared_error(predictions=predictions, targets=targets)\n        + mask[:, jnp.newaxis]\n    )"},
]
BENIGN = [
    {"id": "c18-b-schedule-full", "file": _S, "find": "    schedule = jnp.ones(total_timesteps) * end", "replace": "    schedule = jnp.full(total_timesteps, end)"},
    {"id": "c18-b-huber-where", "file": _L, "find": "    quadratic = jnp.minimum(abs_errors, delta)\n    # Same as max(abs_x - delta, 0) but avoids potentially doubling gradient.\n    linear = abs_errors - quadratic\n    return 0.5 * quadratic**2 + delta * linear",
     "replace": "    return jnp.where(abs_errors <= delta, 0.5 * abs_errors**2, delta * (abs_errors - 0.5 * delta))"},
    {"id": "c18-b-huber-relu", "file": _L, "find": "    linear = abs_errors - quadratic\n", "replace": "    linear = jnp.maximum(abs_errors - delta, 0.0)\n"},
    {"id": "c18-b-huber-rewrite", "file": _L, "find": "    return 0.5 * quadratic**2 + delta * linear", "replace": "    return delta * linear + quadratic * quadratic / 2"},
    {"id": "c18-b-ce-neg-inside", "file": _P, "find": "    return -jnp.sum(target * log_pred, axis=-1)", "replace": "    return jnp.sum(-log_pred * target, axis=-1)"},
    {"id": "c18-b-norm-local", "file": _N, "find": "    return x / jnp.maximum(jnp.mean(jnp.abs(x), axis=-1, keepdims=True), eps)", "replace": "    scale = jnp.maximum(jnp.mean(jnp.abs(x), axis=-1, keepdims=True), eps)\n    return x / scale"},
]
