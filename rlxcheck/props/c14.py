"""C14 - tabular learners apply their textbook update to exactly one entry."""
from __future__ import annotations

import ast

from ..loops import dotted
from ..nf import NF, Scope, Poly, parse_expr
from ..repo import Repo, loc, short, AnalysisError, positional_params, param_names, bind_call
from ..cfg import CFG
from ..sem import same_ingredients

EXPLANATION = (
    "The TD learners are read at loop level: one iteration of the training loop (from env.step to the next iteration) is evaluated per path "
    "with the update helper inlined (td_error, greedy_policy, records), the step results and the acted-on observation / action as role "
    "atoms. On every path the new table must be the old table with exactly one functional update at [S, A] whose increment equals, as a "
    "polynomial identity, lr*(R + gamma*(1-D)*V_next - Q[S,A]) with the algorithm's V_next (greedy row maximum; value of an action selected "
    "on the same table at the successor; other table's value of the own greedy action, each table learning on some path). It does not matter "
    "whether the successor action is chosen in the loop or in the helper. Dyna-Q's planning loop is read the same way against the model "
    "(s' = argmax P(.|s,a), r = R(s,a,s')). The Monte-Carlo fori_loop body is checked as three identities, Dyna-Q's model by its row footprint."
)
TRUSTED = ["jnp `.at[idx].add/.set` functional update semantics; jnp.argmax returns a maximiser; jax.lax.fori_loop(lo, hi, body, init)"]
RULES = {
    "R1-update-formula": "returned table == Q.at[s,a].add(lr * (r + gamma * (1 - terminated) * V_next - Q[s,a])) with the algorithm's V_next (polynomial identity)",
    "R1-footprint": "exactly one table write per update, at the index tuple that is read for Q[s,a]",
    "R2-co-indexing": "the successor action indexes the successor row and was selected on the documented table at the successor observation",
    "R3-monte-carlo": "backward loop: idx = len-1-i, G' = r + gamma*G, n' = n.at[s,a].add(1), Q' = Q.at[s,a].add((G' - Q[s,a]) / n'[s,a]); G0 = 0 over [0, len)",
    "R4-dyna-q": "Dyna-Q uses the greedy-successor update for real and replayed transitions; the model row P(.|s,a) is rewritten as a whole (empirical frequencies), rewards are means",
}

A = "rl_blox.algorithm."
def _at_writes(fn):
    out = []
    for n in ast.walk(fn):
        if isinstance(n, ast.Call) and isinstance(n.func, ast.Attribute) and n.func.attr in ("add", "set", "multiply", "min", "max", "apply") and isinstance(n.func.value, ast.Subscript) \
                and isinstance(n.func.value.value, ast.Attribute) and n.func.value.value.attr == "at":
            out.append(n)
    return out



# ---- loop-level reading of the TD learners -------------------------------------------------------------------------------------------
TD_LOOPS = {
    A + "q_learning.train_q_learning": {"tables": ["q_table"], "bootstrap": "greedy"},
    A + "sarsa.train_sarsa": {"tables": ["q_table"], "bootstrap": "on-policy"},
    A + "double_q_learning.train_double_q_learning": {"tables": ["q_table1", "q_table2"], "bootstrap": "double"},
    A + "dynaq.train_dynaq": {"tables": ["q_table"], "bootstrap": "greedy", "mask_optional": True, "first_update_only": True},
}


def _at_update(nf, p):
    """(base poly, index text, delta poly relative to the old entry) when ``p`` is `B.at[idx].add(v)` / `B.at[idx].set(v)`, else None."""
    m = nf.meta.get(p.single_atom() or "")
    if not m or "at" not in m or m["at"]["op"] not in ("add", "set") or len(m.get("args", [])) != 1 or m.get("kws"):
        return None
    return m["at"]["base"], m["at"]["index"], m["at"]["op"], m["args"][0]


def _td_loops(ck, repo, nf):
    """The training loop and its update helper are read together: on every path of one iteration (from env.step to the next iteration)
    the new table is the old table with exactly one entry changed - the entry (observation acted on, action passed to env.step) - by
    lr * (r + gamma * (1 - terminated) * V_next - Q[s, a]), with r / s' / terminated the results of that step."""
    from ..sympath import enumerate_paths, PathEval
    from ..loops import find_env_loop, strip_wrappers
    n_loops = 0
    for tq, spec in TD_LOOPS.items():
        L = find_env_loop(repo, tq)
        cfg, mi, fn = L.cfg, L.mi, L.fn
        params = param_names(fn)
        for t in spec["tables"] + ["gamma", "learning_rate"]:
            ck.need(t in params, f"{tq}: parameter `{t}` vanished (anchor)")
        a = strip_wrappers(L.step_call.args[0]) if L.step_call.args else None
        ck.need(isinstance(a, ast.Name), f"{tq}: action passed to env.step is not a variable (unrecognised form)")
        avar = a.id
        ovars = set()
        for n in cfg.nodes:
            if n.kind == "stmt" and isinstance(n.ast, ast.Assign) and L.is_reset_call(n.ast.value) and isinstance(n.ast.targets[0], (ast.Tuple, ast.List)) and isinstance(n.ast.targets[0].elts[0], ast.Name):
                ovars.add(n.ast.targets[0].elts[0].id)
        ck.need(len(ovars) == 1, f"{tq}: observation variable not identified (reset targets {sorted(ovars)})")
        ovar = ovars.pop()
        nvar, rvar, dvar = L.pos.get(0), L.pos.get(1), L.pos.get(2)
        ck.need(nvar and rvar and dvar, f"{tq}: step results are discarded")
        env0 = {p_: Poly.atom(p_, {p_}, {p_}) for p_ in params}
        env0.update({ovar: Poly.atom("S"), avar: Poly.atom("A"), nvar: Poly.atom("N"), rvar: Poly.atom("R"), dvar: Poly.atom("D")})
        for t in spec["tables"]:
            env0[t] = Poly.atom(t)
        # names bound in the iteration before the step (q = q1 + q2, ...): the same value on every way to the step
        try:
            pre = enumerate_paths(cfg, L.loop_header, {L.step_node}, first_label=True, max_paths=200)
        except RuntimeError:
            pre = []
        pre_env = None
        protected = set(env0)
        for pp in pre:
            pe0 = PathEval(nf, cfg, mi, tq, {k_: v_ for k_, v_ in env0.items() if k_ not in (avar, nvar, rvar, dvar)})
            try:
                pe0.run(pp[:-1])
            except Exception:
                pre_env = {}
                break
            cur = {k_: v_ for k_, v_ in pe0.env.items() if k_ not in protected and "φ(" not in v_.canon()}
            pre_env = cur if pre_env is None else {k_: v_ for k_, v_ in cur.items() if k_ in pre_env and pre_env[k_] == v_}
        for k_, v_ in (pre_env or {}).items():
            env0.setdefault(k_, v_)
        succ = [s_ for s_, _l in cfg.nodes[L.step_node].succ]
        ck.need(len(succ) == 1, f"{tq}: env.step statement has {len(succ)} successors")
        try:
            paths = enumerate_paths(cfg, succ[0], {L.loop_header, cfg.exit}, max_paths=4000)
        except RuntimeError:
            raise AnalysisError(f"{tq}: too many paths through one iteration")
        ssc = Scope(None, mi, env0, tq)

        def want_delta(own, other, nxt, masked):
            own_p, oth_p = env0[own], env0[other]
            sc_ = Scope(None, mi, {**env0, "OWN": own_p, "OTH": oth_p, "NEXTA": nxt}, tq)
            m_ = "(1 - D) * " if masked else ""
            return nf.poly(parse_expr(f"learning_rate * (R + gamma * {m_}OTH[N, NEXTA] - OWN[S, A])"), sc_, None)
        seen, changed_tables, pending = set(), set(), []
        n_loops += 1
        where = loc(mi, L.step_stmt)
        for pth in paths:
            pe = PathEval(nf, cfg, mi, tq, env0)
            first = {}
            for nid, lab in pth:
                before = {t: pe.env[t] for t in spec["tables"]}
                pe.step(nid, lab)
                for t in spec["tables"]:
                    if pe.env[t] != before[t] and t not in first:
                        first[t] = (pe.env[t], dict(pe.env), nid)
            finals = {t: (first[t][0] if spec.get("first_update_only") and t in first else pe.env[t]) for t in spec["tables"]}
            sig = tuple(finals[t].canon() for t in spec["tables"])
            ends_in_next_iteration = pth[-1][0] == L.loop_header
            key = (sig, "")
            if key in seen:
                continue
            seen.add(key)
            changed = [t for t in spec["tables"] if finals[t] != env0[t]]
            if len(changed) != 1:
                if not changed and not ends_in_next_iteration:
                    continue     # leaving the routine without learning from the last step is C11's business
                pending.append((changed, cfg.describe_path([x for x, _ in pth][:12])))
                continue
            own = changed[0]
            other = own if len(spec["tables"]) == 1 else next(t for t in spec["tables"] if t != own)
            changed_tables.add(own)
            au = _at_update(nf, finals[own])
            if au is None:
                raise AnalysisError(f"{tq}: new value of `{own}` `{finals[own].canon()[:100]}` is not a single-entry update (unrecognised form)")
            base, idx, op, val = au
            if base != env0[own] and _at_update(nf, base) is not None:
                ck.ob("R1-footprint", tq, f"single-write:{own}", False, f"{finals[own].canon()[:120]}", "one update changes more than one table entry", where)
                continue
            ok_fp = base == env0[own] and idx == "S, A"
            if not ok_fp and not (base == env0[own] and set(_names(idx)) <= {"S", "A", "N"}):
                raise AnalysisError(f"{tq}: `{own}` is updated at `{idx[:60]}` of `{base.canon()[:40]}` (unrecognised form)")
            ck.ob("R1-footprint", tq, f"write-index:{own}", ok_fp, f"{own}.at[{idx}].{op}(...)", "" if ok_fp else "the entry written is not [observation acted on, action passed to env.step] of the table being updated (exactly one entry changes per step)", where)
            read = nf.poly(parse_expr("OWN[S, A]"), Scope(None, mi, {**env0, "OWN": env0[own]}, tq), None)
            delta = val if op == "add" else val - read
            # the bootstrap action
            if spec["bootstrap"] in ("greedy", "double"):
                row = nf.poly(parse_expr("OWN[N]"), Scope(None, mi, {**env0, "OWN": env0[own]}, tq), None)
                cands = [nf._mkcall("argmax", [row], {})]
            else:
                # SARSA: the value of a supplied next action - an action selected (epsilon-greedily) on this table at the successor observation
                cands, offrow = [], []
                for v in (first.get(own, (None, {}, None))[1] or pe.env).values():
                    m_ = nf.meta.get(v.single_atom() or "", {})
                    if m_.get("fn", "").endswith("greedy_policy") and len(m_.get("args", [])) >= 2:
                        (cands if (m_["args"][0] == env0[own] and m_["args"][1] == env0[nvar]) else offrow).append(v)
                for c_ in offrow:
                    if want_delta(own, other, c_, True) == delta:
                        m_ = nf.meta[c_.single_atom()]
                        ck.ob("R2-co-indexing", tq, "next-action-provenance", False, f"bootstrap action = {c_.canon()[:100]}",
                              "the successor action whose value is bootstrapped was not selected on the updated table at the successor observation", where)
                if not cands:
                    cands = [Poly.atom("<no action selected on this table at the successor observation>")]
            wants = []
            for c_ in cands:
                wants.append((want_delta(own, other, c_, True), c_))
                if spec.get("mask_optional"):
                    wants.append((want_delta(own, other, c_, False), c_))
            hit = next(((w, c_) for w, c_ in wants if w == delta), None)
            if hit is None and spec["bootstrap"] == "on-policy" and any(want_delta(own, other, c_, True) == delta for c_ in offrow):
                continue
            if hit is None and not same_ingredients(delta, wants[0][0], ("argmax", "epsilon_greedy_policy", "epsilon", "key", "subkey", "jax", "random", "split")):
                raise AnalysisError(f"{tq}: increment `{delta.canon()[:120]}` (unrecognised form)")
            ck.ob("R1-update-formula", tq, f"increment:{own}", hit is not None, f"increment = {delta.canon()[:170]}",
                  "" if hit is not None else f"increment differs from the textbook one `{wants[0][0].canon()[:150]}` by `{(delta - wants[0][0]).canon()[:150]}`", where)
        if changed_tables:
            for changed, wit in pending:
                ck.ob("R1-footprint", tq, "one-table-per-step", False, f"tables changed on a path of one iteration: {changed}", "every step must update exactly one table", where, wit)
        if not changed_tables:
            raise AnalysisError(f"{tq}: no path of one iteration rebinds {spec['tables']} (tables kept in another structure: unrecognised form)")
        if spec["bootstrap"] == "double":
            ok2 = changed_tables == set(spec["tables"])
            ck.ob("R2-co-indexing", tq, "both-tables-learn", ok2, f"tables updated on some path: {sorted(changed_tables)}", "" if ok2 else "double Q-learning must update either table (each on some path)", where)
        else:
            ck.ob("R1-footprint", tq, "learns", bool(changed_tables), f"tables updated on some path: {sorted(changed_tables)}", "" if changed_tables else "no path of an iteration updates the table", where)
    ck.floor("td-loops", n_loops, 4)


def _names(txt):
    import re
    return re.findall(r"[A-Za-z_][A-Za-z_0-9]*", txt)


def _monte_carlo(ck, repo, nf):
    q = A + "monte_carlo.update"
    fn = repo.func(q)
    mi = fn._module
    body = next((n for n in fn.body if isinstance(n, ast.FunctionDef)), None)
    ck.need(body is not None, f"{q}: loop body function not found (anchor vanished)")
    uses = [c for c in ast.walk(fn) if isinstance(c, ast.Call) and any(isinstance(a_, ast.Name) and a_.id == body.name for a_ in c.args)]
    ck.need(len(uses) == 1 and dotted(uses[0].func).endswith("fori_loop") and len(uses[0].args) == 4 and isinstance(uses[0].args[2], ast.Name) and uses[0].args[2].id == body.name,
            f"{q}: the backward pass is not a jax.lax.fori_loop(lo, hi, body, init) (unrecognised form)")
    body._module = mi
    cfg = nf.cfg_of(body)
    bp = positional_params(body)
    ck.need(len(bp) == 2, f"{q}: fori_loop body must take (i, state)")
    i, st = bp
    env = {i: Poly.atom(i, {i}, {i}), st: Poly.atom(st, {st}, {st})}
    # closure variables of the loop body: single top-level assignments of the enclosing function (ep_len = rewards.shape[0], ...)
    ocfg = nf.cfg_of(fn)
    osc = Scope(ocfg, mi, {p_: Poly.atom(p_, {p_}, {p_}) for p_ in param_names(fn)}, q)
    local_stores = {x.id for x in ast.walk(body) if isinstance(x, ast.Name) and isinstance(x.ctx, ast.Store)} | set(bp)
    for top in fn.body:
        if isinstance(top, ast.Assign) and len(top.targets) == 1 and isinstance(top.targets[0], ast.Name) and top.targets[0].id not in local_stores:
            nm = top.targets[0].id
            if sum(1 for x in ast.walk(fn) if isinstance(x, ast.Name) and x.id == nm and isinstance(x.ctx, ast.Store)) == 1:
                env[nm] = nf.poly(top.value, osc, ocfg.stmt_node[id(top)])
    sc = Scope(cfg, mi, env, q + ".<locals>." + body.name)
    rets = [n for n in cfg.nodes if n.kind == "stmt" and isinstance(n.ast, ast.Return)]
    ck.need(len(rets) == 1, f"{q}: body has {len(rets)} returns")
    rp = nf.poly(rets[0].ast.value, sc, rets[0].id)
    ck.need(rp.elems is not None, f"{q}: body must return the loop state tuple")
    if len(rp.elems) != 3:
        def advances_state(e):
            m_ = nf.meta.get(e.single_atom() or "")
            if not m_ or "at" not in m_ or m_["at"]["op"] != "add" or not m_.get("args") or m_["args"][0].canon() != "1":
                return False
            return m_["at"]["base"].canon().startswith(f"{st}[")     # the updated array is a component of the loop state
        inbody = any(advances_state(e) for e in rp.elems)
        if not inbody:
            ck.ob("R3-monte-carlo", q, "body:n'", False, f"loop state has {len(rp.elems)} components, none of them a visit count advanced by one",
                  "the visit count is not advanced inside the backward loop: every step must divide by the number of visits *so far* (running mean), not by a count computed elsewhere", loc(mi, body))
            return
        raise AnalysisError(f"{q}: loop state arity {len(rp.elems)} (unrecognised idiom)")
    ssc = Scope(None, mi, env, q)
    idx = f"rewards.shape[0] - 1 - {i}"
    o, a, r = f"observations[{idx}]", f"actions[{idx}]", f"rewards[{idx}]"
    G = f"({r} + gamma * {st}[2])"
    N = f"{st}[1].at[{o}, {a}].add(1)"
    want = [f"{st}[0].at[{o}, {a}].add(1.0 / {N}[{o}, {a}] * ({G} - {st}[0][{o}, {a}]))", N, G]
    names = ["Q' = Q.at[s,a].add((G' - Q[s,a]) / n'[s,a])", "n' = n.at[s,a].add(1)", "G' = r + gamma * G"]
    for k in range(3):
        w = nf.poly(parse_expr(want[k]), ssc, None)
        ok = rp.elems[k] == w
        ck.ob("R3-monte-carlo", q, f"body:{names[k].split(' ')[0]}", ok, f"{rp.elems[k].canon()[:150]}", "" if ok else f"expected {names[k]} with idx = len-1-i, i.e. `{w.canon()[:150]}`", loc(mi, body))
    # fori_loop(0, ep_len, body, (q_table, n_visits, 0.0)); ep_len = rewards.shape[0]
    ocfg = nf.cfg_of(fn)
    osc = Scope(ocfg, mi, {p: Poly.atom(p, {p}, {p}) for p in param_names(fn)}, q)
    calls = [(n, c) for n in ocfg.nodes if n.ast is not None and n.kind == "stmt" for c in ast.walk(n.ast) if isinstance(c, ast.Call) and dotted(c.func).endswith("fori_loop")]
    ck.need(len(calls) == 1, f"{q}: fori_loop call not found")
    n, c = calls[0]
    args = [nf.poly(x, osc, n.id).canon() for x in c.args]
    ok = len(args) == 4 and args[0] == "0" and args[1] == "rewards.shape[0]" and args[3] == "(q_table, n_visits, 0)"
    ck.ob("R3-monte-carlo", q, "loop-bounds-and-init", ok, f"fori_loop({', '.join(args)[:120]})", "" if ok else "expected fori_loop(0, len(rewards), body, (q_table, n_visits, 0.0))", loc(mi, c))


def _dynaq(ck, repo, nf):
    # planning: every replayed transition (s, a) drawn from the visited pairs is completed by the model - s' = argmax P(.|s,a),
    # r = R(s,a,s') - and learned from with the greedy-successor update (the direct update of the real transition is read at loop
    # level by _td_loops)
    from ..sympath import enumerate_paths, PathEval
    pq = A + "dynaq.planning"
    fn = repo.func(pq)
    mi = fn._module
    cfg = nf.cfg_of(fn)
    P = param_names(fn)
    ck.need(len(P) >= 9 and P[0] == "model_transition" and P[1] == "model_reward" and "q_table" in P, f"{pq}: signature changed (anchor vanished)")
    MT, MR = P[0], P[1]
    loops = [n for n in cfg.nodes if n.kind == "for"]
    ck.need(len(loops) == 1, f"{pq}: expected one planning loop (unrecognised form)")
    lp = loops[0]
    env0 = {p_: Poly.atom(p_, {p_}, {p_}) for p_ in P}
    paths = enumerate_paths(cfg, lp.id, {lp.id}, first_label=True)
    ck.need(len(paths) >= 1, f"{pq}: loop body not readable")
    where = loc(mi, lp.ast)
    for pth in paths:
        tg = lp.ast.target
        ck.need(isinstance(tg, (ast.Tuple, ast.List)) and len(tg.elts) == 2 and all(isinstance(x, ast.Name) for x in tg.elts), f"{pq}: the planning loop does not iterate over (observation, action) pairs (unrecognised form)")
        pe = PathEval(nf, cfg, mi, pq, env0)
        Sp, Ap = Poly.atom("S_"), Poly.atom("A_")
        for k_, (nid, lab) in enumerate(pth[:-1]):
            pe.step(nid, lab)
            if k_ == 0:
                pe.env[tg.elts[0].id], pe.env[tg.elts[1].id] = Sp, Ap
        new = pe.env["q_table"]
        au = _at_update(nf, new)
        if au is None:
            raise AnalysisError(f"{pq}: new table `{new.canon()[:100]}` is not a single-entry update (unrecognised form)")
        base, idx, op, val = au
        ck.need(base == env0["q_table"], f"{pq}: update of `{base.canon()[:40]}` (unrecognised form)")
        okidx = idx == "S_, A_"
        if not okidx and not set(_names(idx)) <= {"S_", "A_"}:
            raise AnalysisError(f"{pq}: update index `{idx[:60]}` (unrecognised form)")
        ck.ob("R4-dyna-q", pq, "replayed-write-index", okidx, f"q_table.at[{idx}]", "" if okidx else "the replayed update must change the entry of the replayed (observation, action) pair", where)
        sce = Scope(None, mi, {**env0, "S_": Sp, "A_": Ap}, pq)
        Np = nf._mkcall("argmax", [nf.poly(parse_expr(f"{MT}[S_, A_]"), sce, None)], {})
        sce2 = Scope(None, mi, {**env0, "S_": Sp, "A_": Ap, "N_": Np}, pq)
        Rp = nf.poly(parse_expr(f"{MR}[S_, A_, N_]"), sce2, None)
        row = nf.poly(parse_expr("q_table[N_]"), sce2, None)
        greedy = nf._mkcall("argmax", [row], {})
        sce3 = Scope(None, mi, {**env0, "S_": Sp, "A_": Ap, "N_": Np, "R_": Rp, "G_": greedy}, pq)
        read = nf.poly(parse_expr("q_table[S_, A_]"), sce3, None)
        delta = val if op == "add" else val - read
        want = nf.poly(parse_expr("learning_rate * (R_ + gamma * q_table[N_, G_] - q_table[S_, A_])"), sce3, None)
        ok = delta == want
        if not ok and not same_ingredients(delta, want):
            raise AnalysisError(f"{pq}: replayed increment `{delta.canon()[:120]}` (unrecognised form)")
        ck.ob("R4-dyna-q", pq, "replayed-transition", ok, f"increment = {delta.canon()[:150]}", "" if ok else f"replayed transitions must come from the learned model (s' = argmax P(.|s,a), r = R(s,a,s')) and be learned from with the greedy-successor update: expected `{want.canon()[:140]}`", where)
        # the replayed pair is a visited (observation, action) pair: both drawn with the same index from the two buffers
        it = nf.poly(lp.ast.iter, Scope(cfg, mi, env0, pq), lp.id).canon()
        okp = P[2] in it and P[3] in it
        if not okp:
            raise AnalysisError(f"{pq}: planning loop iterates over `{it[:80]}` (unrecognised form)")
    # train_dynaq plans after learning from the real transition
    tq = A + "dynaq.train_dynaq"
    tfn = repo.func(tq)
    hits = [c for c in ast.walk(tfn) if isinstance(c, ast.Call) and isinstance(c.func, (ast.Name, ast.Attribute)) and repo.resolve_expr(tfn._module, c.func) == pq]
    ck.ob("R4-dyna-q", tq, "plans-from-model", len(hits) == 1, f"{len(hits)} call(s) of planning", "" if len(hits) == 1 else "Dyna-Q replays model transitions once per real step", loc(tfn._module, tfn))
    # model_update footprint
    q = A + "dynaq.model_update"
    fn = repo.func(q)
    mi = fn._module
    writes = _at_writes(fn)
    tw = [w for w in writes if "transition" in ast.unparse(w.func.value.value.value)]
    rw = [w for w in writes if "reward" in ast.unparse(w.func.value.value.value)]
    ck.need(len(tw) == 1 and len(rw) == 1, f"{q}: expected one transition write and one reward write")
    w = tw[0]
    idx = w.func.value.slice
    n_idx = len(idx.elts) if isinstance(idx, ast.Tuple) else 1
    mcfg = nf.cfg_of(fn)
    msc = Scope(mcfg, mi, {p: Poly.atom(p, {p}, {p}) for p in param_names(fn)}, q)
    val = nf.poly(w.args[0], msc, mcfg.node_of(w).id).canon()
    aggregates_row = "sum(" in val
    ok = (n_idx == 2 and aggregates_row) or (n_idx == 3 and not aggregates_row)
    ck.ob("R4-dyna-q", q, "transition-row-footprint", ok, f"`{short(w, 110)}`",
          "" if ok else "the stored probability is normalised by the row total, which changes with every visit of (s,a), but only one entry of the row is rewritten: "
                        "the other entries keep stale values and P(.|s,a) no longer sums to one", loc(mi, w))
    if n_idx == 2:
        cfg = nf.cfg_of(fn)
        sc = Scope(cfg, mi, {p: Poly.atom(p, {p}, {p}) for p in param_names(fn)}, q)
        v = nf.poly(w.args[0], sc, cfg.node_of(w).id).canon()
        okv = "counter.transition_counter[obs][act]" in v and "sum(" in v and "^-1" in v
        ck.ob("R4-dyna-q", q, "transition-row-value", okv, f"row = {v[:120]}", "" if okv else "row must be counts(s,a,.) / sum(counts(s,a,.))", loc(mi, w))
    w = rw[0]
    okr = ast.unparse(w.func.value.slice) in ("(obs, act, next_obs)", "obs, act, next_obs")
    rv = nf.poly(w.args[0], msc, mcfg.node_of(w).id).canon()
    H = "counter.reward_history[obs][act][next_obs]"
    okr = okr and rv in (f"mean({H})", f"len({H})^-1*sum({H})")
    ck.ob("R4-dyna-q", q, "reward-mean", okr, f"`{short(w, 100)}`", "" if okr else "R(s,a,s') must be the mean of the rewards observed for that transition", loc(mi, w))
    # counter_update
    q = A + "dynaq.counter_update"
    fn = repo.func(q)
    txt = [ast.unparse(s) for s in fn.body if not (isinstance(s, ast.Expr) and isinstance(s.value, ast.Constant))]
    ok = "counter.transition_counter[obs][act][next_obs] += 1" in txt and "counter.reward_history[obs][act][next_obs].append(reward)" in txt
    ck.ob("R4-dyna-q", q, "counts", ok, " ; ".join(txt)[:140], "" if ok else "the counter must count the observed transition once and record its reward", loc(fn._module, fn))


def _td_error(ck, repo, nf):
    # td_error carries no obligation of its own: it is inlined at every use site, so any change of it is judged there
    ck.note("td_error is checked through inlining at its call sites (no frozen form of the helper itself)")
    q = "rl_blox.blox.value_policy.greedy_policy"
    fn = repo.func(q)
    env = {p: Poly.atom(p, {p}, {p}) for p in param_names(fn)}
    got = nf.return_poly(q, env).canon()
    ck.ob("R2-co-indexing", q, "argmax-of-row", got == "argmax(q_table[observation])", f"greedy_policy = {got}", "" if got == "argmax(q_table[observation])" else "greedy selection must be argmax over the row of the observation", loc(fn._module, fn))


def run(ck, repo: Repo, tier: str):
    nf = NF(repo, inline_depth=4)
    ck.guard(_td_loops, ck, repo, nf)
    ck.guard(_td_error, ck, repo, nf)
    ck.guard(_monte_carlo, ck, repo, nf)
    ck.guard(_dynaq, ck, repo, nf)


_Q, _S, _D, _M, _Y = "rl_blox/algorithm/q_learning.py", "rl_blox/algorithm/sarsa.py", "rl_blox/algorithm/double_q_learning.py", "rl_blox/algorithm/monte_carlo.py", "rl_blox/algorithm/dynaq.py"
MUTANTS = [
    {"id": "c14-q-wrong-next-index", "file": _Q, "rule": "R1", "find": "q_table[next_observation, next_action]", "replace": "q_table[next_observation, action]"},
    {"id": "c14-q-write-next", "file": _Q, "rule": "R1", "find": "    q_table = q_table.at[observation, action].add(learning_rate * error)", "replace": "    q_table = q_table.at[next_observation, action].add(learning_rate * error)"},
    {"id": "c14-q-no-mask", "file": _Q, "rule": "R1", "find": "    next_val = (1 - terminated) * q_table[next_observation, next_action]", "replace": "    next_val = q_table[next_observation, next_action]"},
    {"id": "c14-q-sign", "file": "rl_blox/util/error_functions.py", "rule": "R1", "find": "    return reward + gamma * next_value - value", "replace": "    return reward + gamma * next_value + value"},
    {"id": "c14-q-greedy-at-obs", "file": _Q, "rule": "R", "find": "        next_action = greedy_policy(q_table, next_observation)", "replace": "        next_action = greedy_policy(q_table, observation)"},
    {"id": "c14-q-two-writes", "file": _Q, "rule": "R1", "find": "    q_table = q_table.at[observation, action].add(learning_rate * error)\n", "replace": "    q_table = q_table.at[observation, action].add(learning_rate * error)\n    q_table = q_table.at[next_observation, next_action].add(0.0 * error)\n"},
    {"id": "c14-sarsa-greedy-next", "file": _S, "rule": "R2", "find": "        next_action = epsilon_greedy_policy(\n            q_table, next_observation, epsilon, subkey\n        )", "replace": "        next_action = epsilon_greedy_policy(\n            q_table, observation, epsilon, subkey\n        )"},
    {"id": "c14-sarsa-lr-gamma-swapped", "file": _S, "rule": "R", "find": "            gamma,\n            learning_rate,\n            terminated,\n        )", "replace": "            learning_rate,\n            gamma,\n            terminated,\n        )"},
    {"id": "c14-dql-same-table-eval", "file": _D, "rule": "R1", "find": "    next_val = (1 - terminated) * q_table2[next_observation, next_action]", "replace": "    next_val = (1 - terminated) * q_table1[next_observation, next_action]"},
    {"id": "c14-dql-select-at-obs", "file": _D, "rule": "R1", "find": "    next_action = greedy_policy(q_table1, next_observation)", "replace": "    next_action = greedy_policy(q_table1, observation)"},
    {"id": "c14-dql-callsite-same-tables", "file": _D, "rule": "R", "find": "                subkey2,\n                q_table2,\n                q_table1,", "replace": "                subkey2,\n                q_table2,\n                q_table2,"},
    {"id": "c14-mc-forward", "file": _M, "rule": "R3", "find": "        idx = ep_len - 1 - i", "replace": "        idx = i"},
    {"id": "c14-mc-count-after", "file": _M, "rule": "R3", "find": "            1.0 / n_visits[obs, act] * pred_error", "replace": "            1.0 / (n_visits[obs, act] + 1) * pred_error"},
    {"id": "c14-mc-return-undiscounted", "file": _M, "rule": "R3", "find": "        ep_return = rew + gamma * ep_return", "replace": "        ep_return = rew + ep_return"},
    {"id": "c14-mc-init", "file": _M, "rule": "R3", "find": "        0, ep_len, _update_body, (q_table, n_visits, 0.0)", "replace": "        1, ep_len, _update_body, (q_table, n_visits, 0.0)"},
    {"id": "c14-dyna-set-no-read", "file": _Y, "rule": "R1", "find": "        q_table[obs, act] + learning_rate * q_target\n", "replace": "        learning_rate * q_target\n"},
    {"id": "c14-dyna-planning-reward-row", "file": _Y, "rule": "R4", "find": "        reward = model_reward[obs, act, next_obs]", "replace": "        reward = model_reward[obs, act, obs]"},
    {"id": "c14-dyna-reward-last", "file": _Y, "rule": "R4", "find": "        np.mean(counter.reward_history[obs][act][next_obs])", "replace": "        counter.reward_history[obs][act][next_obs][-1]"},
]
BENIGN = [
    {"id": "c14-b-q-inline-td", "file": _Q, "find": "    error = td_error(reward, gamma, val, next_val)", "replace": "    error = reward + gamma * next_val - val"},
    {"id": "c14-b-q-set-form", "file": _Q, "find": "    q_table = q_table.at[observation, action].add(learning_rate * error)", "replace": "    q_table = q_table.at[observation, action].set(val + learning_rate * error)"},
    {"id": "c14-b-q-not-done", "file": _Q, "find": "    next_val = (1 - terminated) * q_table[next_observation, next_action]\n    error = td_error(reward, gamma, val, next_val)", "replace": "    not_done = 1 - terminated\n    error = td_error(reward, gamma * not_done, val, q_table[next_observation, next_action])"},
    {"id": "c14-b-mc-div", "file": _M, "find": "            1.0 / n_visits[obs, act] * pred_error", "replace": "            pred_error / n_visits[obs, act]"},
    {"id": "c14-b-dyna-add-form", "file": _Y, "find": "    return q_table.at[obs, act].set(\n        q_table[obs, act] + learning_rate * q_target\n    )", "replace": "    return q_table.at[obs, act].add(learning_rate * q_target)"},
]
