"""C14 - tabular learners apply their textbook update to exactly one entry."""
from __future__ import annotations

import ast

from ..loops import dotted
from ..nf import NF, Scope, Poly, parse_expr
from ..repo import Repo, loc, short, AnalysisError, positional_params, param_names, bind_call
from ..cfg import CFG

EXPLANATION = (
    "Every tabular update function is reduced by def-use and callee inlining (td_error, greedy_policy) to a normal form and compared, "
    "as a polynomial identity over the function's own parameters, with the textbook increment written as a spec expression that is "
    "normalised by the same engine in the same module scope. The write footprint is decided syntactically (exactly one .at[...] "
    "write, its index tuple equal to the index of the value read). R2 transfers the co-indexing obligation to the callers: the "
    "`next_action` handed to Q-learning / SARSA derives from (epsilon-)greedy selection on the same table at the successor "
    "observation. The Monte-Carlo fori_loop body is checked as three identities, Dyna-Q's model by its row footprint."
)
TRUSTED = ["jnp `.at[idx].add/.set` functional update semantics; jnp.argmax returns a maximiser; jax.lax.fori_loop(lo, hi, body, init)"]
RULES = {
    "R1-update-formula": "returned table == Q.at[s,a].add(lr * (r + gamma * (1 - terminated) * V_next - Q[s,a])) with the algorithm's V_next (polynomial identity)",
    "R1-footprint": "exactly one table write per update, at the index tuple that is read for Q[s,a]",
    "R2-co-indexing": "the successor action indexes the successor row and was selected on the documented table at the successor observation",
    "R3-monte-carlo": "backward loop: idx = len-1-i, G' = r + gamma*G, n' = n.at[s,a].add(1), Q' = Q.at[s,a].add((G' - Q[s,a]) / n'[s,a]); G0 = 0 over [0, len)",
    "R4-dyna-q": "Dyna-Q uses the greedy-successor update for real and replayed transitions; the model row P(.|s,a) is rewritten as a whole (empirical frequencies), rewards are means",
}

A = "rl_blox.algorithm."
UPDATES = {
    A + "q_learning._update_policy": {
        "table": "q_table", "idx": ("observation", "action"),
        "delta": "learning_rate * (reward + gamma * (1 - terminated) * q_table[next_observation, next_action] - q_table[observation, action])"},
    A + "sarsa._update_policy": {
        "table": "q_table", "idx": ("observation", "action"),
        "delta": "learning_rate * (reward + gamma * (1 - terminated) * q_table[next_observation, next_action] - q_table[observation, action])"},
    A + "double_q_learning._dql_update": {
        "table": "q_table1", "idx": ("observation", "action"),
        "delta": "learning_rate * (reward + gamma * (1 - terminated) * q_table2[next_observation, greedy_policy(q_table1, next_observation)] - q_table1[observation, action])"},
    A + "dynaq.q_learning_update": {
        "table": "q_table", "idx": ("obs", "act"),
        "delta": "learning_rate * (reward + gamma * q_table[next_obs, greedy_policy(q_table, next_obs)] - q_table[obs, act])",
        "delta_alt": "learning_rate * (reward + gamma * (1 - terminated) * q_table[next_obs, greedy_policy(q_table, next_obs)] - q_table[obs, act])"},
}


def _final_write(nf, fn, cfg):
    """(return node, call `<T>.at[idx].add|set(v)`) that produces the returned table."""
    rets = [n for n in cfg.nodes if n.kind == "stmt" and isinstance(n.ast, ast.Return) and n.ast.value is not None]
    if len(rets) != 1:
        raise AnalysisError(f"{fn.name}: expected one return")
    r = rets[0]
    v = r.ast.value
    at = r.id
    for _ in range(4):
        if isinstance(v, ast.Name):
            ds = cfg.defs_of(at, v.id)
            if len(ds) != 1 or ds[0].kind != "assign":
                raise AnalysisError(f"{fn.name}: returned table has no single definition (unrecognised idiom)")
            v, at = ds[0].value, ds[0].node
        else:
            break
    if not (isinstance(v, ast.Call) and isinstance(v.func, ast.Attribute) and v.func.attr in ("add", "set") and isinstance(v.func.value, ast.Subscript)
            and isinstance(v.func.value.value, ast.Attribute) and v.func.value.value.attr == "at"):
        raise AnalysisError(f"{fn.name}: returned value is not `<table>.at[idx].add/set(..)` (unrecognised idiom)")
    return r, v, at


def _at_writes(fn):
    out = []
    for n in ast.walk(fn):
        if isinstance(n, ast.Call) and isinstance(n.func, ast.Attribute) and n.func.attr in ("add", "set", "multiply", "min", "max", "apply") and isinstance(n.func.value, ast.Subscript) \
                and isinstance(n.func.value.value, ast.Attribute) and n.func.value.value.attr == "at":
            out.append(n)
    return out


def check_update(ck, repo, nf, q, spec):
    fn = repo.func(q)
    mi = fn._module
    cfg = nf.cfg_of(fn)
    where = loc(mi, fn)
    params = param_names(fn)
    for nm in (spec["table"],) + spec["idx"]:
        ck.need(nm in params, f"{q}: parameter `{nm}` vanished")
    env = {p: Poly.atom(p, {p}, {p}) for p in params}
    sc = Scope(cfg, mi, env, q)
    r, call, at = _final_write(nf, fn, cfg)
    writes = _at_writes(fn)
    ck.ob("R1-footprint", q, "single-write", len(writes) == 1, f"{len(writes)} `.at[...]` write(s)", "" if len(writes) == 1 else "an update must change exactly one table entry", where)
    tbl = call.func.value.value.value
    idx = call.func.value.slice
    # canonical table and index at the write (locals / index tuples resolved through reaching definitions; a redefined parameter
    # shows up as a different normal form)
    idx_txt, _ = nf._slice(idx, sc, at, 0)
    okt = nf.poly(tbl, sc, at).canon() == spec["table"] and idx_txt == ", ".join(spec["idx"])
    ck.ob("R1-footprint", q, "write-index", okt, f"`{short(call.func.value)}` written", "" if okt else f"the entry written is not {spec['table']}[{', '.join(spec['idx'])}] (the visited state-action entry of the updated table)", loc(mi, call))
    val = nf.poly(call.args[0], sc, at) if call.args else Poly({})
    read = nf.poly(parse_expr(f"{spec['table']}[{', '.join(spec['idx'])}]"), Scope(None, mi, env, q), None)
    delta = val if call.func.attr == "add" else val - read
    wants = [spec["delta"]] + ([spec["delta_alt"]] if "delta_alt" in spec else [])
    ok = False
    for w in wants:
        want = nf.poly(parse_expr(w), Scope(None, mi, env, q), None)
        if delta == want:
            ok = True
    why = ""
    if not ok:
        want = nf.poly(parse_expr(wants[0]), Scope(None, mi, env, q), None)
        diff = delta - want
        why = f"increment differs from the textbook one by `{diff.canon()[:160]}`"
    ck.ob("R1-update-formula", q, "increment", ok, f"increment = {delta.canon()[:170]}", why, loc(mi, call))


def _callers_coindex(ck, repo, nf):
    # Q-learning / SARSA: next_action selected on the same table at the successor observation
    for tq, uq, sel in ((A + "q_learning.train_q_learning", A + "q_learning._update_policy", "greedy_policy"),
                        (A + "sarsa.train_sarsa", A + "sarsa._update_policy", "epsilon_greedy_policy")):
        fn = repo.func(tq)
        mi = fn._module
        cfg = nf.cfg_of(fn)
        ufn = repo.func(uq)
        found = False
        for n in cfg.nodes:
            if n.ast is None or n.kind != "stmt":
                continue
            for c in ast.walk(n.ast):
                if isinstance(c, ast.Call) and isinstance(c.func, ast.Name) and repo.resolve_name(mi, c.func.id) == uq:
                    found = True
                    b = bind_call(ufn, c)
                    na, tb, no = b.get("next_action"), b.get("q_table"), b.get("next_observation")
                    ok, why = False, "next_action is not a variable"
                    if isinstance(na, ast.Name):
                        ds = cfg.defs_of(n.id, na.id)
                        if len(ds) == 1 and ds[0].kind == "assign" and isinstance(ds[0].value, ast.Call) and isinstance(ds[0].value.func, ast.Name):
                            sc = ds[0].value
                            sq = repo.resolve_name(mi, sc.func.id)
                            okf = sq == f"rl_blox.blox.value_policy.{sel}"
                            a0 = sc.args[0] if sc.args else None
                            a1 = sc.args[1] if len(sc.args) > 1 else None
                            same_tbl = a0 is not None and tb is not None and ast.unparse(a0) == ast.unparse(tb) and \
                                cfg.reaching()[ds[0].node].get(dotted(a0)) == cfg.reaching()[n.id].get(dotted(tb))
                            same_row = a1 is not None and no is not None and ast.unparse(a1) == ast.unparse(no)
                            ok = okf and same_tbl and same_row
                            why = "" if ok else (f"successor action chosen by `{short(sc, 60)}`: " + ("wrong selection rule; " if not okf else "") + ("not on the table being updated; " if not same_tbl else "") + ("not at the successor observation" if not same_row else ""))
                        else:
                            why = "next_action has no single definition by a policy call"
                    ck.ob("R2-co-indexing", tq, "next-action-provenance", ok, f"`{short(c, 70)}`", why, loc(mi, c))
                    # role transfer: arguments in signature order
                    for role in ("observation", "action", "reward", "next_observation", "terminated", "gamma", "learning_rate"):
                        a = b.get(role)
                        okr = a is not None and dotted(a).split(".")[-1].replace("_", "") .startswith(role.replace("_", "")[:4]) if role not in ("gamma", "learning_rate") else (a is not None and dotted(a) == role)
                        if role in ("gamma", "learning_rate"):
                            ck.ob("R2-co-indexing", tq, f"arg:{role}", okr, f"{role} <- {short(a) if a is not None else None}", "" if okr else f"`{role}` receives a different quantity", loc(mi, c))
        ck.need(found, f"{tq}: update call not found")
    # double Q-learning: per path through one iteration exactly one table changes, to _dql_update(.., <that table>, <the other>, ..),
    # and each table is the updated one on some path (path evaluation: call sites may be merged, tables passed through locals)
    from ..sympath import enumerate_paths, PathEval
    from ..loops import find_env_loop
    tq, uq = A + "double_q_learning.train_double_q_learning", A + "double_q_learning._dql_update"
    fn = repo.func(tq)
    mi = fn._module
    ufn = repo.func(uq)
    up = positional_params(ufn)
    ck.need(len(up) >= 3, f"{uq}: signature changed (anchor vanished)")
    L = find_env_loop(repo, tq)
    cfg = nf.cfg_of(fn)
    hdr = cfg.stmt_node[id(cfg.nodes[L.outer_header].ast)] if hasattr(L, "outer_header") else None
    ck.need(hdr is not None, f"{tq}: training loop not found")
    T1, T2 = "q_table1", "q_table2"
    ck.need(T1 in param_names(fn) and T2 in param_names(fn), f"{tq}: table parameters renamed (anchor vanished)")
    env0 = {T1: Poly.atom("Q1", {"Q1"}, {"Q1"}), T2: Poly.atom("Q2", {"Q2"}, {"Q2"})}
    nfp = NF(repo, inline_depth=1, inline_calls=False)
    try:
        paths = enumerate_paths(cfg, hdr, {hdr}, first_label=True, max_paths=5000)
    except RuntimeError:
        raise AnalysisError(f"{tq}: too many paths through one iteration")
    updated, sigs = set(), set()
    for pth in paths:
        pe = PathEval(nfp, cfg, mi, tq, env0).run(pth[:-1])
        v1, v2 = pe.env[T1].canon(), pe.env[T2].canon()
        sig = (v1, v2)
        if sig in sigs:
            continue
        sigs.add(sig)
        ch1, ch2 = v1 != "Q1", v2 != "Q2"
        where = loc(mi, fn)
        if ch1 == ch2:
            ck.ob("R2-co-indexing", tq, "one-table-per-step", False, f"q_table1' = {v1[:60]}, q_table2' = {v2[:60]}", "each step must update exactly one of the two tables", where)
            continue
        new, own, other = (v1, "Q1", "Q2") if ch1 else (v2, "Q2", "Q1")
        a = nfp.meta.get(new, {})
        isup = new.startswith("_dql_update(") or new.startswith(uq + "(") or a.get("fn", "").endswith("_dql_update")
        if not isup:
            raise AnalysisError(f"{tq}: new table value `{new[:80]}` is not a _dql_update(...) result (unrecognised idiom)")
        args = [x.canon() for x in a.get("args", [])]
        kws = {k: v.canon() for k, v in a.get("kws", {}).items()}
        bound = dict(zip(up, args))
        bound.update(kws)
        ok = bound.get(up[1]) == own and bound.get(up[2]) == other
        updated.add(own)
        ck.ob("R2-co-indexing", tq, f"tables:{'q_table1' if ch1 else 'q_table2'}", ok, f"{'q_table1' if ch1 else 'q_table2'}' = _dql_update(.., {bound.get(up[1])}, {bound.get(up[2])}, ..)",
              "" if ok else "the table that receives the result must be the first table argument (selection / update) and the evaluation table the other one", where)
    ck.ob("R2-co-indexing", tq, "two-call-sites", updated == {"Q1", "Q2"}, f"tables updated on some path: {sorted(updated)}", "" if updated == {"Q1", "Q2"} else "double Q-learning must update either table (each on some path)", loc(mi, fn))


def _monte_carlo(ck, repo, nf):
    q = A + "monte_carlo.update"
    fn = repo.func(q)
    mi = fn._module
    body = next((n for n in fn.body if isinstance(n, ast.FunctionDef)), None)
    ck.need(body is not None, f"{q}: loop body function not found (anchor vanished)")
    body._module = mi
    cfg = nf.cfg_of(body)
    bp = positional_params(body)
    ck.need(len(bp) == 2, f"{q}: fori_loop body must take (i, state)")
    i, st = bp
    env = {i: Poly.atom(i, {i}, {i}), st: Poly.atom(st, {st}, {st})}
    # closure variables of the loop body: single top-level assignments of the enclosing function (ep_len = rewards.shape[0], ...)
    ocfg = nf.cfg_of(fn)
    osc = Scope(ocfg, mi, {p_: Poly.atom(p_, {p_}, {p_}) for p_ in param_names(fn)}, q)
    local_stores = {x.id for x in ast.walk(body) if isinstance(x, ast.Name) and isinstance(x.ctx, ast.Store)} | set(bp)
    for top in fn.body:
        if isinstance(top, ast.Assign) and len(top.targets) == 1 and isinstance(top.targets[0], ast.Name) and top.targets[0].id not in local_stores:
            nm = top.targets[0].id
            if sum(1 for x in ast.walk(fn) if isinstance(x, ast.Name) and x.id == nm and isinstance(x.ctx, ast.Store)) == 1:
                env[nm] = nf.poly(top.value, osc, ocfg.stmt_node[id(top)])
    sc = Scope(cfg, mi, env, q + ".<locals>." + body.name)
    rets = [n for n in cfg.nodes if n.kind == "stmt" and isinstance(n.ast, ast.Return)]
    ck.need(len(rets) == 1, f"{q}: body has {len(rets)} returns")
    rp = nf.poly(rets[0].ast.value, sc, rets[0].id)
    ck.need(rp.elems is not None, f"{q}: body must return the loop state tuple")
    if len(rp.elems) != 3:
        def advances_state(e):
            m_ = nf.meta.get(e.single_atom() or "")
            if not m_ or "at" not in m_ or m_["at"]["op"] != "add" or not m_.get("args") or m_["args"][0].canon() != "1":
                return False
            return m_["at"]["base"].canon().startswith(f"{st}[")     # the updated array is a component of the loop state
        inbody = any(advances_state(e) for e in rp.elems)
        if not inbody:
            ck.ob("R3-monte-carlo", q, "body:n'", False, f"loop state has {len(rp.elems)} components, none of them a visit count advanced by one",
                  "the visit count is not advanced inside the backward loop: every step must divide by the number of visits *so far* (running mean), not by a count computed elsewhere", loc(mi, body))
            return
        raise AnalysisError(f"{q}: loop state arity {len(rp.elems)} (unrecognised idiom)")
    ssc = Scope(None, mi, env, q)
    idx = f"rewards.shape[0] - 1 - {i}"
    o, a, r = f"observations[{idx}]", f"actions[{idx}]", f"rewards[{idx}]"
    G = f"({r} + gamma * {st}[2])"
    N = f"{st}[1].at[{o}, {a}].add(1)"
    want = [f"{st}[0].at[{o}, {a}].add(1.0 / {N}[{o}, {a}] * ({G} - {st}[0][{o}, {a}]))", N, G]
    names = ["Q' = Q.at[s,a].add((G' - Q[s,a]) / n'[s,a])", "n' = n.at[s,a].add(1)", "G' = r + gamma * G"]
    for k in range(3):
        w = nf.poly(parse_expr(want[k]), ssc, None)
        ok = rp.elems[k] == w
        ck.ob("R3-monte-carlo", q, f"body:{names[k].split(' ')[0]}", ok, f"{rp.elems[k].canon()[:150]}", "" if ok else f"expected {names[k]} with idx = len-1-i, i.e. `{w.canon()[:150]}`", loc(mi, body))
    # fori_loop(0, ep_len, body, (q_table, n_visits, 0.0)); ep_len = rewards.shape[0]
    ocfg = nf.cfg_of(fn)
    osc = Scope(ocfg, mi, {p: Poly.atom(p, {p}, {p}) for p in param_names(fn)}, q)
    calls = [(n, c) for n in ocfg.nodes if n.ast is not None and n.kind == "stmt" for c in ast.walk(n.ast) if isinstance(c, ast.Call) and dotted(c.func).endswith("fori_loop")]
    ck.need(len(calls) == 1, f"{q}: fori_loop call not found")
    n, c = calls[0]
    args = [nf.poly(x, osc, n.id).canon() for x in c.args]
    ok = len(args) == 4 and args[0] == "0" and args[1] == "rewards.shape[0]" and args[3] == "(q_table, n_visits, 0)"
    ck.ob("R3-monte-carlo", q, "loop-bounds-and-init", ok, f"fori_loop({', '.join(args)[:120]})", "" if ok else "expected fori_loop(0, len(rewards), body, (q_table, n_visits, 0.0))", loc(mi, c))


def _dynaq(ck, repo, nf):
    # both call sites of q_learning_update bind the roles in signature order
    uq = A + "dynaq.q_learning_update"
    ufn = repo.func(uq)
    for tq, want in ((A + "dynaq.train_dynaq", {"obs": "obs", "act": "act", "reward": "reward", "next_obs": "next_obs", "q_table": "q_table", "gamma": "gamma", "learning_rate": "learning_rate"}),
                     (A + "dynaq.planning", {"obs": "obs", "act": "act", "reward": "reward", "next_obs": "next_obs", "q_table": "q_table", "gamma": "gamma", "learning_rate": "learning_rate"})):
        fn = repo.func(tq)
        mi = fn._module
        hit = 0
        for c in ast.walk(fn):
            if isinstance(c, ast.Call) and isinstance(c.func, ast.Name) and repo.resolve_name(mi, c.func.id) == uq:
                hit += 1
                b = bind_call(ufn, c)
                got = {k: dotted(v) for k, v in b.items()}
                ok = got == want
                ck.ob("R4-dyna-q", tq, "update-call-roles", ok, f"`{short(c, 80)}`", "" if ok else f"arguments {got} do not match the roles {want}", loc(mi, c))
        ck.ob("R4-dyna-q", tq, "uses-greedy-successor-update", hit == 1, f"{hit} call(s) of q_learning_update", "" if hit == 1 else "Dyna-Q must apply the greedy-successor update here", loc(mi, fn))
    # planning: replayed successor = argmax of the model row, reward = model mean reward of that transition
    fn = repo.func(A + "dynaq.planning")
    mi = fn._module
    cfg = nf.cfg_of(fn)
    sc = Scope(cfg, mi, {p: Poly.atom(p, {p}, {p}) for p in param_names(fn)}, A + "dynaq.planning")
    for c in ast.walk(fn):
        if isinstance(c, ast.Call) and isinstance(c.func, ast.Name) and c.func.id == "q_learning_update":
            at = cfg.node_of(c).id
            b = bind_call(ufn, c)
            nx = nf.poly(b["next_obs"], sc, at).canon()
            rw = nf.poly(b["reward"], sc, at).canon()
            ok = nx.startswith("argmax(model_transition[") and rw.startswith("model_reward[") and nx in rw
            ck.ob("R4-dyna-q", A + "dynaq.planning", "replayed-transition", ok, f"next_obs = {nx[:70]}; reward = {rw[:90]}", "" if ok else "replayed transitions must come from the learned model: s' = argmax P(.|s,a), r = R(s,a,s')", loc(mi, c))
    # model_update footprint
    q = A + "dynaq.model_update"
    fn = repo.func(q)
    mi = fn._module
    writes = _at_writes(fn)
    tw = [w for w in writes if "transition" in ast.unparse(w.func.value.value.value)]
    rw = [w for w in writes if "reward" in ast.unparse(w.func.value.value.value)]
    ck.need(len(tw) == 1 and len(rw) == 1, f"{q}: expected one transition write and one reward write")
    w = tw[0]
    idx = w.func.value.slice
    n_idx = len(idx.elts) if isinstance(idx, ast.Tuple) else 1
    mcfg = nf.cfg_of(fn)
    msc = Scope(mcfg, mi, {p: Poly.atom(p, {p}, {p}) for p in param_names(fn)}, q)
    val = nf.poly(w.args[0], msc, mcfg.node_of(w).id).canon()
    aggregates_row = "sum(" in val
    ok = (n_idx == 2 and aggregates_row) or (n_idx == 3 and not aggregates_row)
    ck.ob("R4-dyna-q", q, "transition-row-footprint", ok, f"`{short(w, 110)}`",
          "" if ok else "the stored probability is normalised by the row total, which changes with every visit of (s,a), but only one entry of the row is rewritten: "
                        "the other entries keep stale values and P(.|s,a) no longer sums to one", loc(mi, w))
    if n_idx == 2:
        cfg = nf.cfg_of(fn)
        sc = Scope(cfg, mi, {p: Poly.atom(p, {p}, {p}) for p in param_names(fn)}, q)
        v = nf.poly(w.args[0], sc, cfg.node_of(w).id).canon()
        okv = "counter.transition_counter[obs][act]" in v and "sum(" in v and "^-1" in v
        ck.ob("R4-dyna-q", q, "transition-row-value", okv, f"row = {v[:120]}", "" if okv else "row must be counts(s,a,.) / sum(counts(s,a,.))", loc(mi, w))
    w = rw[0]
    okr = ast.unparse(w.func.value.slice) in ("(obs, act, next_obs)", "obs, act, next_obs")
    rv = nf.poly(w.args[0], msc, mcfg.node_of(w).id).canon()
    H = "counter.reward_history[obs][act][next_obs]"
    okr = okr and rv in (f"mean({H})", f"len({H})^-1*sum({H})")
    ck.ob("R4-dyna-q", q, "reward-mean", okr, f"`{short(w, 100)}`", "" if okr else "R(s,a,s') must be the mean of the rewards observed for that transition", loc(mi, w))
    # counter_update
    q = A + "dynaq.counter_update"
    fn = repo.func(q)
    txt = [ast.unparse(s) for s in fn.body if not (isinstance(s, ast.Expr) and isinstance(s.value, ast.Constant))]
    ok = "counter.transition_counter[obs][act][next_obs] += 1" in txt and "counter.reward_history[obs][act][next_obs].append(reward)" in txt
    ck.ob("R4-dyna-q", q, "counts", ok, " ; ".join(txt)[:140], "" if ok else "the counter must count the observed transition once and record its reward", loc(fn._module, fn))


def _td_error(ck, repo, nf):
    # td_error carries no obligation of its own: it is inlined at every use site, so any change of it is judged there
    ck.note("td_error is checked through inlining at its call sites (no frozen form of the helper itself)")
    q = "rl_blox.blox.value_policy.greedy_policy"
    fn = repo.func(q)
    env = {p: Poly.atom(p, {p}, {p}) for p in param_names(fn)}
    got = nf.return_poly(q, env).canon()
    ck.ob("R2-co-indexing", q, "argmax-of-row", got == "argmax(q_table[observation])", f"greedy_policy = {got}", "" if got == "argmax(q_table[observation])" else "greedy selection must be argmax over the row of the observation", loc(fn._module, fn))


def run(ck, repo: Repo, tier: str):
    nf = NF(repo, inline_depth=4)
    for q, spec in UPDATES.items():
        check_update(ck, repo, nf, q, spec)
    ck.floor("update-functions", len(UPDATES), 4)
    _td_error(ck, repo, nf)
    _callers_coindex(ck, repo, nf)
    _monte_carlo(ck, repo, nf)
    _dynaq(ck, repo, nf)


_Q, _S, _D, _M, _Y = "rl_blox/algorithm/q_learning.py", "rl_blox/algorithm/sarsa.py", "rl_blox/algorithm/double_q_learning.py", "rl_blox/algorithm/monte_carlo.py", "rl_blox/algorithm/dynaq.py"
MUTANTS = [
    {"id": "c14-q-wrong-next-index", "file": _Q, "rule": "R1", "find": "q_table[next_observation, next_action]", "replace": "q_table[next_observation, action]"},
    {"id": "c14-q-write-next", "file": _Q, "rule": "R1", "find": "    q_table = q_table.at[observation, action].add(learning_rate * error)", "replace": "    q_table = q_table.at[next_observation, action].add(learning_rate * error)"},
    {"id": "c14-q-no-mask", "file": _Q, "rule": "R1", "find": "    next_val = (1 - terminated) * q_table[next_observation, next_action]", "replace": "    next_val = q_table[next_observation, next_action]"},
    {"id": "c14-q-sign", "file": "rl_blox/util/error_functions.py", "rule": "R1", "find": "    return reward + gamma * next_value - value", "replace": "    return reward + gamma * next_value + value"},
    {"id": "c14-q-greedy-at-obs", "file": _Q, "rule": "R2", "find": "        next_action = greedy_policy(q_table, next_observation)", "replace": "        next_action = greedy_policy(q_table, observation)"},
    {"id": "c14-q-two-writes", "file": _Q, "rule": "R1", "find": "    q_table = q_table.at[observation, action].add(learning_rate * error)\n", "replace": "    q_table = q_table.at[observation, action].add(learning_rate * error)\n    q_table = q_table.at[next_observation, next_action].add(0.0 * error)\n"},
    {"id": "c14-sarsa-greedy-next", "file": _S, "rule": "R2", "find": "        next_action = epsilon_greedy_policy(\n            q_table, next_observation, epsilon, subkey\n        )", "replace": "        next_action = epsilon_greedy_policy(\n            q_table, observation, epsilon, subkey\n        )"},
    {"id": "c14-sarsa-lr-gamma-swapped", "file": _S, "rule": "R", "find": "            gamma,\n            learning_rate,\n            terminated,\n        )", "replace": "            learning_rate,\n            gamma,\n            terminated,\n        )"},
    {"id": "c14-dql-same-table-eval", "file": _D, "rule": "R1", "find": "    next_val = (1 - terminated) * q_table2[next_observation, next_action]", "replace": "    next_val = (1 - terminated) * q_table1[next_observation, next_action]"},
    {"id": "c14-dql-select-at-obs", "file": _D, "rule": "R1", "find": "    next_action = greedy_policy(q_table1, next_observation)", "replace": "    next_action = greedy_policy(q_table1, observation)"},
    {"id": "c14-dql-callsite-same-tables", "file": _D, "rule": "R2", "find": "                subkey2,\n                q_table2,\n                q_table1,", "replace": "                subkey2,\n                q_table2,\n                q_table2,"},
    {"id": "c14-mc-forward", "file": _M, "rule": "R3", "find": "        idx = ep_len - 1 - i", "replace": "        idx = i"},
    {"id": "c14-mc-count-after", "file": _M, "rule": "R3", "find": "            1.0 / n_visits[obs, act] * pred_error", "replace": "            1.0 / (n_visits[obs, act] + 1) * pred_error"},
    {"id": "c14-mc-return-undiscounted", "file": _M, "rule": "R3", "find": "        ep_return = rew + gamma * ep_return", "replace": "        ep_return = rew + ep_return"},
    {"id": "c14-mc-init", "file": _M, "rule": "R3", "find": "        0, ep_len, _update_body, (q_table, n_visits, 0.0)", "replace": "        1, ep_len, _update_body, (q_table, n_visits, 0.0)"},
    {"id": "c14-dyna-set-no-read", "file": _Y, "rule": "R1", "find": "        q_table[obs, act] + learning_rate * q_target\n", "replace": "        learning_rate * q_target\n"},
    {"id": "c14-dyna-planning-reward-row", "file": _Y, "rule": "R4", "find": "        reward = model_reward[obs, act, next_obs]", "replace": "        reward = model_reward[obs, act, obs]"},
    {"id": "c14-dyna-reward-last", "file": _Y, "rule": "R4", "find": "        np.mean(counter.reward_history[obs][act][next_obs])", "replace": "        counter.reward_history[obs][act][next_obs][-1]"},
]
BENIGN = [
    {"id": "c14-b-q-inline-td", "file": _Q, "find": "    error = td_error(reward, gamma, val, next_val)", "replace": "    error = reward + gamma * next_val - val"},
    {"id": "c14-b-q-set-form", "file": _Q, "find": "    q_table = q_table.at[observation, action].add(learning_rate * error)", "replace": "    q_table = q_table.at[observation, action].set(val + learning_rate * error)"},
    {"id": "c14-b-q-not-done", "file": _Q, "find": "    next_val = (1 - terminated) * q_table[next_observation, next_action]\n    error = td_error(reward, gamma, val, next_val)", "replace": "    not_done = 1 - terminated\n    error = td_error(reward, gamma * not_done, val, q_table[next_observation, next_action])"},
    {"id": "c14-b-mc-div", "file": _M, "find": "            1.0 / n_visits[obs, act] * pred_error", "replace": "            pred_error / n_visits[obs, act]"},
    {"id": "c14-b-dyna-add-form", "file": _Y, "find": "    return q_table.at[obs, act].set(\n        q_table[obs, act] + learning_rate * q_target\n    )", "replace": "    return q_table.at[obs, act].add(learning_rate * q_target)"},
]
