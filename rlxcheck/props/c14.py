"""C14 - tabular learners apply their textbook update to exactly one entry."""
from __future__ import annotations

import ast
import re

from ..loops import dotted
from ..nf import NF, Scope, Poly, parse_expr
from ..repo import Repo, loc, AnalysisError, positional_params, param_names
from ..sem import same_ingredients, ingredient_tokens, closure_env, split_conditional_assignments

EXPLANATION = (
    "The TD learners are read at loop level: one iteration of the training loop (from env.step to the next iteration) is evaluated per path "
    "with the update helper inlined (td_error, greedy_policy, records), the step results and the acted-on observation / action as role "
    "atoms. On every path the new table must be the old table with exactly one functional update at [S, A] whose increment equals, as a "
    "polynomial identity, lr*(R + gamma*(1-D)*V_next - Q[S,A]) with the algorithm's V_next (greedy row maximum; value of an action selected "
    "on the same table at the successor; other table's value of the own greedy action, each table learning on some path). It does not matter "
    "whether the successor action is chosen in the loop or in the helper. Dyna-Q's planning loop is read the same way against the model "
    "(s' = argmax P(.|s,a), r = R(s,a,s')) for the pair of buffer entries it writes. The Monte-Carlo fori_loop body is read by the roles of the "
    "loop-state components (entry and change of the entry of Q and n, the return); a jax.lax.scan over the episode arrays (reverse=True, or forward over "
    "x[::-1] / flip(x), or over arange(len)) is read as the same loop, each scanned array contributing its entry at the position of the step; the pair handed "
    "back must be the Q and n components of the final loop state. Independently of the loop form, no value that reaches the returned tables may be divided by "
    "gamma or by a power of gamma running over the steps (gamma = 0 is a legal discount). Dyna-Q's model and counter are read by their stores per path. "
    "A mismatch is a violation only when the value read is built from the documented ingredients (or a path witness / wrong constant exists); "
    "any other form is undecided."
)
TRUSTED = ["jnp `.at[idx].add/.set` functional update semantics; jnp.argmax returns a maximiser; jax.lax.fori_loop(lo, hi, body, init); "
           "jax.lax.scan(f, init, xs, reverse) calls f(carry, xs-entries at one position) over the leading axis (from the end when reverse) and returns (final carry, outputs)"]
RULES = {
    "R1-update-formula": "returned table == Q.at[s,a].add(lr * (r + gamma * (1 - terminated) * V_next - Q[s,a])) with the algorithm's V_next (polynomial identity)",
    "R1-footprint": "exactly one table write per update, at the index tuple that is read for Q[s,a]",
    "R2-co-indexing": "the successor action indexes the successor row and was selected on the documented table at the successor observation",
    "R3-monte-carlo": "backward loop (fori_loop or reversed scan): idx = len-1-i, G' = r + gamma*G, n' = n.at[s,a].add(1), Q' = Q.at[s,a].add((G' - Q[s,a]) / n'[s,a]); G0 = 0 over [0, len); the returned pair is (Q, n) of the final loop state",
    "R3-domain": "the Monte-Carlo update is defined for every discount, gamma = 0 included: no value that reaches the returned tables is divided by gamma or by a power of gamma that runs over the steps",
    "R4-dyna-q": "Dyna-Q uses the greedy-successor update for real and replayed transitions; the model row P(.|s,a) is rewritten as a whole (empirical frequencies), rewards are means",
}

A = "rl_blox.algorithm."
_LOGIC = {"Lt", "LtE", "Eq", "NotEq", "Is", "IsNot", "In", "NotIn", "and", "or", "not", "None", "True", "False"}


def _names(txt):
    return re.findall(r"[A-Za-z_][A-Za-z_0-9]*", txt)


def _params_by_role(fn, qual, names):
    """Current names of the parameters that play the roles recorded under ``names``: a parameter keeps its name or, when it was renamed
    in place, its position in the recorded signature (known_signatures.json)."""
    from ..specialise import load_signatures
    cur, rec = param_names(fn), load_signatures().get(qual) or []
    out = []
    for n in names:
        if n in cur:
            out.append(n)
        elif n in rec and len(cur) == len(rec) and cur[rec.index(n)] not in rec:
            out.append(cur[rec.index(n)])
        else:
            raise AnalysisError(f"{qual}: parameter `{n}` vanished (anchor)")
    return out


def _evidence(got, want, extra=()):
    """A mismatch is evidence of another value only when the value read is made of the documented ingredients (combined differently) and
    holds nothing the engine does not read element-wise (slices such as x[::-1], unresolved merges, opaque constructs)."""
    g, w = got.canon(), want.canon()
    return same_ingredients(got, want, extra) and not any(mk in g and mk not in w for mk in (":", "φ(", "⟦", "λ["))


def _flat_text(a):
    b = a.replace(", :]", "]")
    if ":" in b or "⟦" in b or "λ[" in b:
        return a        # slices / unread constructs are left alone
    return b.replace("][", ", ")


def _flat(p):
    """One spelling for the ways of reading an array entry: x[s][a] is x[s, a] and x[s, :] is the row x[s] (atoms are renamed, the
    polynomial structure is untouched; applied to both sides of a comparison)."""
    mp = {a: Poly.atom(_flat_text(a)) for a in p.atoms() if _flat_text(a) != a}
    return p.subst(mp) if mp else p


def _at_update(nf, p):
    """(base poly, index text, op, value poly) when ``p`` is `B.at[idx].add(v)` / `B.at[idx].set(v)`, else None."""
    m = nf.meta.get(p.single_atom() or "")
    if not m or "at" not in m or m["at"]["op"] not in ("add", "set") or len(m.get("args", [])) != 1 or m.get("kws"):
        return None
    return m["at"]["base"], m["at"]["index"], m["at"]["op"], m["args"][0]


def _entry_delta(nf, p):
    """(base poly, index text, change of the entry) of a functional single-entry update: `.add(v)` changes it by v, `.set(v)` by v - B[idx]."""
    au = _at_update(nf, p)
    if au is None:
        return None
    base, idx, op, val = au
    return base, idx, (val if op == "add" else val - Poly.atom(f"{base.canon()}[{idx}]"))


def _update_chain(nf, p, root):
    """[(index text, op, value)] of the functional updates that lead from ``root`` to ``p`` (outermost first); None when ``p`` is not built so."""
    out = []
    while p != root:
        au = _at_update(nf, p)
        if au is None or len(out) > 8:
            return None
        out.append(au[1:])
        p = au[0]
    return out


def _split_top(txt):
    """Components of an index text `a, b[c, d], e` at bracket depth 0."""
    out, depth, cur = [], 0, ""
    for ch in txt:
        depth += ch in "([{"
        depth -= ch in ")]}"
        if ch == "," and depth == 0:
            out.append(cur.strip())
            cur = ""
        else:
            cur += ch
    return out + [cur.strip()]


def _same_draw(nf, X, Y, OB, AB):
    """'pair' when X / Y are the entries of the buffers OB / AB at one common position (the same expression up to the buffer; also as
    components of one zip over such gathers), 'swapped' for that pair in the other order, None when this is not what they are."""
    mx, my = re.match(r"^iter\((.*)\)\[(\d+)\]$", X), re.match(r"^iter\((.*)\)\[(\d+)\]$", Y)
    if mx and my:
        z = nf.meta.get(mx.group(1), {})
        i_, j_ = int(mx.group(2)), int(my.group(2))
        if mx.group(1) != my.group(1) or z.get("fn", "").split(".")[-1] != "zip" or max(i_, j_) >= len(z.get("args", [])):
            return None
        X, Y = z["args"][i_].canon(), z["args"][j_].canon()

    def pair(x, y):
        return x.startswith(OB + "[") and y == AB + x[len(OB):]       # the same subscripts applied to either buffer
    return "pair" if pair(X, Y) else "swapped" if pair(Y, X) else None


def _branch_literals(nf, pe, test, truth, out):
    """Literals (text, truth) fixed by leaving ``test`` on its ``truth`` arm, values read in the state of the path: not / and / or are
    split where the arm fixes every operand, `a <= b` is the negation of `b < a`; constant tests fix nothing."""
    if isinstance(test, ast.UnaryOp) and isinstance(test.op, ast.Not):
        return _branch_literals(nf, pe, test.operand, not truth, out)
    if isinstance(test, ast.BoolOp) and ((isinstance(test.op, ast.Or) and not truth) or (isinstance(test.op, ast.And) and truth)):
        for v in test.values:
            _branch_literals(nf, pe, v, truth, out)
        return
    try:
        c = pe.ev(test)
    except Exception:
        out.append((f"⟦{ast.unparse(test)}⟧", truth))
        return
    if c.is_const():
        return
    m = nf.meta.get(c.single_atom() or "", {})
    if m.get("fn") in ("Lt", "LtE") and len(m.get("args", [])) == 2:
        a, b = m["args"]
        if m["fn"] == "LtE":
            a, b, truth = b, a, not truth
        out.append((f"Lt({a.canon()}, {b.canon()})", truth))
        return
    out.append((c.canon(), truth))


def _witness_status(lits):
    """Is a path with these branch literals a witness?  'infeasible' (one literal with both truth values), 'feasible' (the literals
    are about unrelated quantities), 'unknown' (different conditions on a common quantity: not decided here)."""
    d = {}
    for t, v in lits:
        if d.setdefault(t, v) != v:
            return "infeasible"
    toks = [set(_names(t)) - _LOGIC for t in d]
    for i_ in range(len(toks)):
        for j_ in range(i_ + 1, len(toks)):
            if toks[i_] & toks[j_]:
                return "unknown"
    return "feasible"


# ---- loop-level reading of the TD learners -------------------------------------------------------------------------------------------
# tables / gamma / learning_rate: names in the recorded signatures (a parameter renamed in place is followed by position)
TD_LOOPS = {
    A + "q_learning.train_q_learning": {"tables": ["q_table"], "bootstrap": "greedy"},
    A + "sarsa.train_sarsa": {"tables": ["q_table"], "bootstrap": "on-policy"},
    A + "double_q_learning.train_double_q_learning": {"tables": ["q_table1", "q_table2"], "bootstrap": "double"},
    A + "dynaq.train_dynaq": {"tables": ["q_table"], "bootstrap": "greedy", "mask_optional": True, "first_update_only": True},
}
_SELECTION = ("argmax", "epsilon_greedy_policy", "epsilon", "key", "subkey", "jax", "random", "split")


def _flag_complement(nf, p, flag):
    """The termination flag of the step protocol is a truth value: `logical_not(flag)` / `not flag` used as a factor is 1 - flag."""
    mp = {}
    for a in p.atoms():
        m = nf.meta.get(a) or {}
        if (m.get("fn", "").split(".")[-1] == "logical_not" and len(m.get("args", [])) == 1 and not m.get("kws") and m["args"][0] == flag) or a == f"not({flag.canon()})":
            mp[a] = Poly.const(1) - flag
        elif m.get("fn", "").split(".")[-1] == "bool" and len(m.get("args", [])) == 1 and not m.get("kws") and m["args"][0] == flag:
            mp[a] = flag          # the truth value of a truth value
    return p.subst(mp) if mp else p


def _step_result_carried_whole(fn):
    """None, or a copy of ``fn`` in which a step result that is first kept whole (`t = env.step(a)`, `t` bound nowhere else in the routine)
    is unpacked into the five protocol positions where it is produced, `t` being the tuple of the five: reading `t` later (unpacking it,
    `t[k]`, `t[:2]`, `t[2:]`) is then reading those positions.  The original tree is not touched."""
    from ..expand import clone
    params = set(param_names(fn))
    hits = [s for s in ast.walk(fn) if isinstance(s, ast.Assign) and len(s.targets) == 1 and isinstance(s.targets[0], ast.Name)
            and isinstance(s.value, ast.Call) and isinstance(s.value.func, ast.Attribute) and s.value.func.attr == "step"
            and isinstance(s.value.func.value, ast.Name) and s.value.func.value.id in params]
    if len(hits) != 1:
        return None
    whole = hits[0].targets[0].id
    used = {x.id for x in ast.walk(fn) if isinstance(x, ast.Name)} | params
    stores = [x for x in ast.walk(fn) if isinstance(x, (ast.Name, ast.arg)) and (getattr(x, "id", None) == whole or getattr(x, "arg", None) == whole) and not isinstance(getattr(x, "ctx", None), ast.Load)]
    if len(stores) != 1 or any(isinstance(x, (ast.FunctionDef, ast.Lambda, ast.ClassDef, ast.Global, ast.Nonlocal)) for x in ast.walk(fn) if x is not fn):
        return None       # rebound / deleted somewhere, or nested scopes that may do so: not read
    pos = [f"{whole}__{k}" for k in range(5)]
    if set(pos) & used:
        return None
    new = clone(fn)

    def five(ctx):
        return ast.Tuple(elts=[ast.Name(id=p_, ctx=ctx()) for p_ in pos], ctx=ctx())

    def lit(e, default):
        if e is None:
            return default
        if isinstance(e, ast.UnaryOp) and isinstance(e.op, ast.USub) and isinstance(e.operand, ast.Constant) and type(e.operand.value) is int:
            return 5 - e.operand.value
        return e.value if isinstance(e, ast.Constant) and type(e.value) is int and e.value >= 0 else None

    class Reads(ast.NodeTransformer):
        def visit_Subscript(self, node):
            self.generic_visit(node)
            if isinstance(node.value, ast.Name) and node.value.id == whole and isinstance(node.ctx, ast.Load):
                s = node.slice
                if isinstance(s, ast.Slice) and s.step is None:
                    lo, hi = lit(s.lower, 0), lit(s.upper, 5)
                    if lo is not None and hi is not None and 0 <= lo <= hi <= 5:
                        return ast.copy_location(ast.Tuple(elts=[ast.Name(id=p_, ctx=ast.Load()) for p_ in pos[lo:hi]], ctx=ast.Load()), node)
                k = lit(s, None)
                if k is not None and 0 <= k < 5:
                    return ast.copy_location(ast.Name(id=pos[k], ctx=ast.Load()), node)
            return node

    def block(stmts):
        out = []
        for st in stmts:
            for f in ("body", "orelse", "finalbody"):
                v = getattr(st, f, None)
                if isinstance(v, list) and v and isinstance(v[0], ast.stmt):
                    setattr(st, f, block(v))
            for h in getattr(st, "handlers", []) or []:
                h.body = block(h.body)
            if isinstance(st, ast.Assign) and len(st.targets) == 1 and isinstance(st.targets[0], ast.Name) and st.targets[0].id == whole:
                out.append(ast.copy_location(ast.Assign(targets=[five(ast.Store)], value=st.value), st))
                out.append(ast.copy_location(ast.Assign(targets=[ast.Name(id=whole, ctx=ast.Store())], value=five(ast.Load)), st))
            else:
                out.append(Reads().visit(st))
        return out
    new.body = block(new.body)
    ast.fix_missing_locations(new)
    for parent in ast.walk(new):
        for child in ast.iter_child_nodes(parent):
            child._parent = parent
    if hasattr(fn, "_module"):
        new._module = fn._module
    return new


def _td_loops(ck, repo, nf):
    """The training loop and its update helper are read together: on every path of one iteration (from env.step to the next iteration)
    the new table is the old table with exactly one entry changed - the entry (observation acted on, action passed to env.step) - by
    lr * (r + gamma * (1 - terminated) * V_next - Q[s, a]), with r / s' / terminated the results of that step."""
    from ..sympath import enumerate_paths, PathEval
    from ..loops import find_env_loop, strip_wrappers
    n_loops = 0
    for tq, spec in TD_LOOPS.items():
        fn0 = fn1 = repo.func(tq)
        # `t = env.step(a)` with `t` taken apart later is read as the five-position unpacking it stands for
        fn1 = _step_result_carried_whole(fn1) or fn1
        if any(isinstance(x, ast.Assign) and isinstance(x.value, ast.IfExp) for x in ast.walk(fn1)):
            # `a, b = (x, y) if c else (y, x)` is read as the two paths it stands for (the roles of the tables may be chosen that way)
            fn1 = split_conditional_assignments(fn1)
        if fn1 is not fn0:
            from ..cfg import CFG
            L = find_env_loop(repo, tq, {tq: CFG(fn1)})
        else:
            L = find_env_loop(repo, tq)
        cfg, mi, fn = L.cfg, L.mi, L.fn
        params = param_names(fn)
        *tables, GM, LR = _params_by_role(fn, tq, spec["tables"] + ["gamma", "learning_rate"])
        a = strip_wrappers(L.step_call.args[0]) if L.step_call.args else None
        ck.need(isinstance(a, ast.Name), f"{tq}: action passed to env.step is not a variable (unrecognised form)")
        avar = a.id
        ovars = set()
        for n in cfg.nodes:
            if n.kind == "stmt" and isinstance(n.ast, ast.Assign) and L.is_reset_call(n.ast.value) and isinstance(n.ast.targets[0], (ast.Tuple, ast.List)) and isinstance(n.ast.targets[0].elts[0], ast.Name):
                ovars.add(n.ast.targets[0].elts[0].id)
        # the observation carried into an iteration is the one bound by the reset before the loop (a reset inside the loop may pass through another name)
        opre = {n.ast.targets[0].elts[0].id for n in cfg.nodes if n.id in set(L.resets_pre) and n.kind == "stmt" and isinstance(n.ast, ast.Assign) and L.is_reset_call(n.ast.value)
                and isinstance(n.ast.targets[0], (ast.Tuple, ast.List)) and isinstance(n.ast.targets[0].elts[0], ast.Name)}
        if len(opre) == 1 and len(ovars) > 1:
            ovars = opre
        ck.need(len(ovars) == 1, f"{tq}: observation variable not identified (reset targets {sorted(ovars)}) (unrecognised form)")
        ovar = ovars.pop()
        nvar, rvar, dvar = L.pos.get(0), L.pos.get(1), L.pos.get(2)
        ck.need(nvar and rvar and dvar, f"{tq}: step results are discarded (unrecognised form)")
        env0 = {p_: Poly.atom(p_, {p_}, {p_}) for p_ in params}
        env0.update({ovar: Poly.atom("S"), avar: Poly.atom("A"), nvar: Poly.atom("N"), rvar: Poly.atom("R"), dvar: Poly.atom("D")})
        uvar = L.pos.get(3)
        if uvar and uvar not in env0:
            env0[uvar] = Poly.atom("U")       # the truncation flag of the step: a role of its own, never the mask of the bootstrap
        for t in tables:
            env0[t] = Poly.atom(t)
        # names bound in the iteration before the step (q = q1 + q2, ...): the same value on every way to the step
        try:
            pre = enumerate_paths(cfg, L.loop_header, {L.step_node}, first_label=True, max_paths=200)
        except RuntimeError:
            pre = []
        pre_env = None
        protected = set(env0)
        avals = []      # value of the action variable on the ways to the step: another name holding that value is the action too (a = int(action))
        for pp in pre:
            pe0 = PathEval(nf, cfg, mi, tq, {k_: v_ for k_, v_ in env0.items() if k_ not in (avar, nvar, rvar, dvar, uvar)})
            try:
                pe0.run(pp[:-1])
            except Exception:
                pre_env = {}
                break
            avals.append(pe0.env.get(avar))
            cur = {k_: v_ for k_, v_ in pe0.env.items() if k_ not in protected and "φ(" not in v_.canon()}
            pre_env = cur if pre_env is None else {k_: v_ for k_, v_ in cur.items() if k_ in pre_env and pre_env[k_] == v_}
        aval = avals[0] if avals and pre_env and all(v_ is not None and v_ == avals[0] for v_ in avals) and "φ(" not in avals[0].canon() and not avals[0].is_const() else None
        for k_, v_ in (pre_env or {}).items():
            env0.setdefault(k_, env0[avar] if aval is not None and v_ == aval else v_)
        succ = [s_ for s_, _l in cfg.nodes[L.step_node].succ]
        ck.need(len(succ) == 1, f"{tq}: env.step statement has {len(succ)} successors (unrecognised form)")
        try:
            paths = enumerate_paths(cfg, succ[0], {L.loop_header, cfg.exit}, max_paths=4000)
        except RuntimeError:
            raise AnalysisError(f"{tq}: too many paths through one iteration")

        def want_delta(own, other, nxt, masked):
            own_p, oth_p = env0[own], env0[other]
            sc_ = Scope(None, mi, {**env0, "OWN": own_p, "OTH": oth_p, "NEXTA": nxt}, tq)
            m_ = "(1 - D) * " if masked else ""
            return _flat(nf.poly(parse_expr(f"{LR} * (R + {GM} * {m_}OTH[N, NEXTA] - OWN[S, A])"), sc_, None))
        seen, changed_tables, pending = set(), set(), []
        n_loops += 1
        where = loc(mi, L.step_stmt)
        role_tokens = {"S", "A", "N", "argmax"} | set(tables)
        for pth in paths:
            pe = PathEval(nf, cfg, mi, tq, env0)
            first, lits, lits_at = {}, [], {}
            for nid, lab in pth:
                before = {t: pe.env[t] for t in tables}
                nd = cfg.nodes[nid]
                if nd.kind == "test" and hasattr(nd.ast, "test") and lab in (True, False):
                    _branch_literals(nf, pe, nd.ast.test, lab, lits)
                pe.step(nid, lab)
                for t in tables:
                    if pe.env[t] != before[t] and not (spec.get("first_update_only") and t in first):
                        lits_at[t] = list(lits)       # the branch decisions under which this table value was computed
                    if pe.env[t] != before[t] and t not in first:
                        first[t] = (pe.env[t], dict(pe.env), nid)
            finals = {t: (first[t][0] if spec.get("first_update_only") and t in first else pe.env[t]) for t in tables}
            sig = tuple(finals[t].canon() for t in tables)
            ends_in_next_iteration = pth[-1][0] == L.loop_header
            changed = [t for t in tables if finals[t] != env0[t]]
            if len(changed) != 1:
                if not changed and not ends_in_next_iteration:
                    continue     # leaving the routine without learning from the last step is C11's business
                # a witness only if the branches taken on it can be taken together and every new table is read as an update of its old one
                status = _witness_status(lits)
                if status == "feasible" and any(not _update_chain(nf, finals[t], env0[t]) for t in changed):
                    status = "unknown"
                pending.append((changed, cfg.describe_path([x for x, _ in pth][:12]), status))
                continue
            own = changed[0]
            # an update computed under a decided `terminated` (`if terminated: target = reward else: ...`) is compared for that case
            dl = {v_ for t_, v_ in lits_at.get(own, []) if t_ in ("D", "bool(D)")}
            fix = {"D": Poly.const(1 if True in dl else 0)} if len(dl) == 1 else {}
            key = (sig, str(sorted(dl)))
            if key in seen:
                continue
            seen.add(key)
            other = own if len(tables) == 1 else next(t for t in tables if t != own)
            changed_tables.add(own)
            chain = _update_chain(nf, finals[own], env0[own])
            if not chain:
                raise AnalysisError(f"{tq}: new value of `{own}` `{finals[own].canon()[:100]}` is not a single-entry update of the old table (unrecognised form)")
            if len({i_ for i_, _o, _v in chain}) > 1:
                # entries with different index tuples are written: evidence when every index is made of the roles of this step
                if not all(set(_names(i_)) <= role_tokens for i_, _o, _v in chain):
                    raise AnalysisError(f"{tq}: `{own}` is updated at {[i_[:40] for i_, _o, _v in chain]} (unrecognised form)")
                ck.ob("R1-footprint", tq, f"single-write:{own}", False, f"{finals[own].canon()[:120]}", "one update changes more than one table entry", where)
                continue
            idx, op, val = chain[0]
            if len(chain) > 1:
                # the same entry written several times: increments that do not read the intermediate table add up
                if not all(o_ == "add" for _i, o_, _v in chain) or any("at" in ingredient_tokens(v_) for _i, _o, v_ in chain):
                    raise AnalysisError(f"{tq}: `{own}` entry [{idx[:40]}] is rewritten {len(chain)} times (unrecognised form)")
                val = Poly.const(0)
                for _i, _o, v_ in chain:
                    val = val + v_
            ok_fp = idx == "S, A"
            if not ok_fp and not set(_names(idx)) <= {"S", "A", "N"}:
                raise AnalysisError(f"{tq}: `{own}` is updated at `{idx[:60]}` (unrecognised form)")
            ck.ob("R1-footprint", tq, f"write-index:{own}", ok_fp, f"{own}.at[{idx}].{op}(...)", "" if ok_fp else "the entry written is not [observation acted on, action passed to env.step] of the table being updated (exactly one entry changes per step)", where)
            read = nf.poly(parse_expr("OWN[S, A]"), Scope(None, mi, {**env0, "OWN": env0[own]}, tq), None)
            delta = _flag_complement(nf, _flat(val) if op == "add" else _flat(val) - _flat(read), env0[dvar]).subst(fix)
            # the bootstrap action
            offrow = []
            if spec["bootstrap"] in ("greedy", "double"):
                row = nf.poly(parse_expr("OWN[N]"), Scope(None, mi, {**env0, "OWN": env0[own]}, tq), None)
                cands = [nf._mkcall("argmax", [row], {})]
            else:
                # SARSA: the value of a supplied next action - an action selected (epsilon-greedily) on this table at the successor observation
                cands = []
                for v in (first.get(own, (None, {}, None))[1] or pe.env).values():
                    m_ = nf.meta.get(v.single_atom() or "", {})
                    if m_.get("fn", "").endswith("greedy_policy") and len(m_.get("args", [])) >= 2 and v not in cands + offrow:
                        (cands if (m_["args"][0] == env0[own] and m_["args"][1] == env0[nvar]) else offrow).append(v)
                off_hit = [c_ for c_ in offrow if want_delta(own, other, c_, True).subst(fix) == delta]
                for c_ in off_hit:
                    ck.ob("R2-co-indexing", tq, "next-action-provenance", False, f"bootstrap action = {c_.canon()[:100]}",
                          "the successor action whose value is bootstrapped was not selected on the updated table at the successor observation", where)
                if off_hit:
                    continue
                if not cands:
                    raise AnalysisError(f"{tq}: no action selected on `{own}` at the successor observation is in reach of the update; increment `{delta.canon()[:100]}` (unrecognised form)")
            wants = []
            for c_ in cands:
                wants.append((want_delta(own, other, c_, True), c_))
                if spec.get("mask_optional"):
                    wants.append((want_delta(own, other, c_, False), c_))
            hit = next(((w, c_) for w, c_ in wants if w.subst(fix) == delta), None)
            if hit is None and uvar and any(w.subst({"D": Poly.atom("U")}) == _flag_complement(nf, delta, Poly.atom("U")) for w, _c in wants if "D" in w.atoms()) and not fix:
                # a dataflow fact: the increment is the textbook one with the truncation flag of the step in the place of the termination flag
                ck.ob("R1-update-formula", tq, f"increment:{own}", False, f"increment = {delta.canon()[:170]}",
                      "the bootstrap is masked by the truncation flag of the step (position 3 of its result), not by the termination flag (position 2): a time limit does not make the successor worthless, termination does", where)
                continue
            if hit is None and not _evidence(delta, wants[0][0], _SELECTION):
                raise AnalysisError(f"{tq}: increment `{delta.canon()[:120]}` (unrecognised form)")
            w0 = wants[0][0].subst(fix)
            ck.ob("R1-update-formula", tq, f"increment:{own}", hit is not None, f"increment = {delta.canon()[:170]}" + (f" (terminated = {bool(True in dl)})" if fix else ""),
                  "" if hit is not None else f"increment differs from the textbook one `{w0.canon()[:150]}` by `{(delta - w0).canon()[:150]}`", where)
        if not changed_tables:
            raise AnalysisError(f"{tq}: no path of one iteration rebinds {tables} (tables kept in another structure: unrecognised form)")
        witnesses = [(c_, w_) for c_, w_, st_ in pending if st_ == "feasible"]
        for changed, wit in witnesses:
            ck.ob("R1-footprint", tq, "one-table-per-step", False, f"tables changed on a path of one iteration: {changed}", "every step must update exactly one table", where, wit)
        if not witnesses and any(st_ == "unknown" for _c, _w, st_ in pending):
            raise AnalysisError(f"{tq}: a path of one iteration changes {sorted({str(c_) for c_, _w, st_ in pending if st_ == 'unknown'})} tables, but its branch conditions test a common quantity in different ways or a new table is not read: not a witness (unrecognised form)")
        if spec["bootstrap"] == "double":
            learn = changed_tables | {t for c_, _w, st_ in pending if st_ != "infeasible" for t in c_}      # every path was read: a table outside is written on none
            ok2 = learn == set(tables)
            ck.ob("R2-co-indexing", tq, "both-tables-learn", ok2, f"tables updated on some path: {sorted(learn)}", "" if ok2 else "double Q-learning must update either table (each on some path)", where)
        else:
            ck.ob("R1-footprint", tq, "learns", bool(changed_tables), f"tables updated on some path: {sorted(changed_tables)}", "" if changed_tables else "no path of an iteration updates the table", where)
    ck.floor("td-loops", n_loops, 4)


def _record_as_tuple(nf, p):
    """(tuple reading, field names) of a plain record construction (NamedTuple / dataclass): the constructor arguments in field order;
    (p, None) for anything else."""
    if p.elems is not None:
        return p, None
    a = p.single_atom()
    m = nf.meta.get(a or "")
    if not m or not m.get("record"):
        return p, None
    try:
        fields = NF._record_fields(nf.repo.lookup(m["fn"])[1])
    except Exception:
        return p, None
    if not fields or set(fields) != set(m["record"]):
        return p, None
    q_ = Poly.atom(a, nf.atom_deps(a), nf.atom_gdeps(a))
    q_.elems = [m["record"][f_] for f_ in fields]
    return q_, list(fields)


_LOOP_SIGS = {"fori_loop": ["lower", "upper", "body_fun", "init_val"], "scan": ["f", "init", "xs", "length", "reverse", "unroll", "_split_transpose"]}


def _plain_constant(nf, p):
    """zeros(shape, ...) / zeros_like(x) start a loop-state component from the constant 0 just like the literal does."""
    m = nf.meta.get(p.single_atom() or "", {})
    return Poly.const(0) if m.get("fn", "").split(".")[-1] in ("zeros", "zeros_like") else p


# ---- Monte-Carlo control -------------------------------------------------------------------------------------------------------------
def _monte_carlo(ck, repo, nf):
    """The backward pass is read by roles, not by position or spelling: the loop-state component initialised with the table parameter is
    Q, the one initialised with the count parameter is n, a constant-initialised one that is discounted is G; functional updates are
    compared as (entry, change of the entry), so `.set(old + v)` is `.add(v)`; the episode length may be read from any of the three
    equally long episode arrays, as `.shape[0]` or `len()`.  `jax.lax.scan(body, init, xs, reverse=True)` is the same loop: step k works on the
    entries xs[..][-1 - k] (forward scans over reversed arrays likewise), the carry is the loop state."""
    q = A + "monte_carlo.update"
    fn = repo.func(q)
    mi = fn._module
    Qp, Np, Rw, Ob, Ac, Gm = _params_by_role(fn, q, ["q_table", "n_visits", "rewards", "observations", "actions", "gamma"])
    penv = {p_: Poly.atom(p_, {p_}, {p_}) for p_ in param_names(fn)}
    ocfg = nf.cfg_of(fn)
    osc = Scope(ocfg, mi, penv, q)
    calls = [(n, c, k_) for n in ocfg.nodes if n.ast is not None and n.kind == "stmt" and not isinstance(n.ast, ast.FunctionDef) for c in ast.walk(n.ast)
             if isinstance(c, ast.Call) and isinstance(c.func, (ast.Name, ast.Attribute)) for k_ in [(repo.resolve_expr(mi, c.func) or dotted(c.func)).split(".")[-1]] if k_ in _LOOP_SIGS]
    ck.need(len(calls) == 1, f"{q}: the backward pass is not one jax.lax.fori_loop(lo, hi, body, init) / jax.lax.scan(body, init, xs, reverse=True) (unrecognised form)")
    node, call, kind = calls[0]
    sig = _LOOP_SIGS[kind]
    ck.need(len(call.args) <= len(sig) and not any(isinstance(a_, ast.Starred) for a_ in call.args) and all(k.arg in sig[len(call.args):] for k in call.keywords),
            f"{q}: {kind} arguments not bound (unrecognised form)")
    bound = dict(zip(sig, call.args))
    bound.update({k.arg: k.value for k in call.keywords})
    scan = kind == "scan"
    if scan:
        # scan(f, init, xs, reverse=...): the body sees the carry and the entries of xs at one position; positions run over the whole leading
        # axis, from the end when reverse=True.  Step k (0, 1, ...) of a reversed scan is at position -1 - k: x[-1 - k] is x[len - 1 - k]
        ck.need({"f", "init", "xs"} <= set(bound) and all(k_ in ("f", "init", "xs", "reverse", "unroll", "length") for k_ in bound), f"{q}: scan arguments not bound (unrecognised form)")
        if "length" in bound and isinstance(bound["length"], ast.Constant) and bound["length"].value is None:
            del bound["length"]
        rev = bound.get("reverse", ast.Constant(value=False))
        ck.need(isinstance(rev, ast.Constant) and isinstance(rev.value, bool), f"{q}: direction of the scan is not a literal (unrecognised form)")
        bf, init_e, reverse = bound["f"], bound["init"], rev.value
    else:
        ck.need(set(bound) == set(sig), f"{q}: fori_loop arguments not bound (unrecognised form)")
        bf, init_e = bound["body_fun"], bound["init_val"]
    body = next((n for n in fn.body if isinstance(n, ast.FunctionDef) and isinstance(bf, ast.Name) and n.name == bf.id), None)
    ck.need(body is not None, f"{q}: loop body function not found (unrecognised form)")
    body._module = mi
    cfg = nf.cfg_of(body)
    bp = positional_params(body)
    ck.need(len(bp) == 2, f"{q}: loop body must take (i, state) / (carry, x) (unrecognised form)")
    if scan:
        st, xvar = bp
        i = "step__"
        ck.need(i not in {x.id for x in ast.walk(fn) if isinstance(x, ast.Name)}, f"{q}: name clash (unrecognised form)")
    else:
        i, st = bp
    env = {i: Poly.atom(i, {i}, {i}), st: Poly.atom(st, {st}, {st})}
    # closure variables of the loop body: single top-level assignments of the enclosing function (ep_len = rewards.shape[0], ...)
    env.update({k_: v_ for k_, v_ in closure_env(nf, fn, body, mi, penv, q).items() if k_ not in env})
    if scan:
        def entry(X, backwards):
            """the entry of one scanned array at the position of this step (arange(n) holds the position itself; walking over a reversed
            array - x[::-1], flip(x) - is walking over the array in the other direction)"""
            a_ = X.single_atom() or ""
            m_ = nf.meta.get(a_, {})
            f_ = m_.get("fn", "").split(".")[-1]
            if f_ == "arange" and len(m_.get("args", [])) == 1 and not m_.get("kws"):
                return (m_["args"][0] - Poly.const(1) - env[i]) if backwards else env[i]
            if (f_ == "flip" and len(m_.get("args", [])) == 1 and all(k_ == "axis" and v_ == Poly.const(0) for k_, v_ in m_.get("kws", {}).items())) \
                    or (f_ == "subscript" and a_.endswith("[::-1]") and len(m_.get("args", [])) == 1 and a_ == m_["args"][0].canon() + "[::-1]"):
                return entry(m_["args"][0], not backwards)
            ck.need(X.elems is None, f"{q}: nested structure is scanned over (unrecognised form)")
            return nf.poly(parse_expr("X__[(0 - 1 - I__)]" if backwards else "X__[I__]"), Scope(None, mi, {"X__": X, "I__": env[i]}, q), None)
        xs = nf.poly(bound["xs"], osc, node.id)
        ck.need(xs.canon() != "None", f"{q}: scan without scanned arrays (unrecognised form)")
        if xs.elems is not None:
            xe = Poly.atom(xvar, {xvar}, {xvar})
            xe.elems = [entry(X, reverse) for X in xs.elems]
            env[xvar] = xe
        else:
            env[xvar] = entry(xs, reverse)
    init, carrier = _record_as_tuple(nf, nf.poly(init_e, osc, node.id))
    if init.elems is not None:
        init.elems = [_plain_constant(nf, e_) for e_ in init.elems]
    if carrier:
        # the loop state is a plain record (NamedTuple): its fields are the components of the state in field order
        nf.meta[st] = {"deps": frozenset([st]), "gdeps": frozenset([st]), "fn": "", "args": [], "kws": {},
                       "record": {f_: nf.poly(parse_expr(f"{st}[{k_}]"), Scope(None, mi, env, q), None) for k_, f_ in enumerate(carrier)}}
    sc = Scope(cfg, mi, env, q + ".<locals>." + body.name)
    rets = [n for n in cfg.nodes if n.kind == "stmt" and isinstance(n.ast, ast.Return)]
    ck.need(len(rets) == 1, f"{q}: body has {len(rets)} returns (unrecognised form)")
    rp0 = nf.poly(rets[0].ast.value, sc, rets[0].id)
    if scan:
        # the body of a scan returns (new carry, per-step output)
        ck.need(rp0.elems is not None and len(rp0.elems) == 2, f"{q}: scan body does not return (carry, output) (unrecognised form)")
        rp0 = rp0.elems[0]
    rp, carrier2 = _record_as_tuple(nf, rp0)
    ck.need(carrier == carrier2, f"{q}: the loop body returns another kind of state than the loop is started with (unrecognised form)")
    ck.need(rp.elems is not None and init.elems is not None and len(rp.elems) == len(init.elems), f"{q}: loop state is not a tuple display of one length in the body and at the call (unrecognised form)")
    if scan:
        # a scan walks over the whole leading axis of its arrays (a length given as well has to be that length)
        lo, hi = Poly.const(0), (nf.poly(bound["length"], osc, node.id) if "length" in bound else None)
    else:
        lo, hi = nf.poly(bound["lower"], osc, node.id), nf.poly(bound["upper"], osc, node.id)
    ssc = Scope(None, mi, env, q)
    P = lambda txt: nf.poly(parse_expr(txt), ssc, None)
    where = loc(mi, body)
    kQ = [k for k, e in enumerate(init.elems) if e == penv[Qp]]
    kN = [k for k, e in enumerate(init.elems) if e == penv[Np]]
    ck.need(len(kQ) == 1 and len(kN) <= 1, f"{q}: the loop-state component that carries `{Qp}` is not identified (unrecognised form)")
    kQ = kQ[0]
    edQ = _entry_delta(nf, rp.elems[kQ])
    if not kN:
        # no component carries the counts.  Evidence of a count that does not run with the loop: the change of Q is built from the count
        # parameter itself (a value fixed before the loop)
        plain = set(param_names(fn)) | {st, i, "at", "add", "set", "shape", "len"}      # nothing but the arguments, the loop state and functional updates
        if edQ is not None and Np in ingredient_tokens(edQ[2]) and ingredient_tokens(edQ[2]) <= plain and not any(mk in edQ[2].canon() for mk in (":", "φ(", "⟦", "λ[")):
            ck.ob("R3-monte-carlo", q, "body:n'", False, f"loop state has {len(rp.elems)} components, none of them initialised with `{Np}`; change of Q = {edQ[2].canon()[:110]}",
                  "the visit count is not advanced inside the backward loop: every step must divide by the number of visits *so far* (running mean), not by a count computed elsewhere", where)
            return
        raise AnalysisError(f"{q}: no loop-state component is initialised with `{Np}` (unrecognised idiom)")
    kN = kN[0]
    consts = [k for k, e in enumerate(init.elems) if e.is_const() and k not in (kQ, kN)]
    lens = [f"{X}.shape[0]" for X in (Rw, Ob, Ac)] + [f"len({X})" for X in (Rw, Ob, Ac)]
    whole = rp.canon()
    from_end = "0"      # x[-1 - i] is x[len(x) - 1 - i]: counting from the end needs no length

    def reading(Ltxt, kG):
        idx = f"({Ltxt} - 1 - {i})"
        o, a, r = P(f"{Ob}[{idx}]"), P(f"{Ac}[{idx}]"), P(f"{Rw}[{idx}]")
        at = f"{o.canon()}, {a.canon()}"
        return {"L": P(Ltxt), "kG": kG, "idx": at, "G": r + P(f"{Gm} * {st}[{kG}]"), "Qold": Poly.atom(f"{st}[{kQ}][{at}]"), "Nold": Poly.atom(f"{st}[{kN}][{at}]")}
    edN = _entry_delta(nf, rp.elems[kN])
    if edQ is None or edN is None or edQ[0] != P(f"{st}[{kQ}]") or edN[0] != P(f"{st}[{kN}]"):
        raise AnalysisError(f"{q}: Q' / n' are not single-entry updates of their loop-state components: `{rp.elems[kQ].canon()[:70]}`, `{rp.elems[kN].canon()[:70]}` (unrecognised form)")
    ck.need(consts, f"{q}: no loop-state component starts from a constant return (unrecognised form)")
    best = None
    for kG in consts:
        for Ltxt in lens + [from_end]:
            rd = reading(Ltxt, kG)
            score = (int(rp.elems[kG] == rd["G"]) + int(edN[1] == rd["idx"]) + int(edQ[1] == rd["idx"]), int(Ltxt != from_end and rd["L"].canon() in whole))
            if best is None or score > best[0]:
                best = (score, rd)
    rd = best[1]
    kG = rd["kG"]
    foreign = [P(t).canon() for t in lens if P(t) != rd["L"] and P(t).canon() in whole]      # the length is read in more than one way

    def decide(key, ok, got, want, extra=()):
        """a mismatch is a violation when the value is made of the documented ingredients (combined differently), undecided otherwise"""
        if not ok and (foreign or not _evidence(got, want, extra)):
            raise AnalysisError(f"{q}: {key} `{got.canon()[:140]}` (unrecognised form)")
        return ok
    names = {"Q'": "Q' = Q.at[s,a].add((G' - Q[s,a]) / n'[s,a])", "n'": "n' = n.at[s,a].add(1)", "G'": "G' = r + gamma * G"}
    # n': the count of the visited entry advances by one
    # (x[s][a] and x[s, a] are one spelling: both sides of every comparison are flattened)
    dN = _flat(edN[2])
    okN = decide("n'", edN[1] == rd["idx"] and dN == Poly.const(1), rp.elems[kN], P(f"{st}[{kN}].at[{rd['idx']}].add(1)"), ("set",))
    # Q': a read of the new count table at the visited entry is n[s,a] + 1
    read_new = Poly.atom(_flat_text(f"{rp.elems[kN].canon()}[{rd['idx']}]"))
    n_new = _flat(rd["Nold"] + Poly.const(1)) if okN else read_new
    dQ = _flat(edQ[2]).subst({read_new.single_atom(): n_new})
    wantQd = _flat(rd["G"] - rd["Qold"]) * n_new.inv()
    okQ = decide("Q'", edQ[1] == rd["idx"] and dQ == wantQd, Poly.atom(f"[{edQ[1]}] {dQ.canon()}"), Poly.atom(f"[{rd['idx']}] {wantQd.canon()} {read_new.canon()}"), ("set", "add", "at"))
    gotG = _flat(rp.elems[kG])
    okG = decide("G'", gotG == _flat(rd["G"]), gotG, _flat(rd["G"]))
    for nm, ok, got, want in (("Q'", okQ, f"entry [{edQ[1][:60]}] changes by {dQ.canon()[:110]}", f"entry [{rd['idx'][:60]}] changes by {wantQd.canon()[:110]}"),
                              ("n'", okN, f"entry [{edN[1][:60]}] changes by {dN.canon()[:40]}", f"entry [{rd['idx'][:60]}] changes by 1"),
                              ("G'", okG, gotG.canon()[:150], rd["G"].canon()[:150])):
        ck.ob("R3-monte-carlo", q, f"body:{nm}", ok, got, "" if ok else f"expected {names[nm]} with idx = len-1-i, i.e. `{want}`", where)
    # fori_loop(0, ep_len, body, (q_table, n_visits, 0.0)); ep_len = the length of the episode arrays
    parts = []      # (ok, evidence)
    parts.append((lo == Poly.const(0), lo.is_const()))
    if hi is not None:
        parts.append((any(hi == P(t) for t in lens), not scan and _evidence(hi, P(lens[0])) and not foreign))
    parts.append((init.elems[kG] == Poly.const(0), True))
    ok = all(o_ for o_, _e in parts)
    if not ok and not any(e_ for o_, e_ in parts if not o_):
        raise AnalysisError(f"{q}: loop bounds `{lo.canon()[:40]}`, `{hi.canon()[:60]}` (unrecognised form)")
    shown = f"scan(..., {init.canon()[:80]}, <whole axis>, reverse={reverse})" if scan else f"fori_loop({lo.canon()[:30]}, {hi.canon()[:50]}, ..., {init.canon()[:80]})"
    ck.ob("R3-monte-carlo", q, "loop-bounds-and-init", ok, shown, "" if ok else "expected fori_loop(0, len(rewards), body, (q_table, n_visits, 0.0))", loc(mi, call))
    # what the routine hands back: (Q, n) as the backward pass leaves them - the components of the final loop state that carry them
    orets = [n for n in ocfg.nodes if n.kind == "stmt" and isinstance(n.ast, ast.Return) and n.ast.value is not None]
    ck.need(len(orets) == 1, f"{q}: {len(orets)} return statements (unrecognised form)")
    out, _fields = _record_as_tuple(nf, nf.poly(orets[0].ast.value, osc, orets[0].id))
    mo = nf.meta.get(out.single_atom() or "", {})
    comps = out.elems if out.elems is not None else (mo.get("args") if "namedtuple(" in mo.get("fn", "") and not mo.get("kws") else None)
    if comps is None and "namedtuple(" in mo.get("fn", "") and not mo.get("args"):
        # namedtuple("T", [field, ...])(field=value, ...): the values in the order of the declared fields
        decl = (nf.meta.get(mo["fn"], {}).get("args") or [None, None])[1:2]
        names = [e_.canon().strip("'\"") for e_ in (decl[0].elems or [])] if decl and decl[0] is not None else []
        if names and sorted(names) == sorted(mo["kws"]):
            comps = [mo["kws"][n_] for n_ in names]
    ck.need(comps is not None and len(comps) == 2, f"{q}: returned value `{out.canon()[:80]}` is not a pair (table, counts) (unrecognised form)")

    def origin(c):
        """('loop', k): component k of the final loop state; ('argument', name): the table as it was passed in; None: something else"""
        for nm in (Qp, Np):
            if c == penv[nm]:
                return "argument", nm
        a_ = c.single_atom() or ""
        m_ = nf.meta.get(a_, {})
        if not m_.get("args") or m_.get("fn") not in ("proj", "attr"):
            return None
        base = m_["args"][0]
        tail = a_[len(base.canon()):]
        if m_["fn"] == "proj" and re.fullmatch(r"\[\d+\]", tail):
            k = int(tail[1:-1])
        elif m_["fn"] == "attr" and carrier and tail[1:] in carrier:
            k = carrier.index(tail[1:])
        else:
            return None
        if scan:
            mb = nf.meta.get(base.single_atom() or "", {})      # scan returns (final carry, outputs)
            if mb.get("fn") != "proj" or not mb.get("args") or base.single_atom() != mb["args"][0].canon() + "[0]":
                return None
            base = mb["args"][0]
        return ("loop", k) if nf.meta.get(base.single_atom() or "", {}).get("fn", "").split(".")[-1] == kind else None
    for what, c, k_want, nm in (("Q", comps[0], kQ, Qp), ("n", comps[1], kN, Np)):
        og = origin(c)
        if og is None or (og[0] == "loop" and og[1] >= len(init.elems)):
            raise AnalysisError(f"{q}: returned {what} `{c.canon()[:100]}` is not read as a component of the final loop state (unrecognised form)")
        ok = og == ("loop", k_want)
        ck.ob("R3-monte-carlo", q, f"result:{what}", ok, f"returned {what} = {'component %d of the final loop state' % og[1] if og[0] == 'loop' else 'the argument `%s`, unchanged' % og[1]}",
              "" if ok else f"the routine must hand back the {what} table that the backward pass produced (component {k_want} of the final loop state, the one started from `{nm}`)", loc(mi, orets[0].ast))


def _reaching(nf, roots):
    """(atom, exponent) of every factor of the values that ``roots`` are computed from: through calls, functional updates, subscripts,
    records and tuples (dataflow over the normal forms, no text)."""
    seen, todo = set(), list(roots)
    while todo:
        p = todo.pop()
        if not isinstance(p, Poly):
            continue
        todo.extend(p.elems or [])
        for mono in p.terms:
            for a, k in mono:
                yield a, k
                if a in seen:
                    continue
                seen.add(a)
                m = nf.meta.get(a) or {}
                todo.extend(m.get("args", []))
                todo.extend(m.get("kws", {}).values())
                todo.extend(m.get("record", {}).values())
                if "at" in m:
                    todo.append(m["at"]["base"])


def _mc_domain(ck, repo, nf):
    """The property holds for every discount, gamma = 0 included (the return is then the immediate reward).  A value that reaches the
    returned tables and is divided by gamma, or by a power of gamma whose exponent runs over the steps of the episode, is 0/0 or x/0 there:
    the textbook update is a polynomial in gamma.  (Factors that cancel in the normal form are not seen; no evidence, no verdict.)"""
    q = A + "monte_carlo.update"
    fn = repo.func(q)
    mi = fn._module
    Rw, Ob, Ac, Gm = _params_by_role(fn, q, ["rewards", "observations", "actions", "gamma"])
    penv = {p_: Poly.atom(p_, {p_}, {p_}) for p_ in param_names(fn)}
    ocfg = nf.cfg_of(fn)
    osc = Scope(ocfg, mi, penv, q)
    roots, steps = [], {"arange", "shape", "len", Rw, Ob, Ac}
    for n in ocfg.nodes:
        if n.kind == "stmt" and isinstance(n.ast, ast.Return) and n.ast.value is not None:
            roots.append(nf.poly(n.ast.value, osc, n.id))
    # loop bodies (nested functions) that the returned value is computed with: what they return reaches the result too
    for inner in [x for x in fn.body if isinstance(x, ast.FunctionDef)]:
        ref = f"{q}.<locals>.{inner.name}"
        if not any(a == ref for a, _k in _reaching(nf, roots)):
            continue
        inner._module = mi
        icfg = nf.cfg_of(inner)
        bp = positional_params(inner)
        env = {b_: Poly.atom(b_, {b_}, {b_}) for b_ in bp}
        env.update({k_: v_ for k_, v_ in closure_env(nf, fn, inner, mi, penv, q).items() if k_ not in env})
        isc = Scope(icfg, mi, env, ref)
        steps |= set(bp[:1])        # fori_loop hands the step number to its body
        for n in icfg.nodes:
            if n.kind == "stmt" and isinstance(n.ast, ast.Return) and n.ast.value is not None:
                roots.append(nf.poly(n.ast.value, isc, n.id))
    ck.need(roots, f"{q}: nothing is returned (unrecognised form)")

    def vanishes_with_gamma(b):
        return bool(b.terms) and all(any(a == Gm and k > 0 for a, k in mono) for mono in b.terms)
    bad = []
    for a, k in _reaching(nf, roots):
        if k >= 0:
            continue
        m = nf.meta.get(a) or {}
        if a == Gm:
            bad.append(a)
        elif m.get("fn") == "pow" and len(m.get("args", [])) == 2 and vanishes_with_gamma(m["args"][0]):
            e = m["args"][1]
            c = e.const_value()
            if (c is not None and c > 0) or (c is None and ingredient_tokens(e) <= steps):
                bad.append(a)
    ok = not bad
    ck.ob("R3-domain", q, "defined-for-every-discount", ok, f"divisors made of the discount alone: {sorted(set(bad))}"[:170] if bad else "no value that reaches the result is divided by the discount",
          "" if ok else f"a value that reaches the returned tables is divided by `{bad[0][:60]}`, which is 0 for gamma = 0 (a legal discount: the return is then the immediate reward): "
          "the entries become 0/0 = nan; the documented return G' = r + gamma * G needs no division", loc(mi, fn))


# ---- Dyna-Q ---------------------------------------------------------------------------------------------------------------------------
def _dynaq(ck, repo, nf):
    # planning: every replayed transition (s, a) drawn from the visited pairs is completed by the model - s' = argmax P(.|s,a),
    # r = R(s,a,s') - and learned from with the greedy-successor update (the direct update of the real transition is read at loop
    # level by _td_loops)
    from ..sympath import enumerate_paths, PathEval
    pq = A + "dynaq.planning"
    fn = repo.func(pq)
    mi = fn._module
    cfg = nf.cfg_of(fn)
    MT, MR, OB, AB, GM, LR, QT = _params_by_role(fn, pq, ["model_transition", "model_reward", "obs_buffer", "act_buffer", "gamma", "learning_rate", "q_table"])
    loops = [n for n in cfg.nodes if n.kind == "for"]
    ck.need(len(loops) == 1, f"{pq}: expected one planning loop (unrecognised form)")
    lp = loops[0]
    env0 = {p_: Poly.atom(p_, {p_}, {p_}) for p_ in param_names(fn)}
    paths = enumerate_paths(cfg, lp.id, {lp.id}, first_label=True)
    ck.need(len(paths) >= 1, f"{pq}: loop body not readable (unrecognised form)")
    where = loc(mi, lp.ast)
    # the values bound before the loop (the sampled positions, the gathered buffers) are read along the way to it
    pres = enumerate_paths(cfg, cfg.entry, {lp.id})
    ck.need(len(pres) == 1, f"{pq}: {len(pres)} ways to the planning loop (unrecognised form)")
    pe0 = PathEval(nf, cfg, mi, pq, env0).run(pres[0][:-1])
    for pth in paths:
        pe = PathEval(nf, cfg, mi, pq, pe0.env)
        pe.store = dict(pe0.store)
        pe.run(pth[:-1])
        new = pe.env[QT]
        au = _at_update(nf, new)
        if au is None:
            raise AnalysisError(f"{pq}: new table `{new.canon()[:100]}` is not a single-entry update (unrecognised form)")
        base, idx, op, val = au
        ck.need(base == env0[QT], f"{pq}: update of `{base.canon()[:40]}` (unrecognised form)")
        # the replayed pair is read off the entry that is written: a visited (observation, action) pair, i.e. the entries of the two
        # buffers at one common index - however the loop walks over them (zip of the gathered buffers, an index, the sampled positions)
        comps = _split_top(idx)
        drawn = _same_draw(nf, comps[0], comps[1], OB, AB) if len(comps) == 2 else None
        if drawn is None:
            raise AnalysisError(f"{pq}: update index `{idx[:80]}` is not (entry of `{OB}`, entry of `{AB}`) at a common position (unrecognised form)")
        X, Y = comps if drawn == "pair" else comps[::-1]
        show = lambda t_: t_.replace(X, "S_").replace(_flat_text(X), "S_").replace(Y, "A_").replace(_flat_text(Y), "A_")
        okidx = drawn == "pair"
        ck.ob("R4-dyna-q", pq, "replayed-write-index", okidx, f"{QT}.at[{show(idx)}]", "" if okidx else "the replayed update must change the entry of the replayed (observation, action) pair", where)
        Sp, Ap = Poly.atom(X), Poly.atom(Y)
        sce = Scope(None, mi, {**env0, "S_": Sp, "A_": Ap}, pq)
        Np = nf._mkcall("argmax", [nf.poly(parse_expr(f"{MT}[S_, A_]"), sce, None)], {})
        sce2 = Scope(None, mi, {**env0, "S_": Sp, "A_": Ap, "N_": Np}, pq)
        Rp = nf.poly(parse_expr(f"{MR}[S_, A_, N_]"), sce2, None)
        row = nf.poly(parse_expr(f"{QT}[N_]"), sce2, None)
        greedy = nf._mkcall("argmax", [row], {})
        sce3 = Scope(None, mi, {**env0, "S_": Sp, "A_": Ap, "N_": Np, "R_": Rp, "G_": greedy}, pq)
        read = nf.poly(parse_expr(f"{QT}[S_, A_]"), sce3, None)
        delta = _flat(val) if op == "add" else _flat(val) - _flat(read)
        want = _flat(nf.poly(parse_expr(f"{LR} * (R_ + {GM} * {QT}[N_, G_] - {QT}[S_, A_])"), sce3, None))
        ok = delta == want
        # (evidence is judged with the pair named by its roles: the text of the pair itself is not an ingredient of the update)
        if not ok and not _evidence(Poly.atom(show(delta.canon())), Poly.atom(show(want.canon()))):
            raise AnalysisError(f"{pq}: replayed increment `{show(delta.canon())[:120]}` (unrecognised form)")
        ck.ob("R4-dyna-q", pq, "replayed-transition", ok, f"increment = {show(delta.canon())[:150]}", "" if ok else f"replayed transitions must come from the learned model (s' = argmax P(.|s,a), r = R(s,a,s')) and be learned from with the greedy-successor update: expected `{show(want.canon())[:140]}`", where)
    # train_dynaq plans after learning from the real transition
    tq = A + "dynaq.train_dynaq"
    tfn = repo.func(tq)
    hits = [c for c in ast.walk(tfn) if isinstance(c, ast.Call) and isinstance(c.func, (ast.Name, ast.Attribute)) and repo.resolve_expr(tfn._module, c.func) == pq]
    # (a missing or a repeated call is not read further: whether the table still passes through the model replay is then not decided)
    ck.need(len(hits) == 1, f"{tq}: {len(hits)} call(s) of planning (unrecognised form)")
    ck.ob("R4-dyna-q", tq, "plans-from-model", True, "1 call(s) of planning", "", loc(tfn._module, tfn))


def _dyna_model(ck, repo, nf):
    """model_update is read through its stores (per path): `model.transition` / `model.reward` end as functional updates of themselves."""
    from ..sympath import enumerate_paths, PathEval
    q = A + "dynaq.model_update"
    fn = repo.func(q)
    mi = fn._module
    M, C, O, Ac, Nx = _params_by_role(fn, q, ["model", "counter", "obs", "act", "next_obs"])
    cfg = nf.cfg_of(fn)
    env0 = {p_: Poly.atom(p_, {p_}, {p_}) for p_ in param_names(fn)}
    ssc = Scope(None, mi, env0, q)
    P = lambda txt: nf.poly(parse_expr(txt), ssc, None)
    # (nested lists and arrays made of them are indexed in two spellings, x[s][a] and x[s, a]: one spelling on both sides)
    row = _flat(P(f"{C}.transition_counter[{O}][{Ac}]"))
    tot = nf._libcall("sum", [row], {}, None)
    hist = _flat(P(f"{C}.reward_history[{O}][{Ac}][{Nx}]"))
    idx2, idx3 = f"{O}, {Ac}", f"{O}, {Ac}, {Nx}"
    where = loc(mi, fn)
    try:
        paths = enumerate_paths(cfg, cfg.entry, {cfg.exit}, max_paths=200)
    except RuntimeError:
        raise AnalysisError(f"{q}: too many paths")
    ck.need(paths, f"{q}: no path (unrecognised form)")
    seen = set()
    for pth in paths:
        pe = PathEval(nf, cfg, mi, q, env0)
        pe.run(pth)
        T, R = pe.store.get(f"{M}.transition"), pe.store.get(f"{M}.reward")
        ck.need(T is not None and R is not None, f"{q}: `{M}.transition` / `{M}.reward` are not assigned on every path (unrecognised form)")
        if (T, R) in seen:
            continue
        seen.add((T, R))
        au, ar = _at_update(nf, T), _at_update(nf, R)
        if au is None or ar is None or au[0] != P(f"{M}.transition") or ar[0] != P(f"{M}.reward") or au[2] != "set" or ar[2] not in ("set", "add"):
            raise AnalysisError(f"{q}: model fields are not rewritten with .at[...].set(...) of themselves: `{T.canon()[:80]}`, `{R.canon()[:80]}` (unrecognised form)")
        # transition: a value normalised by the row total changes with every visit of (s, a), so the whole row has to be rewritten
        _b, idx, _op, val = au
        val = _flat(val)
        idx = re.sub(r"(, :)+$", "", idx)        # x.at[s, a, :] is the row x.at[s, a]
        construct = f"`{M}.transition.at[{idx}].set({val.canon()[:90]})`"
        uses_row_total = any(tot.canon() in a_ for a_ in val.atoms())
        if idx == idx2:
            ck.ob("R4-dyna-q", q, "transition-row-footprint", True, construct, "", where)
            want = row * tot.inv()
            okv = val == want
            if not okv and not _evidence(val, want):
                raise AnalysisError(f"{q}: transition row `{val.canon()[:120]}` (unrecognised form)")
            ck.ob("R4-dyna-q", q, "transition-row-value", okv, f"row = {val.canon()[:120]}", "" if okv else "row must be counts(s,a,.) / sum(counts(s,a,.))", where)
        elif idx == idx3 and uses_row_total:
            ck.ob("R4-dyna-q", q, "transition-row-footprint", False, construct,
                  "the stored probability is normalised by the row total, which changes with every visit of (s,a), but only one entry of the row is rewritten: "
                  "the other entries keep stale values and P(.|s,a) no longer sums to one", where)
        elif idx not in (idx2, idx3) and ":" not in idx and set(_names(idx)) <= {O, Ac, Nx} and _evidence(val, row * tot.inv()):
            ck.ob("R4-dyna-q", q, "transition-row-value", False, construct, "the row that is rewritten is not P(.|obs, act)", where)
        else:
            raise AnalysisError(f"{q}: transition written at `{idx[:50]}` with `{val.canon()[:90]}` (unrecognised form)")
        # reward: mean of the rewards observed for exactly this transition
        _b, idx, rop, val = ar
        val = _flat(val)
        construct = f"`{M}.reward.at[{idx}].{rop}({val.canon()[:90]})`"
        old = _flat(P(f"{M}.reward[{idx3}]"))
        if rop == "add" or old.single_atom() in val.atoms():
            # the mean kept incrementally: the stored entry moves towards the newest reward of this transition by 1/n of their difference.
            # With n the number of rewards recorded for (s, a, s') this is the running mean (whatever the table started with: n = 1 stores
            # the reward itself) - provided the model follows the counter record by record, which is read off the training loop
            if idx != idx3:
                raise AnalysisError(f"{q}: reward kept incrementally at `{idx[:50]}` (unrecognised form)")
            chg = val if rop == "add" else val - old
            last = _flat(P(f"{C}.reward_history[{O}][{Ac}][{Nx}][-1]"))
            own = [nf._libcall("len", [hist], {}, None), _flat(P(f"{C}.transition_counter[{O}][{Ac}][{Nx}]"))]
            if any(chg == (last - old) * n_.inv() for n_ in own):
                _model_follows_counter(ck, repo, nf, q)
                ck.ob("R4-dyna-q", q, "reward-mean", True, construct + " (running mean)", "", where)
                continue
            if chg == (last - old) * tot.inv():
                ck.ob("R4-dyna-q", q, "reward-mean", False, construct,
                      "the running mean of the rewards of (s,a,s') moves by 1/n of the innovation with n the number of rewards observed for that transition; "
                      "here n is the number of visits of (s,a) over all successors, which is larger as soon as (s,a) has been seen with two successors", where)
                continue
            raise AnalysisError(f"{q}: reward kept incrementally, entry changes by `{chg.canon()[:120]}` (unrecognised form)")
        want1 = nf._libcall("mean", [hist], {}, None)
        want2 = nf._libcall("sum", [hist], {}, None) * nf._libcall("len", [hist], {}, None).inv()
        if idx != idx3 and (":" in idx or not set(_names(idx)) <= {O, Ac, Nx}):
            raise AnalysisError(f"{q}: reward written at `{idx[:50]}` (unrecognised form)")
        okr = idx == idx3 and val in (want1, want2)
        by_row_total = any(tot.canon() in a_ for a_ in val.atoms())     # divides by the visits of (s,a) over all successors: another quantity
        if not okr and idx == idx3 and not by_row_total and not _evidence(val, want1, ("sum", "len")):
            raise AnalysisError(f"{q}: stored reward `{val.canon()[:120]}` (unrecognised form)")
        ck.ob("R4-dyna-q", q, "reward-mean", okr, construct, "" if okr else "R(s,a,s') must be the mean of the rewards observed for that transition", where)


def _model_follows_counter(ck, repo, nf, mq):
    """A model that is kept incrementally is right only if it is brought up to date once for every recorded transition: in the training
    loop counter_update and model_update are each called once, unconditionally one after the other (statements of one block), for the
    same (observation, action, successor).  Anything else is not decided here."""
    tq, cq = A + "dynaq.train_dynaq", A + "dynaq.counter_update"
    tfn = repo.func(tq)
    mi = tfn._module
    found = {}
    for parent in ast.walk(tfn):
        for f in ("body", "orelse", "finalbody"):
            blk = getattr(parent, f, None)
            if not isinstance(blk, list):
                continue
            for k, st in enumerate(blk):
                for c in ast.walk(st) if isinstance(st, (ast.Assign, ast.Expr, ast.AnnAssign)) else ():
                    if isinstance(c, ast.Call) and isinstance(c.func, (ast.Name, ast.Attribute)) and repo.resolve_expr(mi, c.func) in (cq, mq):
                        found.setdefault(repo.resolve_expr(mi, c.func), []).append((id(blk), k, c))
    n_all = sum(1 for c in ast.walk(tfn) if isinstance(c, ast.Call) and isinstance(c.func, (ast.Name, ast.Attribute)) and repo.resolve_expr(mi, c.func) in (cq, mq))
    ck.need(n_all == 2 and len(found.get(cq, [])) == 1 and len(found.get(mq, [])) == 1, f"{tq}: counter_update / model_update are not called once each as plain statements (incremental model: unrecognised form)")
    (b1, k1, c1), (b2, k2, c2) = found[cq][0], found[mq][0]
    ck.need(b1 == b2 and k1 < k2, f"{tq}: model_update does not follow counter_update in one block (incremental model: unrecognised form)")

    def bound(c, qual, roles):
        names = param_names(repo.func(qual))
        ck.need(not any(isinstance(a_, ast.Starred) for a_ in c.args) and all(k_.arg for k_ in c.keywords), f"{tq}: call of {qual} not bound (unrecognised form)")
        b = dict(zip(names, c.args))
        b.update({k_.arg: k_.value for k_ in c.keywords})
        return [ast.dump(b[r_]) if r_ in b else None for r_ in _params_by_role(repo.func(qual), qual, roles)]
    same = bound(c1, cq, ["obs", "act", "next_obs"]) == bound(c2, mq, ["obs", "act", "next_obs"]) and None not in bound(c1, cq, ["obs", "act", "next_obs"])
    ck.need(same, f"{tq}: counter_update and model_update are not called for the same transition expressions (incremental model: unrecognised form)")
    # (the same expressions denote the same values: no statement lies between the two calls that rebinds a name they read)
    blk = next(getattr(p_, f_) for p_ in ast.walk(tfn) for f_ in ("body", "orelse", "finalbody") if isinstance(getattr(p_, f_, None), list) and id(getattr(p_, f_)) == b1)
    read = {x.id for a_ in list(c2.args) + [k_.value for k_ in c2.keywords] for x in ast.walk(a_) if isinstance(x, ast.Name)}
    between = {x.id for st in blk[k1 + 1:k2] for x in ast.walk(st) if isinstance(x, ast.Name) and isinstance(x.ctx, ast.Store)}
    ck.need(not (read & between), f"{tq}: {sorted(read & between)} rebound between counter_update and model_update (incremental model: unrecognised form)")


def _dyna_counter(ck, repo, nf):
    """counter_update is read through its effects (per path): the entry of the observed transition grows by one, its reward is appended once."""
    from ..sympath import enumerate_paths, PathEval
    q = A + "dynaq.counter_update"
    fn = repo.func(q)
    mi = fn._module
    C, O, Ac, Rr, Nx = _params_by_role(fn, q, ["counter", "obs", "act", "reward", "next_obs"])
    cfg = nf.cfg_of(fn)
    env0 = {p_: Poly.atom(p_, {p_}, {p_}) for p_ in param_names(fn)}
    kT, kH = f"{C}.transition_counter[{O}][{Ac}][{Nx}]", f"{C}.reward_history[{O}][{Ac}][{Nx}]"
    roles = {C, O, Ac, Nx, "transition_counter", "reward_history"}
    try:
        paths = enumerate_paths(cfg, cfg.entry, {cfg.exit}, max_paths=200)
    except RuntimeError:
        raise AnalysisError(f"{q}: too many paths")
    ck.need(paths, f"{q}: no path (unrecognised form)")
    for pth in paths:
        pe = PathEval(nf, cfg, mi, q, env0)
        pe.run(pth)
        evidence, undecided = [], []
        got = pe.store.get(kT)
        want = Poly.atom(kT) + Poly.const(1)
        others = [k_ for k_ in pe.store if k_ != kT and k_.startswith(f"{C}.transition_counter[")]
        if got is None or others:
            wrong = [k_ for k_ in others if set(_names(k_)) <= roles]
            (evidence if wrong and len(wrong) == len(others) else undecided).append(f"count stored at {others or 'no entry'}")
        elif got != want:
            (evidence if _evidence(got, want) else undecided).append(f"count becomes {got.canon()[:60]}")
        apps = [(k_, v_) for _n, k_, v_ in pe.appended if k_.startswith(f"{C}.reward_history")]
        if not apps:
            undecided.append("reward history not grown by append")
        elif len(apps) != 1 or apps[0][0] != kH:
            (evidence if all(set(_names(k_)) <= roles for k_, _v in apps) else undecided).append(f"appends to {[k_ for k_, _v in apps]}")
        elif apps[0][1] != env0[Rr]:
            (evidence if _evidence(apps[0][1], env0[Rr]) else undecided).append(f"appends {apps[0][1].canon()[:60]}")
        if undecided and not evidence:
            raise AnalysisError(f"{q}: {'; '.join(undecided)} (unrecognised form)")
        ok = not evidence
        ck.ob("R4-dyna-q", q, "counts", ok, f"{kT} -> {got.canon()[:50] if got is not None else '?'} ; appended {[(k_, v_.canon()[:20]) for k_, v_ in apps]}"[:170],
              "" if ok else "the counter must count the observed transition once and record its reward: " + "; ".join(evidence), loc(fn._module, fn))


def _td_error(ck, repo, nf):
    # td_error carries no obligation of its own: it is inlined at every use site, so any change of it is judged there
    ck.note("td_error is checked through inlining at its call sites (no frozen form of the helper itself)")
    q = "rl_blox.blox.value_policy.greedy_policy"
    fn = repo.func(q)
    T, O = _params_by_role(fn, q, ["q_table", "observation"])
    env = {p: Poly.atom(p, {p}, {p}) for p in param_names(fn)}
    try:
        got = _flat(nf.return_poly(q, env))
    except ValueError as e:
        raise AnalysisError(f"{q}: {e} (unrecognised form)")
    want = nf._mkcall("argmax", [nf.poly(parse_expr(f"{T}[{O}]"), Scope(None, fn._module, env, q), None)], {})
    ok = got == want
    if not ok and not _evidence(got, want):
        raise AnalysisError(f"{q}: greedy selection `{got.canon()[:100]}` (unrecognised form)")
    ck.ob("R2-co-indexing", q, "argmax-of-row", ok, f"greedy_policy = {got.canon()[:120]}", "" if ok else "greedy selection must be argmax over the row of the observation", loc(fn._module, fn))


def run(ck, repo: Repo, tier: str):
    nf = NF(repo, inline_depth=4)
    ck.guard(_td_loops, ck, repo, nf)
    ck.guard(_td_error, ck, repo, nf)
    ck.guard(_monte_carlo, ck, repo, nf)
    ck.guard(_mc_domain, ck, repo, nf)
    ck.guard(_dynaq, ck, repo, nf)
    ck.guard(_dyna_model, ck, repo, nf)
    ck.guard(_dyna_counter, ck, repo, nf)


_V = "rl_blox/blox/value_policy.py"
_Q, _S, _D, _M, _Y = "rl_blox/algorithm/q_learning.py", "rl_blox/algorithm/sarsa.py", "rl_blox/algorithm/double_q_learning.py", "rl_blox/algorithm/monte_carlo.py", "rl_blox/algorithm/dynaq.py"
_Q_CALL = "        q_table = _update_policy(\n            q_table,\n            observation,\n            action,\n            reward,\n            next_observation,\n            next_action,\n            gamma,\n            terminated,\n            learning_rate,\n        )\n"
_Q_BRANCH = ("        if terminated:\n            target = reward\n        else:\n            target = reward + gamma * q_table[next_observation, next_action]\n"
             "        q_table = q_table.at[observation, action].add(\n            learning_rate * (target - q_table[observation, action])\n        )\n")
_DQL_REST = "                observation,\n                action,\n                reward,\n                next_observation,\n                gamma,\n                learning_rate,\n                terminated,\n            )\n"
_MC_BODY = "    def _update_body(i, state):\n        q_table, n_visits, ep_return = state\n        idx = ep_len - 1 - i\n\n        obs = observations[idx]\n        act = actions[idx]\n        rew = rewards[idx]\n"
_MC_CALL = "    q_table, n_visits, _ = jax.lax.fori_loop(\n        0, ep_len, _update_body, (q_table, n_visits, 0.0)\n    )\n"
_MC_RET = "        return (q_table, n_visits, ep_return)\n"
_MC_SCAN_BODY = "    def _update_body(state, step):\n        q_table, n_visits, ep_return = state\n        obs, act, rew = step\n"
_MC_SCAN_RET = "        return (q_table, n_visits, ep_return), None\n"


def _mc_scan_call(direction, init="(q_table, n_visits, jnp.zeros(()))", xs="(observations, actions, rewards)"):
    return f"    (q_table, n_visits, _), _ = jax.lax.scan(\n        _update_body, {init}, {xs}{direction}\n    )\n"


_STEP5 = "        next_observation, reward, terminated, truncated, info = env.step(\n            int(action)\n        )\n"
_Y_REWARD = "    model.reward = model.reward.at[obs, act, next_obs].set(\n        np.mean(counter.reward_history[obs][act][next_obs])\n    )"
_Q_MASK = "    next_val = (1 - terminated) * q_table[next_observation, next_action]"
MUTANTS = [
    {"id": "c14-dyna-running-mean-over-row-visits", "file": _Y, "rule": "R4-dyna-q", "find": _Y_REWARD,
     "replace": "    latest = counter.reward_history[obs][act][next_obs][-1]\n    model.reward = model.reward.at[obs, act, next_obs].add(\n        (latest - model.reward[obs, act, next_obs]) / counts.sum()\n    )"},
    {"id": "c14-q-whole-step-flags-crossed", "file": _Q, "rule": "R1", "find": _STEP5,
     "replace": "        outcome = env.step(int(action))\n        next_observation, reward = outcome[0], outcome[1]\n        truncated, terminated, info = outcome[2:]\n"},
    {"id": "c14-q-continuing-flag-of-truncation", "file": _Q, "rule": "R1-update-formula", "edits": [("import jax\n", "import jax\nimport jax.numpy as jnp\n"), ("            terminated,\n            learning_rate,", "            truncated,\n            learning_rate,"),
        (_Q_MASK, "    next_val = jnp.logical_not(terminated) * q_table[next_observation, next_action]")]},
    {"id": "c14-q-continuing-flag-on-reward", "file": _Q, "rule": "R1", "edits": [("import jax\n", "import jax\nimport jax.numpy as jnp\n"),
        (_Q_MASK + "\n    error = td_error(reward, gamma, val, next_val)", "    alive = jnp.logical_not(terminated)\n    error = td_error(alive * reward, gamma, val, q_table[next_observation, next_action])")]},
    {"id": "c14-q-wrong-next-index", "file": _Q, "rule": "R1", "find": "q_table[next_observation, next_action]", "replace": "q_table[next_observation, action]"},
    {"id": "c14-q-write-next", "file": _Q, "rule": "R1", "find": "    q_table = q_table.at[observation, action].add(learning_rate * error)", "replace": "    q_table = q_table.at[next_observation, action].add(learning_rate * error)"},
    {"id": "c14-q-no-mask", "file": _Q, "rule": "R1", "find": "    next_val = (1 - terminated) * q_table[next_observation, next_action]", "replace": "    next_val = q_table[next_observation, next_action]"},
    {"id": "c14-q-mask-branch-swapped", "file": _Q, "rule": "R1", "find": _Q_CALL, "replace": _Q_BRANCH.replace("if terminated:", "if not terminated:")},
    {"id": "c14-q-sign", "file": "rl_blox/util/error_functions.py", "rule": "R1", "find": "    return reward + gamma * next_value - value", "replace": "    return reward + gamma * next_value + value"},
    {"id": "c14-q-greedy-at-obs", "file": _Q, "rule": "R", "find": "        next_action = greedy_policy(q_table, next_observation)", "replace": "        next_action = greedy_policy(q_table, observation)"},
    {"id": "c14-q-two-writes", "file": _Q, "rule": "R1", "find": "    q_table = q_table.at[observation, action].add(learning_rate * error)\n", "replace": "    q_table = q_table.at[observation, action].add(learning_rate * error)\n    q_table = q_table.at[next_observation, next_action].add(0.0 * error)\n"},
    {"id": "c14-sarsa-greedy-next", "file": _S, "rule": "R2", "find": "        next_action = epsilon_greedy_policy(\n            q_table, next_observation, epsilon, subkey\n        )", "replace": "        next_action = epsilon_greedy_policy(\n            q_table, observation, epsilon, subkey\n        )"},
    {"id": "c14-sarsa-lr-gamma-swapped", "file": _S, "rule": "R", "find": "            gamma,\n            learning_rate,\n            terminated,\n        )", "replace": "            learning_rate,\n            gamma,\n            terminated,\n        )"},
    {"id": "c14-dql-same-table-eval", "file": _D, "rule": "R1", "find": "    next_val = (1 - terminated) * q_table2[next_observation, next_action]", "replace": "    next_val = (1 - terminated) * q_table1[next_observation, next_action]"},
    {"id": "c14-dql-select-at-obs", "file": _D, "rule": "R1", "find": "    next_action = greedy_policy(q_table1, next_observation)", "replace": "    next_action = greedy_policy(q_table1, observation)"},
    {"id": "c14-dql-callsite-same-tables", "file": _D, "rule": "R", "find": "                subkey2,\n                q_table2,\n                q_table1,", "replace": "                subkey2,\n                q_table2,\n                q_table2,"},
    {"id": "c14-mc-forward", "file": _M, "rule": "R3", "find": "        idx = ep_len - 1 - i", "replace": "        idx = i"},
    {"id": "c14-mc-count-after", "file": _M, "rule": "R3", "find": "            1.0 / n_visits[obs, act] * pred_error", "replace": "            1.0 / (n_visits[obs, act] + 1) * pred_error"},
    {"id": "c14-mc-return-undiscounted", "file": _M, "rule": "R3", "find": "        ep_return = rew + gamma * ep_return", "replace": "        ep_return = rew + ep_return"},
    {"id": "c14-mc-init", "file": _M, "rule": "R3", "find": "        0, ep_len, _update_body, (q_table, n_visits, 0.0)", "replace": "        1, ep_len, _update_body, (q_table, n_visits, 0.0)"},
    {"id": "c14-dyna-set-no-read", "file": _Y, "rule": "R1", "find": "        q_table[obs, act] + learning_rate * q_target\n", "replace": "        learning_rate * q_target\n"},
    {"id": "c14-dyna-planning-reward-row", "file": _Y, "rule": "R4", "find": "        reward = model_reward[obs, act, next_obs]", "replace": "        reward = model_reward[obs, act, obs]"},
    {"id": "c14-dql-both-tables", "file": _D, "rule": "R1", "find": "        else:\n            q_table2 = _dql_update(", "replace": "        if True:\n            q_table2 = _dql_update("},
    {"id": "c14-dql-second-table-never-learns", "file": _D, "rule": "R2", "find": "        else:\n            q_table2 = _dql_update(\n                subkey2,\n                q_table2,\n                q_table1,", "replace": "        else:\n            q_table1 = _dql_update(\n                subkey2,\n                q_table1,\n                q_table2,"},
    {"id": "c14-dql-skips-learning", "file": _D, "rule": "R1", "find": "        else:\n            q_table2 = _dql_update(", "replace": "        elif truncated:\n            q_table2 = _dql_update("},
    {"id": "c14-greedy-not-the-row", "file": _V, "rule": "R2", "find": "    return jnp.argmax(q_table[observation])", "replace": "    return jnp.argmax(q_table)[observation]"},
    {"id": "c14-mc-hoisted-count", "file": _M, "rule": "R3", "edits": [("    def _update_body(i, state):\n        q_table, n_visits, ep_return = state", "    n_visits = n_visits.at[observations, actions].add(1)\n\n    def _update_body(i, state):\n        q_table, ep_return = state"),
                                                                    ("        n_visits = n_visits.at[obs, act].add(1)\n", ""), ("        return (q_table, n_visits, ep_return)", "        return (q_table, ep_return)"),
                                                                    ("    q_table, n_visits, _ = jax.lax.fori_loop(\n        0, ep_len, _update_body, (q_table, n_visits, 0.0)", "    q_table, _ = jax.lax.fori_loop(\n        0, ep_len, _update_body, (q_table, 0.0)")]},
    {"id": "c14-mc-short-loop", "file": _M, "rule": "R3", "find": "        0, ep_len, _update_body, (q_table, n_visits, 0.0)", "replace": "        0, ep_len - 1, _update_body, (q_table, n_visits, 0.0)"},
    {"id": "c14-dyna-single-entry-of-row", "file": _Y, "rule": "R4", "find": "    model.transition = model.transition.at[obs, act].set(counts / sum(counts))", "replace": "    model.transition = model.transition.at[obs, act, next_obs].set(\n        counts[next_obs] / sum(counts)\n    )"},
    {"id": "c14-dyna-count-wrong-successor", "file": _Y, "rule": "R4", "find": "    counter.transition_counter[obs][act][next_obs] += 1", "replace": "    counter.transition_counter[obs][act][obs] += 1"},
    {"id": "c14-dyna-reward-over-row-visits", "file": _Y, "rule": "R4", "find": "        np.mean(counter.reward_history[obs][act][next_obs])", "replace": "        sum(counter.reward_history[obs][act][next_obs]) / sum(counts)"},
    {"id": "c14-dyna-planning-entry-swapped", "file": _Y, "rule": "R4", "find": "        q_table = q_learning_update(\n            obs,\n            act,\n            reward,\n            next_obs,", "replace": "        q_table = q_learning_update(\n            act,\n            obs,\n            reward,\n            next_obs,"},
    {"id": "c14-dyna-reward-last", "file": _Y, "rule": "R4", "find": "        np.mean(counter.reward_history[obs][act][next_obs])", "replace": "        counter.reward_history[obs][act][next_obs][-1]"},
    {"id": "c14-mc-scan-forward", "file": _M, "rule": "R3-monte-carlo", "edits": [(_MC_BODY, _MC_SCAN_BODY), (_MC_RET, _MC_SCAN_RET), (_MC_CALL, _mc_scan_call(""))]},
    {"id": "c14-mc-scan-final-counts", "file": _M, "rule": "R3-monte-carlo", "edits": [
        (_MC_BODY, "    totals = n_visits.at[observations, actions].add(1)\n\n    def _update_body(state, step):\n        q_table, ep_return = state\n        obs, act, rew = step\n"),
        ("        n_visits = n_visits.at[obs, act].add(1)\n", ""), ("            1.0 / n_visits[obs, act] * pred_error", "            pred_error / totals[obs, act]"), (_MC_RET, "        return (q_table, ep_return), None\n"),
        (_MC_CALL, "    (q_table, _), _ = jax.lax.scan(\n        _update_body, (q_table, 0.0), (observations, actions, rewards), reverse=True\n    )\n    n_visits = totals\n")]},
    {"id": "c14-mc-return-rescaled-by-discount", "file": _M, "rule": "R3-domain", "edits": [
        ("    ep_len = rewards.shape[0]\n", "    ep_len = rewards.shape[0]\n    weights = jnp.power(gamma, jnp.arange(ep_len))\n    togo = jnp.flip(jnp.cumsum(jnp.flip(weights * rewards))) / weights\n"),
        ("        ep_return = rew + gamma * ep_return\n", "        ep_return = togo[idx]\n")]},
    {"id": "c14-mc-return-divided-by-discount", "file": _M, "rule": "R3-domain", "find": "        ep_return = rew + gamma * ep_return\n",
     "replace": "        ep_return = jnp.sum(jnp.stack([gamma * rew, gamma * gamma * ep_return])) / gamma\n"},
    {"id": "c14-mc-scan-returns-reversed-pairs-not", "file": _M, "rule": "R3-monte-carlo", "edits": [(_MC_BODY, _MC_SCAN_BODY), (_MC_RET, _MC_SCAN_RET), (_MC_CALL, _mc_scan_call("", xs="(observations, actions, jnp.flip(rewards))"))]},
    {"id": "c14-mc-result-components-swapped", "file": _M, "rule": "R3-monte-carlo", "find": "    q_table, n_visits, _ = jax.lax.fori_loop(", "replace": "    n_visits, q_table, _ = jax.lax.fori_loop("},
    {"id": "c14-mc-result-dropped", "file": _M, "rule": "R3-monte-carlo", "find": "    q_table, n_visits, _ = jax.lax.fori_loop(", "replace": "    _, n_visits, _ = jax.lax.fori_loop("},
]
BENIGN = [
    {"id": "c14-b-dyna-running-mean-history-length", "file": _Y, "find": _Y_REWARD,
     "replace": "    seen = counter.reward_history[obs][act][next_obs]\n    before = model.reward[obs, act, next_obs]\n    model.reward = model.reward.at[obs, act, next_obs].set(\n        before + (seen[-1] - before) / len(seen)\n    )"},
    {"id": "c14-b-dyna-running-mean-own-count", "file": _Y, "find": _Y_REWARD,
     "replace": "    times = counter.transition_counter[obs][act][next_obs]\n    latest = counter.reward_history[obs][act][next_obs][-1]\n    model.reward = model.reward.at[obs, act, next_obs].add(\n        (latest - model.reward[obs][act][next_obs]) / times\n    )"},
    {"id": "c14-b-q-step-kept-whole", "file": _Q, "find": _STEP5,
     "replace": "        outcome = env.step(int(action))\n        next_observation, reward, terminated = outcome[0], outcome[1], outcome[2]\n        truncated, info = outcome[-2], outcome[4]\n"},
    {"id": "c14-b-dql-step-kept-whole-then-unpacked", "file": _D, "find": _STEP5,
     "replace": "        outcome = env.step(int(action))\n        next_observation, reward, terminated, truncated, info = outcome\n"},
    {"id": "c14-b-sarsa-step-kept-whole-slices", "file": _S, "find": _STEP5,
     "replace": "        outcome = env.step(int(action))\n        next_observation, reward, terminated = outcome[:3]\n        truncated, info = outcome[3:5]\n"},
    {"id": "c14-b-q-continuing-flag", "file": _Q, "edits": [("import jax\n", "import jax\nimport jax.numpy as jnp\n"),
        (_Q_MASK, "    alive = jnp.logical_not(terminated)\n    next_val = q_table[next_observation, next_action] * alive")]},
    {"id": "c14-b-sarsa-flag-as-bool", "file": _S, "find": _Q_MASK, "replace": "    done = bool(terminated)\n    next_val = (1 - done) * q_table[next_observation, next_action]"},
    {"id": "c14-b-sarsa-not-terminated", "file": _S, "find": _Q_MASK, "replace": "    next_val = (not terminated) * q_table[next_observation, next_action]"},
    {"id": "c14-b-q-inline-td", "file": _Q, "find": "    error = td_error(reward, gamma, val, next_val)", "replace": "    error = reward + gamma * next_val - val"},
    {"id": "c14-b-q-set-form", "file": _Q, "find": "    q_table = q_table.at[observation, action].add(learning_rate * error)", "replace": "    q_table = q_table.at[observation, action].set(val + learning_rate * error)"},
    {"id": "c14-b-q-not-done", "file": _Q, "find": "    next_val = (1 - terminated) * q_table[next_observation, next_action]\n    error = td_error(reward, gamma, val, next_val)", "replace": "    not_done = 1 - terminated\n    error = td_error(reward, gamma * not_done, val, q_table[next_observation, next_action])"},
    {"id": "c14-b-mc-div", "file": _M, "find": "            1.0 / n_visits[obs, act] * pred_error", "replace": "            pred_error / n_visits[obs, act]"},
    {"id": "c14-b-dyna-add-form", "file": _Y, "find": "    return q_table.at[obs, act].set(\n        q_table[obs, act] + learning_rate * q_target\n    )", "replace": "    return q_table.at[obs, act].add(learning_rate * q_target)"},
    {"id": "c14-b-q-chained-index", "file": _Q, "edits": [("    val = q_table[observation, action]", "    val = q_table[observation][action]"), ("    next_val = (1 - terminated) * q_table[next_observation, next_action]", "    next_val = (1 - terminated) * q_table[next_observation][next_action]")]},
    {"id": "c14-b-q-two-adds-same-entry", "file": _Q, "find": "    q_table = q_table.at[observation, action].add(learning_rate * error)", "replace": "    q_table = q_table.at[observation, action].add(learning_rate * (reward + gamma * next_val))\n    q_table = q_table.at[observation, action].add(-learning_rate * val)"},
    {"id": "c14-b-greedy-row-colon", "file": _V, "find": "    return jnp.argmax(q_table[observation])", "replace": "    return jnp.argmax(q_table[observation, :])"},
    {"id": "c14-b-sarsa-kw-select", "file": _S, "find": "        next_action = epsilon_greedy_policy(\n            q_table, next_observation, epsilon, subkey\n        )", "replace": "        next_action = epsilon_greedy_policy(\n            key=subkey, observation=int(next_observation), q_table=q_table, epsilon=epsilon\n        )"},
    {"id": "c14-b-dql-complementary-tests", "file": _D, "find": "        else:\n            q_table2 = _dql_update(", "replace": "        if val >= 0.5:\n            q_table2 = _dql_update("},
    {"id": "c14-b-mc-roles-reordered-len", "file": _M, "edits": [("    ep_len = rewards.shape[0]", "    ep_len = len(observations)"), ("        q_table, n_visits, ep_return = state", "        n_visits, ep_return, q_table = state"), ("        return (q_table, n_visits, ep_return)", "        return (n_visits, ep_return, q_table)"),
                                                                 ("    q_table, n_visits, _ = jax.lax.fori_loop(\n        0, ep_len, _update_body, (q_table, n_visits, 0.0)", "    n_visits, _, q_table = jax.lax.fori_loop(\n        0, rewards.shape[0], init_val=(n_visits, 0.0, q_table), body_fun=_update_body")]},
    {"id": "c14-b-mc-set-forms", "file": _M, "edits": [("        n_visits = n_visits.at[obs, act].add(1)", "        n_visits = n_visits.at[obs, act].set(n_visits[obs, act] + 1)"),
                                                       ("        q_table = q_table.at[obs, act].add(\n            1.0 / n_visits[obs, act] * pred_error\n        )", "        q_table = q_table.at[obs, act].set(\n            q_table[obs, act] + pred_error / n_visits[obs, act]\n        )")]},
    {"id": "c14-b-dyna-model-locals", "file": _Y, "edits": [("    model.transition = model.transition.at[obs, act].set(counts / sum(counts))", "    pair = (obs, act)\n    total = counts.sum()\n    model.transition = model.transition.at[pair].set(counts / total)"),
                                                            ("    model.reward = model.reward.at[obs, act, next_obs].set(\n        np.mean(counter.reward_history[obs][act][next_obs])\n    )", "    seen = counter.reward_history[obs][act][next_obs]\n    entry = (obs, act, next_obs)\n    model.reward = model.reward.at[entry].set(sum(seen) / len(seen))")]},
    {"id": "c14-b-dyna-counter-aliases", "file": _Y, "edits": [("    counter.transition_counter[obs][act][next_obs] += 1", "    row = counter.transition_counter[obs][act]\n    row[next_obs] = row[next_obs] + 1"),
                                                               ("    counter.reward_history[obs][act][next_obs].append(reward)", "    history = counter.reward_history[obs][act][next_obs]\n    history.append(float(reward))")]},
    {"id": "c14-b-dyna-planning-index-loop", "file": _Y, "find": "    for obs, act in zip(observations, actions, strict=False):", "replace": "    for k in range(n_planning_steps):\n        obs, act = observations[k], actions[k]"},
    {"id": "c14-b-mc-count-from-end", "file": _M, "find": "        idx = ep_len - 1 - i", "replace": "        idx = -(i + 1)"},
    {"id": "c14-b-dql-roles-by-conditional", "file": _D, "find": "        val = jax.random.uniform(subkey3)\n        if val < 0.5:\n            q_table1 = _dql_update(\n                subkey2,\n                q_table1,\n                q_table2,\n" + _DQL_REST + "        else:\n            q_table2 = _dql_update(\n                subkey2,\n                q_table2,\n                q_table1,\n" + _DQL_REST,
     "replace": "        update_first = jax.random.uniform(subkey3) < 0.5\n        learner, evaluator = (q_table1, q_table2) if update_first else (q_table2, q_table1)\n        learner = _dql_update(subkey2, learner, evaluator, observation, action, reward, next_observation, gamma, learning_rate, terminated)\n"
                "        if update_first:\n            q_table1 = learner\n        else:\n            q_table2 = learner\n"},
    {"id": "c14-b-q-action-alias", "file": _Q, "find": "        next_observation, reward, terminated, truncated, info = env.step(\n            int(action)\n        )", "replace": "        chosen = int(action)\n        next_observation, reward, terminated, truncated, info = env.step(chosen)"},
    {"id": "c14-b-q-mask-by-branch", "file": _Q, "find": _Q_CALL, "replace": _Q_BRANCH},
    {"id": "c14-b-mc-scan-reverse", "file": _M, "edits": [(_MC_BODY, _MC_SCAN_BODY), (_MC_RET, _MC_SCAN_RET), (_MC_CALL, _mc_scan_call(", reverse=True"))]},
    {"id": "c14-b-mc-scan-keywords", "file": _M, "edits": [(_MC_BODY, _MC_SCAN_BODY.replace("obs, act, rew = step", "rew, act, obs = step")), (_MC_RET, _MC_SCAN_RET),
                                                          (_MC_CALL, "    (q_table, n_visits, _), _ = jax.lax.scan(\n        reverse=True, xs=(rewards, actions, observations), init=(q_table, n_visits, 0.0), f=_update_body\n    )\n")]},
    {"id": "c14-b-mc-scan-positions", "file": _M, "edits": [(_MC_BODY, "    def _update_body(state, idx):\n        q_table, n_visits, ep_return = state\n\n        obs = observations[idx]\n        act = actions[idx]\n        rew = rewards[idx]\n"),
                                                           (_MC_RET, _MC_SCAN_RET), (_MC_CALL, _mc_scan_call(", reverse=True", init="(q_table, n_visits, 0.0)", xs="jnp.arange(ep_len)"))]},
    {"id": "c14-b-mc-discount-power-one", "file": _M, "find": "        ep_return = rew + gamma * ep_return\n", "replace": "        ep_return = rew + jnp.power(gamma, 1) * ep_return\n"},
    {"id": "c14-b-mc-unused-horizon", "file": _M, "find": "    ep_len = rewards.shape[0]\n", "replace": "    ep_len = rewards.shape[0]\n    horizon = 1.0 / gamma  # not used by the update\n"},
    {"id": "c14-b-mc-scan-forward-over-reversed", "file": _M, "edits": [(_MC_BODY, _MC_SCAN_BODY), (_MC_RET, _MC_SCAN_RET), (_MC_CALL, _mc_scan_call(", length=ep_len", init="(q_table, n_visits, 0.0)", xs="(jnp.flip(observations), actions[::-1], jnp.flip(rewards, axis=0))"))]},
    {"id": "c14-b-mc-scan-record-carry", "file": _M, "edits": [("@jax.jit\ndef update(", "class _Sweep(NamedTuple):\n    q_table: jnp.ndarray\n    n_visits: jnp.ndarray\n    ep_return: float\n\n\n@jax.jit\ndef update("),
                                                              ("from collections import namedtuple\n", "from collections import namedtuple\nfrom typing import NamedTuple\n"),
                                                              (_MC_BODY, "    def _update_body(state, step):\n        q_table, n_visits, ep_return = state.q_table, state.n_visits, state.ep_return\n        obs, act, rew = step\n"),
                                                              (_MC_RET, "        return _Sweep(q_table, n_visits, ep_return), ep_return\n"),
                                                              (_MC_CALL, "    final, _ = jax.lax.scan(\n        _update_body, _Sweep(q_table, n_visits, 0.0), (observations, actions, rewards), reverse=True\n    )\n    q_table, n_visits = final.q_table, final.n_visits\n")]},
    {"id": "c14-b-mc-result-by-position", "file": _M, "edits": [("    q_table, n_visits, _ = jax.lax.fori_loop(", "    swept = jax.lax.fori_loop("), ("    return namedtuple(\"MCResult\", [\"q_table\", \"n_visits\"])(q_table, n_visits)", "    new_table, new_counts = swept[0], swept[1]\n    return new_table, new_counts")]},
]
