"""C17 - PETS model: ensemble consistency, bootstraps and plan evaluation (structural part)."""
from __future__ import annotations

import ast
import os

from ..cfg import CFG
from ..loops import dotted
from ..nf import NF, Scope, Poly, parse_expr
from ..repo import Repo, loc, short, AnalysisError, positional_params, param_names, ModuleInfo, bind_call
from ..shapes import ShapeEngine, Fn, doc_shapes
from ..sem import same_ingredients

EXPLANATION = (
    "Symbolic shapes are pushed through the vmapped log-variance bounding wrappers of GaussianMLPEnsemble (function values built in "
    "__init__ are interpreted: vmap strips / re-adds the mapped axis): every public prediction method must return mean and (log-)variance of "
    "identical shape (one variance per output), and the distribution built by base_distribution must get loc and scale of identical shape; "
    "call sites are checked against the documented rank (ts_inf). Formula identities: aggregate == (mean_0 mu, mean_0 exp(lv) + var_0 mu); "
    "soft bounding == max - softplus(max - lv) then min + softplus(. - min); gaussian_nll and the ensemble loss; evaluate_plans == particle "
    "mean of the horizon-summed model rewards of the broadcast actions and trajectories[:, :, :-1]. Bootstraps: indices drawn with "
    "replacement as an (n_ensemble, n) matrix, per epoch a permutation along axis 1 (each index once), truncated to a multiple of "
    "batch_size by a guarded negative slice, reshaped (n_ensemble, batch_size, -1) and transposed (2, 0, 1) so the member axis is never "
    "merged. The Pendulum reward is compared, as a normal form, with the cost expression parsed from the installed gymnasium source."
)
TRUSTED = ["jax.vmap / nnx.vmap in_axes semantics, nnx.split / merge of the stacked ensemble state", "jax.random.permutation(axis=1) permutes every row; choice(replace=True) draws with replacement", "installed gymnasium Pendulum source is the environment's reward"]
RULES = {
    "R1-one-variance-per-output": "__call__ / aggregate / base_predict return mean and (log-)variance of identical shape (.., n_outputs); base_distribution builds loc and scale_diag of identical shape; call sites respect the documented rank",
    "R2-aggregate": "aggregate == (mean(means, 0), mean(exp(log_vars), 0) + var(means, 0)) with log_vars soft-bounded",
    "R3-nll": "bounding == min + softplus(max - softplus(max - lv) - min); gaussian_nll == mean(0.5*(mu - y)^2 * exp(-lv)) + 0.5*mean(lv); ensemble loss == sum(nll) + 0.01*(sum(max_lv) - sum(min_lv))",
    "R4-bootstraps": "bootstrap == choice(key, n, (n_ensemble, int(train_size*n)), replace=True); per epoch permutation(axis=1), guarded truncation to a multiple of batch_size, reshape(n_ensemble, batch_size, -1).transpose(2,0,1); train_epoch indexes X[batch], Y[batch] per scan step",
    "R5-plan-evaluation": "expected_returns == mean over particles of sum over the horizon of reward_model(actions broadcast over particles, trajectories[:, :, :-1])",
    "R6-pendulum": "pendulum_reward == -(norm_angle(theta)^2 + 0.1*theta_dot^2 + 0.001*u^2) with u clipped to the environment's max torque; forms parsed from gymnasium's pendulum.py",
}

PE = "rl_blox.blox.probabilistic_ensemble."
ENS = PE + "GaussianMLPEnsemble"


def _env(fn):
    return {p: Poly.atom(p, {p}, {p}) for p in param_names(fn)}


def _m(repo, cq, name):
    m = repo.method(cq, name, inherited=False)
    if m is None:
        raise AnalysisError(f"{cq}.{name} not found (anchor vanished)")
    fn = m[1]
    fn._module = repo.cls(cq)._module
    return fn


def _class_self(repo, se):
    """Interpret GaussianMLPEnsemble.__init__ to obtain the function values stored on self."""
    init = _m(repo, ENS, "__init__")
    attrs = {}
    env = {"n_ensemble": ("dim", "E"), "n_outputs": ("dim", "O"), "n_features": ("dim", "F")}
    se.module_tuple_out.update({"model": ["O", "O"]})
    se.analyse(init, init._module, ENS + ".__init__", env, {}, 0, attrs)
    # seeds for properties / parameters (documented: one bound per output)
    attrs.update({"min_log_var": ("O",), "max_log_var": ("O",), "ensemble": ("E",), "n_outputs": ("dim", "O"), "n_ensemble": ("dim", "E")})
    return attrs


def r0_live_bounds(ck, repo):
    """The soft bounds are functions of trainable parameters: every forward path must read them when it runs.  A value of such a
    property that is evaluated in __init__ and stored (attribute, partial argument, default) is the bound at construction time."""
    cls = repo.cls(ENS)
    mi = cls._module
    props = {}
    for m in cls.body:
        if isinstance(m, ast.FunctionDef) and any(dotted(d) == "property" for d in m.decorator_list):
            reads = {x.attr for x in ast.walk(m) if isinstance(x, ast.Attribute) and isinstance(x.value, ast.Name) and x.value.id == "self"}
            props[m.name] = reads
    init = _m(repo, ENS, "__init__")
    # parameters created in __init__ (nnx.Param): properties that read them are trainable quantities
    trainable = set()
    for st in ast.walk(init):
        if isinstance(st, ast.Assign) and len(st.targets) == 1 and isinstance(st.targets[0], ast.Attribute) and dotted(st.targets[0].value) == "self" and isinstance(st.value, ast.Call) \
                and (repo.resolve_expr(mi, st.value.func) or "").endswith("nnx.Param"):
            trainable.add(st.targets[0].attr)
    live = {p for p, reads in props.items() if reads & trainable}
    ck.need(live, f"{ENS}: no property over trainable parameters found (anchor vanished)")

    def eager_loads(node):
        """Attribute loads self.<live property> that are evaluated when ``node`` is (not inside a lambda / nested def body)."""
        out = []
        stack = [node]
        while stack:
            x = stack.pop()
            if isinstance(x, (ast.Lambda, ast.FunctionDef)) and x is not node:
                continue
            if isinstance(x, ast.Attribute) and isinstance(x.value, ast.Name) and x.value.id == "self" and x.attr in live and isinstance(x.ctx, ast.Load):
                out.append(x)
            stack.extend(ast.iter_child_nodes(x))
        return out
    frozen = []
    for st in init.body:
        for sub in ast.walk(st):
            if isinstance(sub, ast.Assign) and any(isinstance(t, ast.Attribute) and dotted(t.value) == "self" for t in sub.targets):
                frozen += [(sub, x) for x in eager_loads(sub.value)]
    ck.ob("R3-nll", ENS + ".__init__", "bounds-read-at-call-time", not frozen, f"properties over trainable parameters: {sorted(live)}",
          "" if not frozen else f"`{short(frozen[0][0], 80)}` stores the value of `self.{frozen[0][1].attr}` at construction: the forward paths keep using the initial bounds after the bound parameters are trained / restored", loc(mi, frozen[0][0]) if frozen else loc(mi, init))


def r1_shapes(ck, repo):
    se = ShapeEngine(repo, max_depth=5)
    se.merge_out = ["O", "O"]
    attrs = _class_self(repo, se)
    need = [k for k in ("_safe_log_var", "_safe_log_var_i", "_forward_ensemble", "_forward_individual") if not (isinstance(attrs.get(k), tuple) and attrs[k] and attrs[k][0] == "fn")]
    ck.need(not need, f"{ENS}.__init__: function-valued attributes {need} not recognised (unrecognised idiom)")
    se.class_self[ENS] = attrs
    cases = [("__call__", {"x": ("N", "F")}, "ensemble"), ("__call__", {"x": ("E", "N", "F")}, "per-member"), ("aggregate", {"x": ("N", "F")}, "agg"), ("base_predict", {"x": ("N", "F"), "i": ()}, "member")]
    for meth, argsh, tag in cases:
        fn = _m(repo, ENS, meth)
        se.alarms = []
        r = se.analyse(fn, fn._module, f"{ENS}.{meth}", dict(argsh), {}, 0, dict(attrs))
        site = f"{ENS}.{meth}"
        ok = isinstance(r, tuple) and r and r[0] == "tuple" and len(r[1]) == 2 and r[1][0] is not None and r[1][0] == r[1][1] and r[1][0][-1] == "O"
        want_lead = {"ensemble": ("E", "N"), "per-member": ("E", "N"), "agg": ("N",), "member": ("N",)}[tag]
        ok = ok and tuple(r[1][0][:-1]) == want_lead
        got = r[1] if isinstance(r, tuple) and r and r[0] == "tuple" else r
        known = isinstance(r, tuple) and r and r[0] == "tuple" and len(r[1]) == 2 and any(isinstance(x, tuple) and None not in x for x in r[1])
        if not ok and not known and not se.alarms:
            # the abstract shapes could not be followed through this formulation: undecided, not a violation
            raise AnalysisError(f"{site}: symbolic shapes of (mean, variance) could not be determined for x {tuple(argsh['x'])} (got {got}): restructured beyond what the shape engine follows")
        ck.ob("R1-one-variance-per-output", site, f"mean-var-shapes:{tag}", bool(ok), f"x {tuple(argsh['x'])} -> mean {got[0] if isinstance(got, list) else got}, variance {got[1] if isinstance(got, list) and len(got) > 1 else None}",
              "" if ok else f"mean and variance must both have shape {want_lead + ('O',)}: one variance per output dimension (a second output axis means every scalar was broadcast against the per-output bounds)", loc(fn._module, fn))
        for rel, line, kind, text, qual in se.alarms:
            ck.ob("R1-one-variance-per-output", site, f"shape:{kind}", False, kind, text, f"{rel}:{line}")
    fn = _m(repo, ENS, "base_distribution")
    se.alarms = []
    r = se.analyse(fn, fn._module, ENS + ".base_distribution", {"x": ("N", "F"), "i": ()}, {}, 0, dict(attrs))
    ok = isinstance(r, tuple) and r and r[0] == "tuple" and r[1][0] == r[1][1] == ("N", "O")
    known = isinstance(r, tuple) and r and r[0] == "tuple" and len(r[1]) == 2 and any(isinstance(x, tuple) and None not in x for x in r[1])
    if not ok and not known and not se.alarms:
        raise AnalysisError(f"{ENS}.base_distribution: symbolic shapes of (loc, scale) could not be determined (got {r})")
    ck.ob("R1-one-variance-per-output", ENS + ".base_distribution", "loc-scale-shapes", bool(ok), f"x (N,F) -> loc {r[1][0] if ok or (isinstance(r, tuple) and r and r[0] == 'tuple') else r}, scale {r[1][1] if isinstance(r, tuple) and r and r[0] == 'tuple' else None}",
          "" if ok else "loc and scale_diag must both be (N, O)", loc(fn._module, fn))
    # vmap depth of the wrappers
    d1, d2 = attrs["_safe_log_var_i"][1], attrs["_safe_log_var"][1]
    depth = lambda f: 0 if f.kind != "vmap" else 1 + depth(f.args[0])
    ok = depth(d1) == 1 and depth(d2) == 2 and d1.args[1] == (0, None, None) and d2.args[1] == (0, None, None)
    ck.ob("R1-one-variance-per-output", ENS + ".__init__", "wrapper-depths", ok, f"_safe_log_var_i: vmap depth {depth(d1)}, _safe_log_var: depth {depth(d2)}; in_axes {d1.args[1]} / {d2.args[1]}",
          "" if ok else "the single wrapper maps one leading axis, the double wrapper two; bounds are never mapped", loc(repo.cls(ENS)._module, _m(repo, ENS, "__init__")))
    # ts_inf call site
    q = "rl_blox.algorithm.pets.ts_inf"
    fn = repo.func(q)
    se2 = ShapeEngine(repo, max_depth=5)
    se2.merge_out = ["O", "O"]
    se2.class_self[ENS] = attrs
    se2.analyse(fn, fn._module, q, {"key": (), "model_idx": (), "acts": ("H", "A"), "obs": ("O",)}, {}, 0, {})
    shared = [a for a in se2.alarms if a[2] == "shared-draw"]
    ck.ob("R1-one-variance-per-output", q, "independent-noise-per-dimension", not shared, "random draws in the particle propagation", "" if not shared else "; ".join(a[3] for a in shared)[:300] + " (the member distribution is a diagonal Gaussian with independent dimensions)", loc(fn._module, fn))
    bad = [a for a in se2.alarms if a[2] != "shared-draw"]
    ck.ob("R1-one-variance-per-output", q, "member-query-rank", not bad, f"base_distribution(hstack((obs (O,), act (A,)))...) ; alarms {[a[2] for a in bad]}",
          "" if not bad else "; ".join(a[3] for a in bad)[:300], loc(fn._module, fn))
    # the two vmaps of ts_inf
    decs = [ast.unparse(d) for d in fn.decorator_list]
    ok = any("in_axes=(0, None, 0, None, None)" in d for d in decs) and any("in_axes=(0, 0, None, None, None)" in d for d in decs)
    ck.ob("R1-one-variance-per-output", q, "vmap-axes", ok, f"{[d[:60] for d in decs]}", "" if ok else "outer vmap over samples (keys, actions), inner over particles (keys, model indices)", loc(fn._module, fn))


def r2_r3_formulas(ck, repo, nf):
    fn = _m(repo, ENS, "aggregate")
    mi = fn._module
    cfg = nf.cfg_of(fn)
    sc = Scope(cfg, mi, {"x": Poly.atom("x", {"x"}, {"x"})}, ENS + ".aggregate", self_class=ENS)
    rets = [n for n in cfg.nodes if n.kind == "stmt" and isinstance(n.ast, ast.Return)]
    got = nf.poly(rets[0].ast.value, sc, rets[0].id)
    F = "self._forward_ensemble(self.ensemble, x)"
    ssc = Scope(None, mi, sc.env, "spec", self_class=ENS)
    w0 = nf.poly(parse_expr(f"jnp.mean({F}[0], axis=0)"), ssc, None)
    wv = nf.poly(parse_expr(f"jnp.var({F}[0], axis=0)"), ssc, None)
    raw_lv = nf.poly(parse_expr(f"{F}[1]"), ssc, None)
    ck.need(got.elems is not None and len(got.elems) == 2, f"{ENS}.aggregate: must return (mean, variance)")
    ok0 = got.elems[0] == w0
    # variance = mean over members of exp(bounded log-variance) + variance over members of the means; the bounding function is
    # whatever the class applies to the raw log-variance (its form is R3), here only its position in the formula matters
    rest = got.elems[1] - wv
    ok1, why1 = False, ""
    m_mean = nf.meta.get(rest.single_atom() or "", {})
    if m_mean.get("fn", "").split(".")[-1] == "mean" and m_mean.get("args") and m_mean.get("kws", {}).get("axis") is not None and m_mean["kws"]["axis"].canon() == "0":
        m_exp = nf.meta.get(m_mean["args"][0].single_atom() or "", {})
        if m_exp.get("fn", "").split(".")[-1] == "exp" and m_exp.get("args"):
            X = m_exp["args"][0]
            mx = nf.meta.get(X.single_atom() or "", {})
            if X == raw_lv:
                why1 = "the raw (unbounded) log-variance is exponentiated"
            elif mx and any(a_ == raw_lv for a_ in mx.get("args", [])):
                ok1 = True
            else:
                raise AnalysisError(f"{ENS}.aggregate: exponent `{X.canon()[:80]}` is not a bounded form of the members' log-variance (unrecognised form)")
        else:
            why1 = "the member variances are not exp(log-variance)"
    elif not same_ingredients(got.elems[1], wv + raw_lv, ("exp", "mean", "min_log_var", "max_log_var", "_safe_log_var", "_safe_log_var_i")):
        raise AnalysisError(f"{ENS}.aggregate: variance `{got.elems[1].canon()[:120]}` (unrecognised form)")
    else:
        why1 = "the variance is not mean_0(exp(lv)) + var_0(mu)"
    ok = ok0 and ok1
    ck.ob("R2-aggregate", ENS + ".aggregate", "law-of-total-variance", ok, f"({got.canon()[:170]}", "" if ok else f"must return (mean_0(mu), mean_0(exp(lv)) + var_0(mu)) over the member axis 0{': ' + why1 if why1 else ''}", loc(mi, fn))
    # soft bounding: nested def in __init__
    init = _m(repo, ENS, "__init__")
    sl = next((n for n in ast.walk(init) if isinstance(n, ast.FunctionDef) and n.name == "safe_log_var"), None)
    ck.need(sl is not None, f"{ENS}.__init__: safe_log_var not found")
    sl._module = mi
    c2 = nf.cfg_of(sl)
    e2 = {p: Poly.atom(p, {p}, {p}) for p in positional_params(sl)}
    s2 = Scope(c2, mi, e2, "safe_log_var")
    r2 = [n for n in c2.nodes if n.kind == "stmt" and isinstance(n.ast, ast.Return)]
    g2 = nf.poly(r2[0].ast.value, s2, r2[0].id)
    w2 = nf.poly(parse_expr("min_log_var + nnx.softplus(max_log_var - nnx.softplus(max_log_var - log_var) - min_log_var)"), Scope(None, mi, e2, "spec"), None)
    ck.ob("R3-nll", ENS + ".__init__.<locals>.safe_log_var", "soft-bounds", g2 == w2, f"{g2.canon()[:150]}", "" if g2 == w2 else f"must be min + softplus(max - softplus(max - lv) - min): `{w2.canon()}`", loc(mi, sl))
    for attr, lo, hi in (("min_log_var", "-20.0", "0.0"), ("max_log_var", "-4.0", "5.0")):
        p = _m(repo, ENS, attr)
        rr = [n for n in ast.walk(p) if isinstance(n, ast.Return)]
        ok = ast.unparse(rr[0].value) == f"constrained_param(self.raw_{attr}.value, {lo}, {hi})"
        ck.ob("R3-nll", f"{ENS}.{attr}", "constrained", ok, f"return {ast.unparse(rr[0].value)}", "" if ok else f"bound must be constrained_param(raw, {lo}, {hi}) (finite by construction)", loc(mi, p))
    q = PE + "constrained_param"
    f = repo.func(q)
    g = nf.return_poly(q, _env(f))
    w = nf.poly(parse_expr("min_val + (max_val - min_val) * jax.nn.sigmoid(x)"), Scope(None, f._module, _env(f), q), None)
    ck.ob("R3-nll", q, "sigmoid-interval", g == w, g.canon(), "" if g == w else "must be min + (max - min) * sigmoid(x)", loc(f._module, f))
    q = PE + "gaussian_nll"
    f = repo.func(q)
    g = nf.return_poly(q, _env(f))
    w = nf.poly(parse_expr("jnp.mean(0.5 * (mean_pred - Y) ** 2 * jnp.exp(-log_var_pred)) + 0.5 * jnp.mean(log_var_pred)"), Scope(None, f._module, _env(f), q), None)
    ck.ob("R3-nll", q, "closed-form", g == w, g.canon()[:150], "" if g == w else f"must be mean(0.5 (mu-y)^2 exp(-lv)) + 0.5 mean(lv): difference `{(g - w).canon()[:120]}`", loc(f._module, f))
    q = PE + "gaussian_ensemble_loss"
    f = repo.func(q)
    nf2 = NF(repo, inline_depth=1, no_inline={PE + "gaussian_nll"})
    g = nf2.return_poly(q, _env(f))
    w = nf2.poly(parse_expr("gaussian_nll(model(X)[0], model(X)[1], Y).sum() + 0.01 * (model.max_log_var.sum() - model.min_log_var.sum())"), Scope(None, f._module, _env(f), q), None)
    ck.ob("R3-nll", q, "nll-plus-boundary-penalty", g == w, g.canon()[:150], "" if g == w else f"must be sum(nll(mean, log_var, Y)) + 0.01*(sum(max_lv) - sum(min_lv))", loc(f._module, f))


def r4_bootstraps(ck, repo, nf):
    q = PE + "bootstrap"
    f = repo.func(q)
    g = nf.return_poly(q, _env(f)).canon()
    w = nf.poly(parse_expr("jax.random.choice(key, n_samples, shape=(n_ensemble, int(train_size * n_samples)), replace=True)"), Scope(None, f._module, _env(f), q), None).canon()
    ck.ob("R4-bootstraps", q, "index-matrix", g == w, g, "" if g == w else f"must be {w}: one row of indices (with replacement) per member", loc(f._module, f))
    q = PE + "train_ensemble"
    f = repo.func(q)
    mi = f._module
    cfg = nf.cfg_of(f)
    loops = [n for n in cfg.nodes if n.kind == "for"]
    ck.need(len(loops) == 1, f"{q}: epoch loop not found")
    lp = loops[0]
    sc = Scope(cfg, mi, _env(f), q)
    call = next((c for n in cfg.nodes if n.ast is not None and n.kind == "stmt" for c in ast.walk(n.ast) if isinstance(c, ast.Call) and dotted(c.func) == "train_epoch"), None)
    ck.need(call is not None, f"{q}: train_epoch call not found")
    at = cfg.node_of(call).id
    tef = repo.func(PE + "train_epoch")
    tb = bind_call(tef, call)
    tp = positional_params(tef)
    got_args = {k: (nf.poly(v, sc, at).canon() if v is not None and not isinstance(v, list) else None) for k, v in tb.items()}
    ok_args = len(tp) >= 5 and [got_args.get(tp[i]) for i in range(4)] == ["model", "optimizer", "X", "Y"] and isinstance(tb.get(tp[4]), ast.Name)
    if not ok_args and not isinstance(tb.get(tp[4]) if len(tp) > 4 else None, ast.Name):
        raise AnalysisError(f"{q}: the index argument of train_epoch is not a variable (unrecognised idiom)")
    ck.ob("R4-bootstraps", q, "train-epoch-arguments", ok_args, f"train_epoch({got_args})", "" if ok_args else "members must be trained on (X, Y) through the batched bootstrap indices", loc(mi, call))
    bname = tb[tp[4]].id
    # batched indices: reshape / transpose of the (possibly truncated) permutation
    bi = cfg.defs_of(at, bname)
    ck.need(len(bi) == 1 and bi[0].value is not None, f"{q}: `{bname}` has {len(bi)} definitions")
    btxt = ast.unparse(bi[0].value)
    bsc = Scope(cfg, mi, _env(f), q)
    bsc.opaque_names = {"shuffled_indices"}
    # structural reading of  <perm>.reshape(d0, d1, d2).transpose(p):  the member axis stays the leading reshape axis (never merged with
    # another axis), is moved to position 1, the scanned axis 0 is the batch number and the last axis has batch_size entries
    bv = bi[0].value
    okm, whym = None, ""
    tr, rs = None, None
    if isinstance(bv, ast.Call) and isinstance(bv.func, ast.Attribute) and bv.func.attr in ("transpose",) and isinstance(bv.func.value, ast.Call) and isinstance(bv.func.value.func, ast.Attribute) and bv.func.value.func.attr == "reshape":
        tr, rs = bv, bv.func.value
    elif isinstance(bv, ast.Call) and dotted(bv.func) in ("jnp.transpose", "jnp.permute_dims") and bv.args and isinstance(bv.args[0], ast.Call) and isinstance(bv.args[0].func, ast.Attribute) and bv.args[0].func.attr == "reshape":
        tr, rs = bv, bv.args[0]
    if tr is not None:
        dims = [nf.poly(a, bsc, bi[0].node).canon() for a in (rs.args if not (len(rs.args) == 1 and isinstance(rs.args[0], (ast.Tuple, ast.List))) else rs.args[0].elts)]
        pargs = tr.args[1:] if dotted(tr.func) in ("jnp.transpose", "jnp.permute_dims") else tr.args
        if len(pargs) == 1 and isinstance(pargs[0], (ast.Tuple, ast.List)):
            pargs = pargs[0].elts
        try:
            perm = [ast.literal_eval(a) for a in pargs]
        except Exception:
            perm = None
        if perm is not None and len(dims) == 3 and len(perm) == 3:
            lead_ok = dims[0] in ("model.n_ensemble", "n_ensemble")
            okm = lead_ok and perm[1] == 0 and dims[perm[2]] == "batch_size" and dims[perm[0]] == "-1"
            if not lead_ok:
                whym = f"the leading reshape axis is `{dims[0]}`, not the member axis: bootstrap rows of different members are merged, members see each other's samples"
            elif not okm:
                whym = f"after reshape{tuple(dims)} and transpose{tuple(perm)} the layout is not (batch number, member, batch_size)"
    if okm is None and isinstance(bv, ast.Call) and isinstance(bv.func, ast.Attribute) and bv.func.attr == "reshape":
        dims = [nf.poly(a, bsc, bi[0].node).canon() for a in (bv.args if not (len(bv.args) == 1 and isinstance(bv.args[0], (ast.Tuple, ast.List))) else bv.args[0].elts)]
        if dims and dims[0] not in ("model.n_ensemble", "n_ensemble"):
            okm, whym = False, f"reshape{tuple(dims)} of the (member, sample) index matrix does not keep the member axis leading: rows of different members are merged into one batch axis, members see each other's bootstrap samples"
    if okm is None and any(isinstance(x, ast.Call) and (dotted(x.func) or "").endswith("resize") for x in ast.walk(bv)):
        # resize works on the *flattened* array: dropping the incomplete batch this way cuts every member row at the wrong offset
        okm, whym = False, "jnp.resize truncates the flattened (member, sample) matrix: unless the row length is a multiple of batch_size, the rows of members 1.. start inside the previous member's bootstrap sample"
    if okm is None:
        raise AnalysisError(f"{q}: batching of the bootstrap indices `{btxt[:80]}` is not a reshape + transpose this check can read")
    ck.ob("R4-bootstraps", q, "member-axis-preserved", okm, f"{bname} = {btxt}", whym, loc(mi, bi[0].value))
    sdefs = list(cfg.defs_of(bi[0].node, "shuffled_indices"))
    for d in list(sdefs):  # an unconditional truncation hides the permutation it was applied to
        if not (isinstance(d.value, ast.Call) and dotted(d.value.func).endswith("random.permutation")):
            for d2 in cfg.defs_of(d.node, "shuffled_indices"):
                if d2 not in sdefs:
                    sdefs.append(d2)
    perm = [d for d in sdefs if isinstance(d.value, ast.Call) and dotted(d.value.func).endswith("random.permutation")]
    trunc = [d for d in sdefs if d not in perm]
    if not perm and not sdefs:
        raise AnalysisError(f"{q}: the per-epoch index pipeline (`shuffled_indices`) is not found (unrecognised form)")
    if not perm and not any(isinstance(x, ast.Call) and ("permutation" in dotted(x.func) or "choice" in dotted(x.func) or "shuffle" in dotted(x.func)) for d_ in sdefs if d_.value is not None for x in ast.walk(d_.value)):
        raise AnalysisError(f"{q}: no per-epoch shuffle is visible in `{[short(d_.value, 40) for d_ in sdefs if d_.value is not None][:2]}` (unrecognised form)")
    ok = len(perm) == 1 and [dotted(a) for a in perm[0].value.args][1:] == ["bootstrap_indices"] and any(k.arg == "axis" and ast.unparse(k.value) == "1" for k in perm[0].value.keywords)
    ck.ob("R4-bootstraps", q, "permutation-per-epoch", ok, f"{short(perm[0].value) if perm else None}", "" if ok else "each epoch must visit a permutation of every member's own bootstrap row (permutation(..., bootstrap_indices, axis=1)): each index at most once per epoch", loc(mi, f))
    key_arg = dotted(perm[0].value.args[0]) if perm else ""
    ck.note(f"train_ensemble shuffles with `{key_arg}` (the carried key; `shuffle_key` is unused): deterministic, not a C17 obligation")
    # truncation to a multiple of batch_size
    ok_t, why = False, "the truncation to complete batches was not found"
    if len(trunc) == 1:
        d = trunc[0]
        v = d.value
        if isinstance(v, ast.Subscript) and dotted(v.value) == "shuffled_indices" and isinstance(v.slice, ast.Tuple) and len(v.slice.elts) == 2 and isinstance(v.slice.elts[1], ast.Slice):
            up = v.slice.elts[1].upper
            usc = Scope(None, mi, {}, q)
            isc = Scope(cfg, mi, {}, q)
            isc.opaque_names = {"bootstrap_indices", "batch_size", "shuffled_indices"}
            upc = nf.poly(up, isc, d.node).canon() if up is not None else ""
            from ..sem import guard_literals
            neg = upc == "-mod(bootstrap_indices.shape[1], batch_size)"
            r_c = "mod(bootstrap_indices.shape[1], batch_size)"
            gsc_lits = []
            for b_, lab_ in cfg.control_deps(d.node):
                if cfg.nodes[b_].kind == "test" and isinstance(cfg.nodes[b_].ast, ast.If):
                    c_ = nf.poly(cfg.nodes[b_].ast.test, isc, b_).canon()
                    gsc_lits.append(c_ if lab_ else f"not({c_})")
            guarded = any(l in (r_c, upc, f"NotEq(0, {r_c})", f"NotEq(0, {upc})", f"Lt(0, {r_c})", f"LtE(1, {r_c})", f"Lt({upc}, 0)") for l in gsc_lits)
            pos_forms = [nf.poly(parse_expr(t), usc, None).canon() for t in ("bootstrap_indices.shape[1] - bootstrap_indices.shape[1] % batch_size", "(bootstrap_indices.shape[1] // batch_size) * batch_size")]
            pos_ok = upc in pos_forms
            ok_t = (neg and guarded) or pos_ok
            if neg and not guarded:
                why = "`[:, :-r]` with r = n % batch_size is applied unconditionally: for r == 0 the slice is empty, the epoch has no batch and the members are not trained at all"
            elif not ok_t:
                why = f"columns kept up to `{upc}`: not the largest multiple of batch_size"
    elif len(trunc) == 0:
        why = "no truncation: reshape(n_ensemble, batch_size, -1) fails or mixes rows when the bootstrap size is not a multiple of batch_size"
    ck.ob("R4-bootstraps", q, "truncate-to-complete-batches", ok_t, f"{[short(d.value, 60) for d in trunc]}", "" if ok_t else why, loc(mi, f))
    bd = [d for d in cfg.defs_of(lp.id, "bootstrap_indices") if d.kind == "assign"]
    okb = False
    if len(bd) == 1 and isinstance(bd[0].value, ast.Call) and repo.resolve_expr(mi, bd[0].value.func) == PE + "bootstrap":
        bb = bind_call(repo.func(PE + "bootstrap"), bd[0].value)
        bp = positional_params(repo.func(PE + "bootstrap"))
        gotb = [nf.poly(bb[p_], sc, bd[0].node).canon() if p_ in bb and not isinstance(bb[p_], list) else None for p_ in bp[:3]]
        wantb = [nf.poly(parse_expr(t_), sc, bd[0].node).canon() for t_ in ("model.n_ensemble", "train_size", "len(X)")]
        okb = gotb == wantb
    ok = okb and lp.id not in cfg.enclosing_loops(bd[0].node)
    ck.ob("R4-bootstraps", q, "bootstrap-once", ok, f"bootstrap_indices = {ast.unparse(bd[0].value) if bd else None}", "" if ok else "the bootstrap sample of each member is drawn once, before the epochs", loc(mi, f))
    # train_epoch scan body
    q = PE + "train_epoch"
    f = repo.func(q)
    body = next((n for n in ast.walk(f) if isinstance(n, ast.FunctionDef) and n is not f), None)
    ck.need(body is not None, f"{q}: scan body not found")
    from .c05 import grad_sites
    body._module = f._module
    bcfg = nf.cfg_of(body)
    bparams = positional_params(body)
    sites = grad_sites(repo, body, f._module)
    if len(sites) != 1 or len(bparams) < 4:
        raise AnalysisError(f"{q}: scan body has {len(sites)} gradient applications / {len(bparams)} parameters (unrecognised idiom)")
    st_ = sites[0]
    bsc2 = Scope(bcfg, f._module, {p_: Poly.atom(p_, {p_}, {p_}) for p_ in bparams}, q)
    try:
        bat = bcfg.node_of(st_["app"]).id
    except KeyError:
        raise AnalysisError(f"{q}: gradient application not found in the scan body's flow graph")
    a_ = [nf.poly(x, bsc2, bat).canon() for x in st_["app"].args]
    Xp, Yp, Bp = bparams[1], bparams[2], bparams[3]
    lossq = repo.resolve_expr(f._module, st_["loss"]) if isinstance(st_["loss"], (ast.Name, ast.Attribute)) else None
    ok = lossq == PE + "gaussian_ensemble_loss" and st_["argnums"] == [0] and len(a_) >= 3 and a_[1] == f"{Xp}[{Bp}]" and a_[2] == f"{Yp}[{Bp}]"
    ck.ob("R4-bootstraps", q, "member-batches", ok, "loss(model, X[batch], Y[batch]) with batch of shape (n_ensemble, batch_size)", "" if ok else "each scan step must evaluate member i on X[batch[i]], Y[batch[i]]", loc(f._module, body))
    decs = [ast.unparse(d) for d in body.decorator_list]
    ok = any("in_axes=(nnx.Carry, None, None, 0)" in d for d in decs)
    ck.ob("R4-bootstraps", q, "scan-over-batches", ok, f"{decs}", "" if ok else "the scan must run over the leading (batch-number) axis of the index array only", loc(f._module, body))


def r5_plans(ck, repo, nf):
    q = "rl_blox.algorithm.pets.evaluate_plans"
    f = repo.func(q)
    g = nf.return_poly(q, _env(f))
    spec = ("reward_model(jnp.broadcast_to(actions[:, jnp.newaxis], (actions.shape[:2][0], trajectories.shape[1], actions.shape[:2][1]) + actions.shape[2:]), "
            "trajectories[:, :, :-1]).sum(axis=-1).mean(axis=-1)")
    w = nf.poly(parse_expr(spec), Scope(None, f._module, _env(f), q), None)
    ck.ob("R5-plan-evaluation", q, "sum-horizon-mean-particles", g == w, g.canon()[:170], "" if g == w else f"must be mean_particles(sum_horizon(reward_model(broadcast actions, trajectories[:, :, :-1]))): `{w.canon()[:150]}`", loc(f._module, f))
    se = ShapeEngine(repo)
    se.module_out = {}
    r = se.analyse(f, f._module, q, {"actions": ("S", "H", "A"), "trajectories": ("S", "P", "H1", "O")}, {"reward_model": Fn("lambda", ast.parse("lambda a, o: a[..., 0]", mode="eval").body, f._module, {})}, 0, {})
    ok = r == ("S",)
    if r is None or (isinstance(r, tuple) and any(d is None for d in r)):
        raise AnalysisError(f"{q}: result shape {r} not inferred (unrecognised form)")
    ck.ob("R5-plan-evaluation", q, "one-return-per-plan", ok, f"actions (S,H,A), trajectories (S,P,H+1,O) -> {r}", "" if ok else "the result must have one expected return per candidate plan (S,)", loc(f._module, f))


def r6_pendulum(ck, repo, nf):
    q = "rl_blox.algorithm.pets_reward_models.pendulum_reward"
    f = repo.func(q)
    mi = f._module
    g = nf.return_poly(q, _env(f))
    want = nf.poly(parse_expr("-(norm_angle(jnp.arccos(jnp.clip(obs[..., 0], -1.0, 1.0))) ** 2 + 0.1 * obs[..., 2] ** 2 + 0.001 * jnp.clip(act, -PENDULUM_MAX_TORQUE, PENDULUM_MAX_TORQUE)[..., 0] ** 2)"), Scope(None, mi, _env(f), q), None)
    ck.ob("R6-pendulum", q, "cost-form", g == want, g.canon()[:170], "" if g == want else f"differs from -(angle^2 + 0.1 thdot^2 + 0.001 u^2) by `{(g - want).canon()[:140]}`", loc(mi, f))
    path = "/venv/lib/python3.12/site-packages/gymnasium/envs/classic_control/pendulum.py"
    if not os.path.exists(path):
        ck.note("gymnasium source not found: R6 oracle cross-check skipped")
        return
    tree = ast.parse(open(path).read())
    gmi = ModuleInfo("gymnasium.envs.classic_control.pendulum", path, path, "", tree)
    gmi.imports["np"] = "numpy"
    costs = next((n.value for n in ast.walk(tree) if isinstance(n, ast.Assign) and dotted(n.targets[0]) == "costs"), None)
    an = next((n for n in tree.body if isinstance(n, ast.FunctionDef) and n.name == "angle_normalize"), None)
    mt = next((n.value for n in ast.walk(tree) if isinstance(n, ast.Assign) and dotted(n.targets[0]) == "self.max_torque"), None)
    if costs is None or an is None or mt is None:
        ck.note("gymnasium Pendulum source changed shape: R6 oracle cross-check skipped")
        return
    nfg = NF(repo, inline_calls=False)
    gc = nfg.poly(costs, Scope(None, gmi, {"th": Poly.atom("TH"), "thdot": Poly.atom("THDOT"), "u": Poly.atom("U")}), None)
    ours = nfg.poly(parse_expr("norm_angle(TH) ** 2 + 0.1 * THDOT**2 + 0.001 * (U**2)"), Scope(None, mi, {"TH": Poly.atom("TH"), "THDOT": Poly.atom("THDOT"), "U": Poly.atom("U")}), None)
    # same coefficient structure up to the name of the angle normaliser
    gtxt = gc.canon().replace("angle_normalize(TH)", "ANG")
    otxt = ours.canon().replace("rl_blox.algorithm.pets_reward_models.norm_angle(TH)", "ANG")
    ok = gtxt == otxt
    ck.ob("R6-pendulum", q, "coefficients-match-gymnasium", ok, f"gymnasium costs = {gtxt}; ours = {otxt}", "" if ok else "the reward model's cost coefficients differ from the environment's", path.split("site-packages/")[1])
    na = repo.func("rl_blox.algorithm.pets_reward_models.norm_angle")
    from ..sem import same_ingredients
    gp_, op_ = positional_params(an), positional_params(na)
    if len(gp_) != 1 or len(op_) != 1:
        raise AnalysisError("norm_angle / angle_normalize: expected one parameter (anchor changed)")
    try:
        p1 = nfg.return_poly_of(an, gmi, {gp_[0]: Poly.atom("X")}) if hasattr(nfg, "return_poly_of") else nfg.poly(next(n for n in ast.walk(an) if isinstance(n, ast.Return)).value, Scope(nfg.cfg_of(an), gmi, {gp_[0]: Poly.atom("X")}), nfg.cfg_of(an).node_of(next(n for n in ast.walk(an) if isinstance(n, ast.Return))).id)
        rn_ = next(n for n in ast.walk(na) if isinstance(n, ast.Return))
        p2 = nfg.poly(rn_.value, Scope(nfg.cfg_of(na), mi, {op_[0]: Poly.atom("X")}), nfg.cfg_of(na).node_of(rn_).id)
    except StopIteration:
        raise AnalysisError("norm_angle / angle_normalize: no return statement (anchor changed)")
    a1n, a2n = p1.canon(), p2.canon()
    if a1n != a2n and not same_ingredients(p2, p1, ("jax", "numpy", "jnp", "np")):
        raise AnalysisError(f"rl_blox.algorithm.pets_reward_models.norm_angle: `{a2n[:80]}` (unrecognised form)")
    ck.ob("R6-pendulum", "rl_blox.algorithm.pets_reward_models.norm_angle", "matches-angle-normalize", a1n == a2n, f"gymnasium {a1n}; ours {a2n}", "" if a1n == a2n else "angle normalisation differs from the environment's", loc(mi, na))
    ours_mt = mi.defs.get("PENDULUM_MAX_TORQUE")
    v = ast.literal_eval(ours_mt.value) if isinstance(ours_mt, (ast.Assign, ast.AnnAssign)) else None
    ok = v is not None and float(v) == float(ast.literal_eval(mt))
    ck.ob("R6-pendulum", q, "max-torque", ok, f"gymnasium max_torque = {ast.unparse(mt)}; ours = {v}", "" if ok else "the torque clip differs from the environment's", loc(mi, f))


def run(ck, repo: Repo, tier: str):
    nf = NF(repo, inline_depth=2)
    ck.guard(r0_live_bounds, ck, repo)
    ck.guard(r1_shapes, ck, repo)
    ck.guard(r2_r3_formulas, ck, repo, nf)
    ck.guard(r4_bootstraps, ck, repo, nf)
    ck.guard(r5_plans, ck, repo, nf)
    ck.guard(r6_pendulum, ck, repo, nf)


_E, _P, _R = "rl_blox/blox/probabilistic_ensemble.py", "rl_blox/algorithm/pets.py", "rl_blox/algorithm/pets_reward_models.py"
MUTANTS = [
    {"id": "c17-bounds-frozen", "file": _E, "rule": "R3", "find": "        self._safe_log_var_i = nnx.vmap(safe_log_var, in_axes=(0, None, None))", "replace": "        self._upper_bound = self.max_log_var\n        self._safe_log_var_i = nnx.vmap(safe_log_var, in_axes=(0, None, None))"},
    {"id": "c17-tsinf-scalar-noise", "file": "rl_blox/algorithm/pets.py", "rule": "R1", "edits": [("        dist = dynamics_model.base_distribution(\n", "        mean, var = dynamics_model.base_predict(\n"), ("        delta_obs = dist.sample(seed=sampling_key)[0]", "        noise = jax.random.normal(sampling_key, dtype=mean.dtype)\n        delta_obs = mean[0] + jnp.sqrt(var[0]) * noise")]},
    {"id": "c17-resize-batches", "file": "rl_blox/blox/probabilistic_ensemble.py", "rule": "R4", "find": "        batched_indices = shuffled_indices.reshape(\n            model.n_ensemble, batch_size, -1\n        ).transpose([2, 0, 1])", "replace": "        batched_indices = jnp.resize(shuffled_indices, (model.n_ensemble, shuffled_indices.shape[1] // batch_size, batch_size)).transpose([1, 0, 2])"},
    {"id": "c17-base-predict-double-vmap", "file": _E, "rule": "R1", "nth": 0, "find": "        log_var_i = self._safe_log_var_i(\n            log_var_i, self.min_log_var, self.max_log_var\n        )\n        return mean_i, jnp.exp(log_var_i)", "replace": "        log_var_i = self._safe_log_var(\n            log_var_i, self.min_log_var, self.max_log_var\n        )\n        return mean_i, jnp.exp(log_var_i)"},
    {"id": "c17-tsinf-vector-query", "file": _P, "rule": "R1", "find": "            jnp.hstack((obs, act))[jnp.newaxis], model_idx", "replace": "            jnp.hstack((obs, act)), model_idx"},
    {"id": "c17-wrapper-maps-bounds", "file": _E, "rule": "R1", "find": "        self._safe_log_var_i = nnx.vmap(safe_log_var, in_axes=(0, None, None))", "replace": "        self._safe_log_var_i = nnx.vmap(safe_log_var, in_axes=(0, 0, 0))"},
    {"id": "c17-aggregate-no-epistemic", "file": _E, "rule": "R2", "find": "        return mean, aleatoric_var + epistemic_var", "replace": "        return mean, aleatoric_var"},
    {"id": "c17-aggregate-mean-logvar", "file": _E, "rule": "R2", "find": "        aleatoric_var = jnp.mean(jnp.exp(log_vars), axis=0)", "replace": "        aleatoric_var = jnp.exp(jnp.mean(log_vars, axis=0))"},
    {"id": "c17-aggregate-axis", "file": _E, "rule": "R2", "find": "        epistemic_var = jnp.var(means, axis=0)", "replace": "        epistemic_var = jnp.var(means, axis=1)"},
    {"id": "c17-bounds-swapped", "file": _E, "rule": "R3", "find": "            log_var = min_log_var + nnx.softplus(log_var - min_log_var)", "replace": "            log_var = min_log_var - nnx.softplus(log_var - min_log_var)"},
    {"id": "c17-nll-no-half", "file": _E, "rule": "R3", "find": "    return jnp.mean(squared_errors * inv_var) + 0.5 * jnp.mean(log_var_pred)", "replace": "    return jnp.mean(squared_errors * inv_var) + jnp.mean(log_var_pred)"},
    {"id": "c17-nll-inv-var-sign", "file": _E, "rule": "R3", "find": "    inv_var = jnp.exp(-log_var_pred)", "replace": "    inv_var = jnp.exp(log_var_pred)"},
    {"id": "c17-loss-penalty-sign", "file": _E, "rule": "R3", "find": "    boundary_loss = model.max_log_var.sum() - model.min_log_var.sum()", "replace": "    boundary_loss = model.min_log_var.sum() - model.max_log_var.sum()"},
    {"id": "c17-bootstrap-shared-row", "file": _E, "rule": "R4", "find": "        shape=(n_ensemble, n_bootstrapped),", "replace": "        shape=(1, n_bootstrapped),"},
    {"id": "c17-choice-for-permutation", "file": _E, "rule": "R4", "find": "        shuffled_indices = jax.random.permutation(\n            key, bootstrap_indices, axis=1\n        )", "replace": "        shuffled_indices = jax.random.choice(\n            key, bootstrap_indices, shape=bootstrap_indices.shape[1:], axis=1\n        )"},
    {"id": "c17-shuffle-axis0", "file": _E, "rule": "R4", "find": "            key, bootstrap_indices, axis=1\n", "replace": "            key, bootstrap_indices, axis=0\n"},
    {"id": "c17-unguarded-truncation", "file": _E, "rule": "R4", "find": "        remaining = -(bootstrap_indices.shape[1] % batch_size)\n        if remaining:\n            shuffled_indices = shuffled_indices[:, :remaining]", "replace": "        remaining = bootstrap_indices.shape[1] % batch_size\n        shuffled_indices = shuffled_indices[:, :-remaining]"},
    {"id": "c17-reshape-merges-members", "file": _E, "rule": "R4", "find": "            model.n_ensemble, batch_size, -1\n        ).transpose([2, 0, 1])", "replace": "            -1, model.n_ensemble, batch_size\n        )"},
    {"id": "c17-plans-sum-particles", "file": _P, "rule": "R5", "find": "    returns = rewards.sum(axis=-1)\n    # mean along particle axis\n    expected_returns = returns.mean(axis=-1)", "replace": "    returns = rewards.mean(axis=-1)\n    # mean along particle axis\n    expected_returns = returns.sum(axis=-1)"},
    {"id": "c17-plans-shifted-trajectory", "file": _P, "rule": "R5", "find": "    rewards = reward_model(broadcasted_actions, trajectories[:, :, :-1])", "replace": "    rewards = reward_model(broadcasted_actions, trajectories[:, :, 1:])"},
    {"id": "c17-pendulum-coefficient", "file": _R, "rule": "R6", "find": "    costs = norm_angle(theta) ** 2 + 0.1 * theta_dot**2 + 0.001 * (act**2)", "replace": "    costs = norm_angle(theta) ** 2 + 0.1 * theta_dot**2 + 0.01 * (act**2)"},
    {"id": "c17-pendulum-torque", "file": _R, "rule": "R6", "find": "PENDULUM_MAX_TORQUE: float = 2.0", "replace": "PENDULUM_MAX_TORQUE: float = 1.0"},
    {"id": "c17-pendulum-no-clip", "file": _R, "rule": "R6", "find": "    act = jnp.clip(act, -PENDULUM_MAX_TORQUE, PENDULUM_MAX_TORQUE)[..., 0]", "replace": "    act = act[..., 0]"},
]
BENIGN = [
    {"id": "c17-b-tsinf-reparam", "file": "rl_blox/algorithm/pets.py", "edits": [("        dist = dynamics_model.base_distribution(\n", "        mean, var = dynamics_model.base_predict(\n"), ("        delta_obs = dist.sample(seed=sampling_key)[0]", "        noise = jax.random.normal(sampling_key, mean[0].shape, dtype=mean.dtype)\n        delta_obs = mean[0] + jnp.sqrt(var[0]) * noise")]},
    # bounding the (E,N,O) ensemble output with the single-vmap wrapper broadcasts (N,O) against (O,): same values, same shapes
    {"id": "c17-b-call-single-vmap", "file": _E, "nth": 0, "find": "        log_vars = self._safe_log_var(\n            log_vars, self.min_log_var, self.max_log_var\n        )\n\n        return means, log_vars", "replace": "        log_vars = self._safe_log_var_i(\n            log_vars, self.min_log_var, self.max_log_var\n        )\n\n        return means, log_vars"},
    {"id": "c17-b-aggregate-commuted", "file": _E, "find": "        return mean, aleatoric_var + epistemic_var", "replace": "        return mean, epistemic_var + aleatoric_var"},
    {"id": "c17-b-nll-rewrite", "file": _E, "find": "    return jnp.mean(squared_errors * inv_var) + 0.5 * jnp.mean(log_var_pred)", "replace": "    return 0.5 * jnp.mean(log_var_pred) + jnp.mean(inv_var * squared_errors)"},
    {"id": "c17-b-truncation-positive", "file": _E, "find": "        remaining = -(bootstrap_indices.shape[1] % batch_size)\n        if remaining:\n            shuffled_indices = shuffled_indices[:, :remaining]", "replace": "        n_keep = bootstrap_indices.shape[1] - bootstrap_indices.shape[1] % batch_size\n        shuffled_indices = shuffled_indices[:, :n_keep]"},
]
